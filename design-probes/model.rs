// independent civil calendar model: iterate day by day
pub fn is_leap(y: i64) -> bool { if y < 1583 { y % 4 == 0 } else { (y%4==0 && y%100!=0) || y%400==0 } }
pub fn mlen(y: i64, m: i64) -> i64 { match m {1|3|5|7|8|10|12=>31,4|6|9|11=>30,2=> if is_leap(y) {29} else {28},_=>unreachable!()} }
pub const JDN0: i64 = 1721424; // 0001-01-01 Julian
pub fn all_days() -> Vec<(i64,i64,i64)> {
  let mut v = Vec::with_capacity(3_700_000);
  for y in 1..=9999 { for m in 1..=12 { for d in 1..=mlen(y,m) { if y==1582 && m==10 && d>4 && d<15 { continue; } v.push((y,m,d)); } } }
  v
}
