#[path="../model.rs"] mod model;
use tyme4rs::tyme::solar::*; use tyme4rs::tyme::Tyme; use tyme4rs::tyme::Culture;
use std::panic::{catch_unwind, AssertUnwindSafe};
// classical allotment: per Jie month branch (starting at chou = term idx 1): (stem, days) x up to 3, last = rest
const ALLOT: [[(i32,i32);3];12] = [
 [(9,9),(7,3),(5,-1)], // chou: gui9 xin3 ji
 [(4,7),(2,7),(0,-1)], // yin
 [(0,10),(-1,0),(1,-1)], // mao
 [(1,9),(9,3),(4,-1)], // chen
 [(4,5),(6,9),(2,-1)], // si
 [(2,10),(5,9),(3,-1)], // wu
 [(3,9),(1,3),(5,-1)], // wei
 [(4,10),(8,3),(6,-1)], // shen
 [(6,10),(-1,0),(7,-1)], // you
 [(7,9),(3,3),(4,-1)], // xu
 [(4,7),(0,5),(8,-1)], // hai
 [(8,10),(-1,0),(9,-1)], // zi
];
fn main(){
  std::panic::set_hook(Box::new(|_|{}));
  let args: Vec<String> = std::env::args().collect();
  let y0: i64 = args[1].parse().unwrap(); let y1: i64 = args[2].parse().unwrap();
  let days = model::all_days();
  // term day jdn for years y0-1..y1+1 using floor(jd+0.5)
  let mut terms: Vec<(isize,usize,i64,f64)> = vec![];
  for y in (y0-1).max(1)..=(y1+1).min(10000) { for i in 0..24isize { let t=SolarTerm::from_index(y as isize,i); let jd=t.get_julian_day().get_day(); terms.push((y as isize,i as usize,(jd+0.5).floor() as i64, jd)); } }
  let mut k=0usize; let mut n=0u64; let mut bad=[0u64;6]; let mut ex: Vec<String>=vec![]; let mut amb=0u64;
  let stem = |jdn:i64| ((jdn+49)%60)%10; let branch = |jdn:i64| ((jdn+49)%60)%12;
  for (i,&(y,m,d)) in days.iter().enumerate() {
    if y<y0 || y>y1 { continue; }
    let jdn = model::JDN0 + i as i64;
    while k+1<terms.len() && terms[k+1].2 <= jdn { k+=1; }
    if terms[k].2 > jdn { continue; }
    // skip ambiguous: any term within +-2 around with instant within 1s of midnight
    let near = |t:&(isize,usize,i64,f64)| { let f=(t.3+0.5).fract(); f<1.0/86400.0 || f>1.0-1.0/86400.0 };
    n+=1;
    let sd = SolarDay::from_ymd(y as isize,m as usize,d as usize);
    let r = catch_unwind(AssertUnwindSafe(|| {
      let nine = sd.get_nine_day().map(|x| (x.get_nine().get_index(), x.get_day_index()));
      let dog = sd.get_dog_day().map(|x| (x.get_dog().get_index(), x.get_day_index()));
      let plum = sd.get_plum_rain_day().map(|x| (x.get_plum_rain().get_index(), x.get_day_index()));
      let ph = { let x = sd.get_phenology_day(); (x.get_phenology().get_index(), x.get_day_index()) };
      let hh = { let x = sd.get_hide_heaven_stem_day(); (x.get_hide_heaven_stem().get_heaven_stem().get_index(), x.get_hide_heaven_stem().get_type().get_name(), x.get_day_index()) };
      (nine,dog,plum,ph,hh) }));
    let (nine,dog,plum,ph,hh) = match r { Ok(v)=>v, Err(_)=>{ bad[5]+=1; if ex.len()<10 { ex.push(format!("PANIC {:?}", (y,m,d))); } continue; } };
    // oracle nine: most recent dongzhi (idx0) on or before
    let mut j=k; while terms[j].1!=0 { if j==0 {break;} j-=1; }
    let mut amb_here = near(&terms[k]) || (k+1<terms.len() && near(&terms[k+1]));
    let e_nine = if terms[j].1==0 && jdn-terms[j].2 < 81 { let dd=jdn-terms[j].2; Some(((dd/9) as usize,(dd%9) as usize)) } else { None };
    if terms[j].1==0 && near(&terms[j]) { amb_here=true; }
    // dog: xiazhi of civil year y: term (y,12); liqiu (y,15)
    let find = |yy:isize, ii:usize| terms.iter().find(|t| t.0==yy && t.1==ii).cloned();
    let xz = find(y as isize,12).unwrap(); let lq = find(y as isize,15).unwrap();
    if near(&xz)||near(&lq) { amb_here=true; }
    let g1 = xz.2 + (6 - stem(xz.2)).rem_euclid(10); let s1 = g1+20; let s2=s1+10; let g5=s2+10; let (s3, mid) = if g5 < lq.2 { (g5+10,20) } else { (g5,10) };
    let e_dog = if jdn>=s1 && jdn<s2 { Some((0usize,(jdn-s1) as usize)) } else if jdn>=s2 && jdn<s2+mid { Some((1,(jdn-s2) as usize)) } else if jdn>=s3 && jdn<s3+10 { Some((2,(jdn-s3) as usize)) } else { None };
    let mz = find(y as isize,11).unwrap(); let xs = find(y as isize,13).unwrap(); if near(&mz)||near(&xs) { amb_here=true; }
    let p0 = mz.2 + (2 - stem(mz.2)).rem_euclid(10); let p1 = xs.2 + (7 - branch(xs.2)).rem_euclid(12);
    let e_plum = if jdn<p0 || jdn>p1 { None } else if jdn==p1 { Some((1usize,0usize)) } else { Some((0,(jdn-p0) as usize)) };
    let di = jdn-terms[k].2; let pi = (di/5).min(2); let e_ph = (terms[k].1*3 + pi as usize, (di - pi*5) as usize);
    // hide heaven stem: jie term on/before
    let mut jj=k; while terms[jj].1%2==0 { jj-=1; } if near(&terms[jj]) { amb_here=true; }
    let dj = jdn-terms[jj].2; let al = ALLOT[(terms[jj].1-1)/2];
    let mut acc=0i64; let mut e_hh=(0usize,"",0usize);
    for (slot,&(st,cnt)) in al.iter().enumerate() { if st<0 { continue; } let name=["余气","中气","本气"][slot]; if cnt<0 || dj < acc+cnt as i64 { e_hh=(st as usize,name,(dj-acc) as usize); break; } acc+=cnt as i64; }
    if amb_here { amb+=1; continue; }
    if nine!=e_nine { bad[0]+=1; if ex.len()<10 { ex.push(format!("nine {:?} got {:?} exp {:?}", (y,m,d), nine, e_nine)); } }
    if dog!=e_dog { bad[1]+=1; if ex.len()<10 { ex.push(format!("dog {:?} got {:?} exp {:?}", (y,m,d), dog, e_dog)); } }
    if plum!=e_plum { bad[2]+=1; if ex.len()<10 { ex.push(format!("plum {:?} got {:?} exp {:?}", (y,m,d), plum, e_plum)); } }
    if ph!=e_ph { bad[3]+=1; if ex.len()<10 { ex.push(format!("phen {:?} got {:?} exp {:?}", (y,m,d), ph, e_ph)); } }
    if (hh.0,hh.1.as_str(),hh.2)!=e_hh { bad[4]+=1; if ex.len()<20 { ex.push(format!("hide {:?} got {:?} exp {:?} (dj {})", (y,m,d), hh, e_hh, dj)); } }
  }
  println!("{}..{} n {} amb {} bad nine {} dog {} plum {} phen {} hide {} panic {}", y0,y1,n,amb,bad[0],bad[1],bad[2],bad[3],bad[4],bad[5]);
  for e in ex { println!("   {}", e); }
}
