#[path="../model.rs"] mod model;
use tyme4rs::tyme::solar::*; use tyme4rs::tyme::lunar::*; use tyme4rs::tyme::Tyme; use tyme4rs::tyme::Culture;
use std::panic::{catch_unwind, AssertUnwindSafe};
fn main(){
  std::panic::set_hook(Box::new(|_|{}));
  let days = model::all_days();
  use std::collections::HashMap; let idx: HashMap<(i64,i64,i64),usize> = days.iter().cloned().enumerate().map(|(i,d)|(d,i)).collect();
  // all terms: (year, index) -> day index & instant
  let mut terms: Vec<(isize,usize,f64,usize)> = vec![]; // year, idx, jd, dayindex
  let mut gaps_bad=0; let mut prevjd: Option<f64>=None; let mut mn=f64::MAX; let mut mx=0f64;
  for y in 1..=9999isize { for i in 0..24isize {
    let t = SolarTerm::from_index(y,i); let jd = t.get_julian_day().get_day();
    if let Some(p)=prevjd { let g=jd-p; if g<mn {mn=g;} if g>mx {mx=g;} if !(g>14.6 && g<15.8) { gaps_bad+=1; if gaps_bad<10 {println!("gap {} at {} {}", g,y,i);} } }
    prevjd=Some(jd);
    let r = catch_unwind(AssertUnwindSafe(|| { let sd = t.get_julian_day().get_solar_day(); (sd.get_year() as i64, sd.get_month() as i64, sd.get_day() as i64) }));
    match r { Ok(d) => terms.push((y,i as usize,jd,idx[&d])), Err(_) => { println!("term {} {} jd {} -> get_solar_day panics", y,i,jd); } }
  }}
  println!("terms {} gap min {} max {} bad {}", terms.len(), mn, mx, gaps_bad);
  // day->term oracle: latest term with dayindex <= i
  let mut ti=0usize; let mut wrong=0u64; let mut panics=0u64; let mut first_wrong: Vec<String>=vec![]; let mut maxidx=0usize;
  let mut wrong_by_century: std::collections::BTreeMap<i64,u64> = Default::default();
  for (i,&(y,m,d)) in days.iter().enumerate() {
    while ti+1 < terms.len() && terms[ti+1].3 <= i { ti+=1; }
    if terms[ti].3 > i { continue; } // before first term
    let exp = &terms[ti];
    let r = catch_unwind(AssertUnwindSafe(|| { let td = SolarDay::from_ymd(y as isize,m as usize,d as usize).get_term_day(); (td.get_solar_term().get_index(), td.get_solar_term().get_year(), td.get_day_index()) }));
    match r { Err(_) => { panics+=1; if panics<5 { println!("get_term_day panics {:?}", (y,m,d)); } }
      Ok((gi,gy,gdi)) => { if gdi>maxidx {maxidx=gdi;} if gi != exp.1 || gdi != i-exp.3 || gy != exp.0 { wrong+=1; *wrong_by_century.entry(y/100).or_default()+=1; if first_wrong.len()<5 { first_wrong.push(format!("{:?}: got ({},{},{}) exp ({},{},{})", (y,m,d), gy,gi,gdi, exp.0,exp.1,i-exp.3)); } } } }
  }
  println!("day->term wrong {} panics {} maxidx {} ; {:?}", wrong, panics, maxidx, first_wrong);
  println!("wrong by century {:?}", wrong_by_century);
}
