use tyme4rs::tyme::festival::*; use tyme4rs::tyme::lunar::*; use tyme4rs::tyme::Tyme;
use std::panic::{catch_unwind, AssertUnwindSafe};
fn main(){ std::panic::set_hook(Box::new(|i|{ println!("  panic: {}", i); }));
  for y in [0isize,1,2,9,23,24,25,239,240,9998,9999] { for i in 0..13usize { let r = catch_unwind(AssertUnwindSafe(|| { let f=LunarFestival::from_index(y,i).unwrap(); let d=f.get_day(); let g=d.get_festival(); (f.to_string(), g.map(|x| x.to_string())) })); if r.is_err() { println!("PANIC year {} idx {}", y, i); } } }
  // stepping
  let f = LunarFestival::from_index(2023,0).unwrap();
  for n in [-27isize,-14,-13,-1,0,1,12,13,14,26] { let g=f.next(n).unwrap(); println!("next({}) -> {} idx {} year {}", n, g, g.get_index(), g.get_day().get_year()); }
  let s = SolarFestival::from_index(2023,0).unwrap(); for n in [-21isize,-10,-1,0,1,9,10,11] { let g=s.next(n); println!("solar next({}) -> {:?}", n, g.map(|x| x.to_string())); }
  println!("{:?}", SolarFestival::from_index(1950,0).unwrap().next(-1).map(|x|x.to_string()));
  println!("{:?}", SolarFestival::from_index(1949,7).map(|x|x.to_string()));
}
