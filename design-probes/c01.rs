#[path="../model.rs"] mod model;
use tyme4rs::tyme::solar::*; use tyme4rs::tyme::jd::*; use tyme4rs::tyme::Tyme;
use std::panic::catch_unwind;
fn main(){
  std::panic::set_hook(Box::new(|_|{}));
  let days = model::all_days();
  println!("n={}", days.len());
  let mut bad=0;
  for (i,&(y,m,d)) in days.iter().enumerate() {
    let sd = SolarDay::from_ymd(y as isize,m as usize,d as usize);
    let jd = sd.get_julian_day().get_day();
    let exp = (model::JDN0 + i as i64) as f64 - 0.5;
    if jd != exp { bad+=1; if bad<10 { println!("JD mismatch {:?} {} {}", (y,m,d), jd, exp);} }
    let back = JulianDay::from_julian_day(jd).get_solar_day();
    if (back.get_year() as i64, back.get_month() as i64, back.get_day() as i64) != (y,m,d) { bad+=1; if bad<10 {println!("back mismatch {:?} -> {}", (y,m,d), back);} }
    if sd.get_week().get_index() as i64 != (model::JDN0 + i as i64 + 1) % 7 { bad+=1; }
  }
  println!("bad={}", bad);
  // acceptance
  let mut acc=0; let mut badacc=0;
  use std::collections::HashSet;
  let set: HashSet<(i64,i64,i64)> = days.iter().cloned().collect();
  for y in 1..=9999i64 { for m in 0..=13i64 { for d in 0..=32i64 {
     let r = catch_unwind(|| SolarDay::new(y as isize, m as usize, d as usize));
     let ok = matches!(r, Ok(Ok(_)));
     if ok { acc+=1; }
     if ok != set.contains(&(y,m,d)) { badacc+=1; if badacc<10 { println!("accept mismatch {:?} lib={}", (y,m,d), ok);} }
  }}}
  println!("accepted={} badacc={}", acc, badacc);
  // year 0 and 10000
  for y in [0isize, 10000, -1] { let r = catch_unwind(|| SolarDay::new(y,1,1)); println!("year {} -> {:?}", y, r.map(|x| x.map(|d| d.to_string()))); }
  // next: random-ish
  let n = days.len();
  let mut badn=0;
  let mut s: u64 = 12345;
  for _ in 0..2_000_000 {
    s = s.wrapping_mul(6364136223846793005).wrapping_add(1442695040888963407);
    let i = (s>>33) as usize % n; s = s.wrapping_mul(6364136223846793005).wrapping_add(1442695040888963407);
    let j = (s>>33) as usize % n;
    let a = days[i]; let b = days[j];
    let sa = SolarDay::from_ymd(a.0 as isize,a.1 as usize,a.2 as usize);
    let sb = SolarDay::from_ymd(b.0 as isize,b.1 as usize,b.2 as usize);
    let nx = sa.next(j as isize - i as isize);
    if nx != sb { badn+=1; if badn<10 {println!("next mismatch {:?}+{} -> {} exp {:?}", a, j as isize-i as isize, nx, b);} }
    if sb.subtract(sa) != j as isize - i as isize { badn+=1; }
    if sa.is_before(sb) != (i<j) || sa.is_after(sb) != (i>j) { badn+=1; }
  }
  println!("badn={}", badn);
}
