use tyme4rs::tyme::solar::*; use tyme4rs::tyme::lunar::*; use tyme4rs::tyme::Tyme; use tyme4rs::tyme::Culture; use tyme4rs::tyme::jd::JulianDay;
use tyme4rs::tyme::festival::*; use tyme4rs::tyme::eightchar::*; use tyme4rs::tyme::enums::Gender;
use std::panic::{catch_unwind, AssertUnwindSafe};
fn p<T: std::fmt::Debug>(label: &str, f: impl FnOnce()->T) { match catch_unwind(AssertUnwindSafe(f)) { Ok(v)=>println!("{} => {:?}", label, v), Err(_)=>println!("{} => PANIC", label) } }
fn main(){
  std::panic::set_hook(Box::new(|_|{}));
  // C13
  p("1582-10 get_days len", || SolarMonth::from_ym(1582,10).get_days().len());
  p("1582-10 day_count", || SolarMonth::from_ym(1582,10).get_day_count());
  p("LunarYear 9999 months", || LunarYear::from_year(9999).get_months().len());
  p("LunarYear 9999 day_count", || LunarYear::from_year(9999).get_day_count());
  // C14
  p("week of 1582-10-20 start0", || { let w=SolarDay::from_ymd(1582,10,20).get_solar_week(0); format!("{} first {} days {:?}", w, w.get_first_day(), w.get_days().iter().map(|d|d.to_string()).collect::<Vec<_>>()) });
  p("week of 1582-10-31 start0", || SolarDay::from_ymd(1582,10,31).get_solar_week(0).to_string());
  p("1582-10 week_count(0)", || SolarMonth::from_ym(1582,10).get_week_count(0));
  p("1582-10 weeks(0)", || SolarMonth::from_ym(1582,10).get_weeks(0).iter().map(|w| w.get_first_day().to_string()).collect::<Vec<_>>());
  // C12
  p("JD 23:59:59.7 on 2023-01-31", || { let jd = SolarTime::from_ymd_hms(2023,1,31,23,59,59).get_julian_day().get_day() + 0.7/86400.0; JulianDay::from_julian_day(jd).get_solar_time().to_string() });
  p("JD 23:59:59.7 on 2023-01-30", || { let jd = SolarTime::from_ymd_hms(2023,1,30,23,59,59).get_julian_day().get_day() + 0.7/86400.0; JulianDay::from_julian_day(jd).get_solar_time().to_string() });
  p("JD 12:59:59.7", || { let jd = SolarTime::from_ymd_hms(2023,1,30,12,59,59).get_julian_day().get_day() + 0.7/86400.0; JulianDay::from_julian_day(jd).get_solar_time().to_string() });
  p("JD 23:59:59.7 on 1582-10-04", || { let jd = SolarTime::from_ymd_hms(1582,10,4,23,59,59).get_julian_day().get_day() + 0.7/86400.0; JulianDay::from_julian_day(jd).get_solar_time().to_string() });
  p("time next 1582-10-04 23:59:59 +1", || SolarTime::from_ymd_hms(1582,10,4,23,59,59).next(1).to_string());
  p("time next -1e9", || SolarTime::from_ymd_hms(2000,1,1,0,0,0).next(-1_000_000_000).to_string());
  p("time next 1e9", || SolarTime::from_ymd_hms(2000,1,1,0,0,0).next(1_000_000_000).to_string());
  p("roundtrip time->jd->time 2000-01-01 00:00:01", || SolarTime::from_ymd_hms(2000,1,1,0,0,1).get_julian_day().get_solar_time().to_string());
  // C17
  p("six star 2020 -4 1", || { let d=LunarDay::from_ymd(2020,-4,1); (d.get_six_star().get_index(), d.get_six_star().get_name()) });
  p("six star 2020 4 1", || { let d=LunarDay::from_ymd(2020,4,1); (d.get_six_star().get_index(), d.get_six_star().get_name()) });
  // C20
  p("dongzhi festival 2023 by index", || { let f=LunarFestival::from_index(2023,10).unwrap(); let d=f.get_day(); (f.to_string(), d.get_festival().map(|x| x.to_string())) });
  p("qingming festival 2023 by index", || { let f=LunarFestival::from_index(2023,4).unwrap(); let d=f.get_day(); (f.to_string(), d.get_festival().map(|x| x.to_string())) });
  p("eve 2023 by index", || { let f=LunarFestival::from_index(2023,12).unwrap(); let d=f.get_day(); (f.to_string(), d.get_festival().map(|x| x.to_string())) });
  // C02 ordering
  p("lunar 2020 4/−4 ordering", || { let a=LunarDay::from_ymd(2020,4,5); let b=LunarDay::from_ymd(2020,-4,5); (a.is_before(b.clone()), a.is_after(b.clone()), b.is_before(a.clone()), b.is_after(a.clone())) });
  // C09
  p("eightchar inverse", || { let t=SolarTime::from_ymd_hms(1988,2,15,13,30,0); let ec=t.get_lunar_hour().get_eight_char(); let l=ec.get_solar_times(1900,2100); (ec.to_string(), l.iter().map(|x|x.to_string()).collect::<Vec<_>>()) });
  p("eightchar inverse zi hour", || { let t=SolarTime::from_ymd_hms(1988,2,15,0,30,0); let ec=t.get_lunar_hour().get_eight_char(); let l=ec.get_solar_times(1900,2100); (ec.to_string(), l.iter().map(|x|x.to_string()).collect::<Vec<_>>()) });
  p("eightchar inverse 23h", || { let t=SolarTime::from_ymd_hms(1988,2,15,23,30,0); let ec=t.get_lunar_hour().get_eight_char(); let l=ec.get_solar_times(1900,2100); (ec.to_string(), l.iter().map(|x|x.to_string()).collect::<Vec<_>>()) });
  // C16 Oct 1582
  p("childlimit 1582-10-25", || { let c=ChildLimit::from_solar_time(SolarTime::from_ymd_hms(1582,10,25,12,0,0), Gender::MAN); (c.get_end_time().to_string(), c.get_year_count(), c.get_month_count(), c.get_day_count(), c.get_hour_count(), c.get_minute_count(), c.is_forward()) });
  p("childlimit 1582-10-25 W", || { let c=ChildLimit::from_solar_time(SolarTime::from_ymd_hms(1582,10,25,12,0,0), Gender::WOMAN); (c.get_end_time().to_string(), c.get_year_count(), c.get_month_count(), c.get_day_count(), c.get_hour_count(), c.get_minute_count(), c.is_forward()) });
  p("childlimit 2000-01-31", || { let c=ChildLimit::from_solar_time(SolarTime::from_ymd_hms(2000,1,31,12,0,0), Gender::MAN); (c.get_end_time().to_string(), c.get_year_count(), c.get_month_count(), c.get_day_count(), c.get_hour_count(), c.get_minute_count(), c.is_forward()) });
}
