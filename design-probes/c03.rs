use tyme4rs::tyme::solar::*; use tyme4rs::tyme::lunar::*; use tyme4rs::tyme::Tyme;
use std::panic::{catch_unwind, AssertUnwindSafe};
fn main(){
  std::panic::set_hook(Box::new(|_|{}));
  // walk month by month from (0,1)
  let mut m = LunarMonth::from_ym(0, 1);
  let mut n=0; let mut bad=0;
  loop {
    let r = catch_unwind(AssertUnwindSafe(|| m.next(1)));
    let nx = match r { Ok(x)=>x, Err(_)=>{ println!("next panics at {} ({},{})", m, m.get_year(), m.get_month_with_leap()); break; } };
    n+=1;
    let a = m.get_first_julian_day().get_day(); let b = nx.get_first_julian_day().get_day();
    let dc = m.get_day_count() as f64;
    if b - a != dc || !(dc==29.0||dc==30.0) { bad+=1; if bad<60 { println!("tiling break: ({},{}) first {} dc {} ; next ({},{}) first {}", m.get_year(), m.get_month_with_leap(), a, dc, nx.get_year(), nx.get_month_with_leap(), b); } }
    let back = nx.next(-1);
    if back != m { bad+=1; if bad<60 { println!("next/back: ({},{}) -> ({},{}) -> ({},{})", m.get_year(), m.get_month_with_leap(), nx.get_year(), nx.get_month_with_leap(), back.get_year(), back.get_month_with_leap()); } }
    m = nx;
    if m.get_year()==9999 && m.get_month_with_leap()==12 { break; }
  }
  println!("lunations {} bad {}", n, bad);
  // years
  let mut ybad=0;
  for y in 0..=9998isize {
    let ly = LunarYear::from_year(y);
    let ms = ly.get_months(); let leap = ly.get_leap_month();
    let cnt = ly.get_month_count();
    let dc = ly.get_day_count();
    let ny = LunarMonth::from_ym(y+1,1).get_first_julian_day().get_day() - LunarMonth::from_ym(y,1).get_first_julian_day().get_day();
    let sum: usize = ms.iter().map(|m| m.get_day_count()).sum();
    let okc = ms.len()==cnt && cnt == if leap>0 {13} else {12};
    let okd = dc==sum && dc as f64==ny && ((353..=355).contains(&dc) || (383..=385).contains(&dc));
    // order
    let mut exp: Vec<isize> = vec![]; for k in 1..=12isize { exp.push(k); if leap as isize==k { exp.push(-k);} }
    let got: Vec<isize> = ms.iter().map(|m| m.get_month_with_leap()).collect();
    let idx_ok = ms.iter().enumerate().all(|(i,m)| m.get_index_in_year()==i);
    if !(okc && okd && exp==got && idx_ok) { ybad+=1; if ybad<40 { println!("year {} leap {} cnt {} len {} dc {} sum {} ny {} got {:?}", y, leap, cnt, ms.len(), dc, sum, ny, got); } }
  }
  println!("ybad {}", ybad);
}
