#[path="../model.rs"] mod model;
use tyme4rs::tyme::solar::*; use tyme4rs::tyme::lunar::*; use tyme4rs::tyme::Tyme; use tyme4rs::tyme::Culture;
use std::panic::{catch_unwind, AssertUnwindSafe};
fn main(){
  std::panic::set_hook(Box::new(|_|{}));
  let days = model::all_days();
  use std::collections::HashMap; let idx: HashMap<(i64,i64,i64),usize> = days.iter().cloned().enumerate().map(|(i,d)|(d,i)).collect();
  let args: Vec<String> = std::env::args().collect();
  let y0: i64 = args[1].parse().unwrap(); let y1: i64 = args[2].parse().unwrap();
  // jie terms (odd index) day indices
  let mut jie: Vec<(isize,usize,usize)> = vec![]; // year, idx, dayindex
  for y in (y0 as isize).max(1)..=((y1+1) as isize).min(9999) { for i in (1..24isize).step_by(2) { let t=SolarTerm::from_index(y,i);
     if let Ok(d)=catch_unwind(AssertUnwindSafe(|| { let sd=t.get_julian_day().get_solar_day(); (sd.get_year() as i64, sd.get_month() as i64, sd.get_day() as i64)})) { jie.push((y,i as usize,idx[&d])); } } }
  let mut k=0usize; let mut bad_day=0u64; let mut bad_wk=0u64; let mut bad_y=0u64; let mut bad_m=0u64; let mut bad_pair=0u64; let mut panics=0u64; let mut n=0u64; let mut route_bad=0u64;
  let mut ex: Vec<String> = vec![];
  for (i,&(y,m,d)) in days.iter().enumerate() {
    if y<y0 || y>y1 { continue; }
    while k+1 < jie.len() && jie[k+1].2 <= i { k+=1; }
    if jie[k].2 > i { continue; }
    n+=1;
    let jdn = model::JDN0 + i as i64;
    let r = catch_unwind(AssertUnwindSafe(|| { let sd=SolarDay::from_ymd(y as isize,m as usize,d as usize); let scd=sd.get_sixty_cycle_day(); let ld = sd.get_lunar_day();
       (scd.get_year().get_index(), scd.get_month().get_index(), scd.get_sixty_cycle().get_index(), ld.get_sixty_cycle().get_index(), sd.get_week().get_index(), ld.get_week().get_index(), scd.get_sixty_cycle_month().get_sixty_cycle_year().get_year()) }));
    match r { Err(_) => { panics+=1; }
     Ok((yi,mi,di,ldi,wk,lwk,scy)) => {
       if di as i64 != (jdn+49)%60 { bad_day+=1; } if ldi!=di { route_bad+=1; }
       if wk as i64 != (jdn+1)%7 || lwk!=wk { bad_wk+=1; }
       // expected year: jie[k] year if idx>=3 (lichun or later in that term-year) else year-1  (term-year y runs dongzhi(Dec y-1) .. ; lichun idx 3)
       let (ty, ti, _) = jie[k]; let ey = if ti>=3 { ty } else { ty-1 };
       let eyi = (ey - 4).rem_euclid(60) as usize;
       // month: branch: lichun(3)->yin(2), jingzhe(5)->mao(3) ... xiaohan(1)->chou(1), daxue(23)->zi(0)
       let mo = ((ti as isize - 3).rem_euclid(24))/2; // 0=yin month
       let ebranch = (mo + 2) % 12;
       let estem = ((eyi%10) as isize % 5 * 2 + 2 + mo) % 10; // five tigers: jia/ji year -> bing(2) yin
       let emi = (0..60).find(|x| x%10==estem as usize && x%12==ebranch as usize).unwrap();
       if yi!=eyi { bad_y+=1; if ex.len()<6 { ex.push(format!("Y {:?} got {} exp {} (scy {})", (y,m,d), yi, eyi, scy)); } }
       if mi!=emi { bad_m+=1; if ex.len()<12 { ex.push(format!("M {:?} got {} exp {}", (y,m,d), mi, emi)); } }
       // legal pair: month stem determined by year stem & month branch
       let mb = mi%12; let mo2 = (mb as isize - 2).rem_euclid(12); let st = ((yi%10) as isize %5*2+2+mo2)%10; if mi%10 != st as usize { bad_pair+=1; }
     } }
  }
  println!("years {}..{} n {} panics {} bad_day {} route_bad {} bad_wk {} bad_y {} bad_m {} bad_pair {}", y0,y1,n,panics,bad_day,route_bad,bad_wk,bad_y,bad_m,bad_pair);
  for e in ex { println!("  {}", e); }
}
