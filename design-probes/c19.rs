use tyme4rs::tyme::sixtycycle::*; use tyme4rs::tyme::culture::*; use tyme4rs::tyme::culture::star::ten::*; use tyme4rs::tyme::Tyme; use tyme4rs::tyme::Culture;
fn main(){
  let stems: Vec<HeavenStem> = (0..10).map(HeavenStem::from_index).collect();
  let brs: Vec<EarthBranch> = (0..12).map(EarthBranch::from_index).collect();
  let el = ["木","火","土","金","水"];
  let mut bad=0;
  // branch element by first principles: yin mao wood; si wu fire; shen you metal; hai zi water; chen xu chou wei earth
  let be = |b:usize| match b {2|3=>0,5|6=>1,8|9=>3,11|0=>4,_=>2};
  for b in 0..12 { if brs[b].get_element().get_name()!=el[be(b)] { bad+=1; println!("branch element {}", b); } }
  // hidden stems classical
  let hid: [&[usize];12] = [&[9],&[5,9,7],&[0,2,4],&[1],&[4,1,9],&[2,6,4],&[3,5],&[5,3,1],&[6,8,4],&[7],&[4,7,3],&[8,0]];
  for b in 0..12 { let got: Vec<usize> = brs[b].get_hide_heaven_stems().iter().map(|h| h.get_heaven_stem().get_index()).collect(); if got!=hid[b] { bad+=1; println!("hidden stems {} got {:?} exp {:?}", b, got, hid[b]); } }
  // ten star by relation
  let names = ["比肩","劫财","食神","伤官","偏财","正财","七杀","正官","偏印","正印"];
  for a in 0..10usize { for b in 0..10usize { let ea=a/2; let eb=b/2; let same=(a%2)==(b%2);
    let rel = (eb+5-ea)%5; // 0 same,1 I generate,2 I overcome,3 overcomes me,4 generates me
    let e = match (rel,same) { (0,true)=>0,(0,false)=>1,(1,true)=>2,(1,false)=>3,(2,true)=>4,(2,false)=>5,(3,true)=>6,(3,false)=>7,(4,true)=>8,(4,false)=>9,_=>unreachable!() };
    let g = stems[a].get_ten_star(stems[b].clone()).get_name(); if g!=names[e] { bad+=1; println!("ten star {} {} got {} exp {}", a,b,g,names[e]); } } }
  // terrain: changsheng branch: jia hai(11), bing yin(2), wu yin(2), geng si(5), ren shen(8); yi wu(6), ding you(9), ji you(9), xin zi(0), gui mao(3)
  let cs = [11usize,6,2,9,2,9,5,0,8,3];
  for a in 0..10usize { for b in 0..12usize { let e = if a%2==0 { (b+12-cs[a])%12 } else { (cs[a]+12-b)%12 }; let g=stems[a].get_terrain(brs[b].clone()).get_index(); if g!=e { bad+=1; println!("terrain {} {} got {} exp {}", a,b,g,e); } } }
  // combos
  for a in 0..10usize { if stems[a].get_combine().get_index()!=(a+5)%10 { bad+=1; } if stems[a].get_combine().get_combine().get_index()!=a { bad+=1; } let ce=stems[a].combine(stems[(a+5)%10].clone()).map(|e| e.get_name()); let exp=[ "土","金","水","木","火"][a%5]; if ce.as_deref()!=Some(exp) { bad+=1; println!("stem combine elem {} {:?} exp {}", a, ce, exp); } }
  let six = [(0,1,"土"),(2,11,"木"),(3,10,"火"),(4,9,"金"),(5,8,"水"),(6,7,"土")];
  for &(x,y,e) in &six { for (p,q) in [(x,y),(y,x)] { if brs[p].get_combine().get_index()!=q { bad+=1; println!("six combine {} {}", p,q); } let ce=brs[p].combine(brs[q].clone()).map(|e| e.get_name()); if ce.as_deref()!=Some(e) { bad+=1; println!("six combine elem {} {} {:?} exp {}", p,q,ce,e); } } }
  let harm=[(0,7),(1,6),(2,5),(3,4),(8,11),(9,10)]; for &(x,y) in &harm { if brs[x].get_harm().get_index()!=y || brs[y].get_harm().get_index()!=x { bad+=1; println!("harm {} {}", x,y); } }
  for b in 0..12 { if brs[b].get_opposite().get_index()!=(b+6)%12 { bad+=1; } }
  // ominous: si you chou -> east; hai mao wei -> west; shen zi chen -> south; yin wu xu -> north
  let dn = |b:usize| match b {5|9|1=>"东",11|3|7=>"西",8|0|4=>"南",_=>"北"}; for b in 0..12 { if brs[b].get_ominous().get_name()!=dn(b) { bad+=1; println!("ominous {}", b); } }
  // directions: trigram map
  let tri = |c:char| match c {'坎'=>"北",'坤'=>"西南",'震'=>"东",'巽'=>"东南",'乾'=>"西北",'兑'=>"西",'艮'=>"东北",'离'=>"南",_=>"?"};
  let joy=['艮','乾','坤','离','巽']; for a in 0..10 { if stems[a].get_joy_direction().get_name()!=tri(joy[a%5]) { bad+=1; println!("joy {}", a); } }
  let yang=['坤','坤','兑','乾','艮','坎','离','艮','震','巽']; for a in 0..10 { if stems[a].get_yang_direction().get_name()!=tri(yang[a]) { bad+=1; println!("yang {} got {}", a, stems[a].get_yang_direction()); } }
  // yin noble: jia wu niu yang (chou wei)-> ; rhymes by animals: 甲戊见牛羊(丑未) 乙己鼠猴乡(子申) 丙丁猪鸡位(亥酉) 壬癸蛇兔藏(巳卯) 庚辛逢虎马(寅午)
  for a in 0..10 { println!("yin noble {} -> {} ; yang {} ; wealth {} ; mascot {}", stems[a], stems[a].get_yin_direction(), stems[a].get_yang_direction(), stems[a].get_wealth_direction(), stems[a].get_mascot_direction()); }
  // nayin element rule
  for i in 0..60usize { let s=(i%10)/2+1; let b=match i%12 {0|1|6|7=>1,2|3|8|9=>2,_=>3}; let mut v=s+b; if v>5 {v-=5;} let e=["木","金","水","火","土"][v-1]; let name=SixtyCycle::from_index(i as isize).get_sound().get_name(); if !name.ends_with(e) { bad+=1; println!("nayin {} {} exp {}", i, name, e); } }
  // xun & void
  for i in 0..60usize { let sc=SixtyCycle::from_index(i as isize); let xun_start=i-(i%10); if sc.get_ten().get_name()!=SixtyCycle::from_index(xun_start as isize).get_name() { bad+=1; println!("xun {}", i);} let v: Vec<usize>=sc.get_extra_earth_branches().iter().map(|b| b.get_index()).collect(); let e0=(xun_start+10)%12; if v!=vec![e0,(e0+1)%12] { bad+=1; println!("void {} {:?}", i, v); } }
  println!("bad {}", bad);
}
