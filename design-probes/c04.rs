use tyme4rs::tyme::solar::*; use tyme4rs::tyme::lunar::*; use tyme4rs::tyme::Tyme;
fn main(){
  // Build list of lunations (first JD day numbers at noon-based integer) from the library, labelled.
  // Build list of zhongqi days (even index terms: 0=dongzhi,2=dahan,...) from get_cursory_julian_day
  let mut months: Vec<(isize,isize,i64,i64)> = vec![]; // year, month_with_leap, first(J2000-based int day), dc
  for y in 20..=9998isize { for m in LunarYear::from_year(y).get_months() { months.push((y, m.get_month_with_leap(), (m.get_first_julian_day().get_day() - 2451545.0) as i64, m.get_day_count() as i64)); } }
  let mut qi: Vec<(isize,usize,i64)> = vec![];
  for y in 20..=9999isize { for i in (0..24).step_by(2) { let t = SolarTerm::from_index(y, i); qi.push((y, i as usize, t.get_cursory_julian_day() as i64)); } }
  println!("months {} qi {}", months.len(), qi.len());
  // for each month: which zhongqi fall in [first, first+dc)
  let mut qi_idx = 0usize; let mut bad=0;
  // locate winter-solstice months
  let mut contains: Vec<Vec<usize>> = vec![vec![]; months.len()];
  for (k,&(_,_,f,dc)) in months.iter().enumerate() {
    while qi_idx < qi.len() && qi[qi_idx].2 < f { qi_idx+=1; }
    let mut j = qi_idx; while j < qi.len() && qi[j].2 < f+dc { contains[k].push(qi[j].1); j+=1; }
  }
  // winter solstice month must be month 11
  let ws: Vec<usize> = (0..months.len()).filter(|&k| contains[k].contains(&0)).collect();
  for &k in &ws { if months[k].1 != 11 { bad+=1; if bad<30 { println!("WS month not 11: {:?} contains {:?}", months[k], contains[k]); } } }
  // between consecutive ws months
  for w in ws.windows(2) {
    let (a,b)=(w[0],w[1]); let n = b-a;
    let between = &months[a+1..b];
    let leaps: Vec<&(isize,isize,i64,i64)> = between.iter().filter(|m| m.1<0).collect();
    if n==12 { if !leaps.is_empty() { bad+=1; if bad<30 { println!("12 lunations but leap {:?}", leaps);} } }
    else if n==13 {
      let first_noqi = (a+1..b).find(|&k| contains[k].is_empty());
      let ok = match first_noqi { Some(k) => months[k].1<0 && months[k].1 == -months[k-1].1 && leaps.len()==1, None => false };
      if !ok { bad+=1; if bad<30 { println!("13 lunations rule fails after {:?}: first_noqi {:?} leaps {:?}", months[a], first_noqi.map(|k| months[k]), leaps);} }
    } else { bad+=1; if bad<30 { println!("n={} between ws months {:?} {:?}", n, months[a], months[b]); } }
  }
  println!("ws {} bad {}", ws.len(), bad);
}
