use tyme4rs::tyme::solar::*; use tyme4rs::tyme::lunar::*; use tyme4rs::tyme::sixtycycle::*; use tyme4rs::tyme::Tyme; use tyme4rs::tyme::Culture;
use std::panic::{catch_unwind, AssertUnwindSafe};
fn main(){
  std::panic::set_hook(Box::new(|_|{}));
  let mut s: u64 = 31337;
  let mut rnd = |m: u64| { s = s.wrapping_mul(6364136223846793005).wrapping_add(1442695040888963407); (s>>33) % m };
  // hour pillar exhaustive: 60 day pillars x 24 hours: via a run of 60 consecutive days
  let mut badh=0;
  for k in 0..60 { let sd = SolarDay::from_ymd(2000,1,1).next(k); let dp = sd.get_lunar_day().get_sixty_cycle().get_index();
    for h in 0..24usize { let t = SolarTime::from_ymd_hms(sd.get_year(), sd.get_month(), sd.get_day(), h, 30, 0); let lh = t.get_lunar_hour(); let hp = lh.get_sixty_cycle().get_index();
      let hb = ((h+1)/2)%12; let dpe = if h==23 { (dp+1)%60 } else { dp }; let hs = ((dpe%10)%5*2 + hb)%10; let e=(0..60).find(|x| x%10==hs && x%12==hb).unwrap();
      let sch = t.get_sixty_cycle_hour();
      if hp!=e || sch.get_sixty_cycle().get_index()!=e || sch.get_day().get_index()!=dpe || lh.get_index_in_day()!=(h+1)/2 || sch.get_index_in_day()!=hb { badh+=1; println!("hour pillar bad day {} h {}: got {} exp {}", dp,h,hp,e); } } }
  println!("hour pillar exhaustive bad {}", badh);
  let (mut n, mut unsound, mut incomplete, mut panics, mut comp_bad, mut skipped) = (0u64,0u64,0u64,0u64,0u64,0u64); let mut ex: Vec<String>=vec![];
  for _ in 0..6000 {
    let y = 30 + rnd(9960) as isize; let mo = 1+rnd(12) as usize; let d=1+rnd(28) as usize; let h=rnd(24) as usize; let mi=rnd(60) as usize; let se=rnd(60) as usize;
    if y==1582 && mo==10 { continue; }
    let t = SolarTime::from_ymd_hms(y,mo,d,h,mi,se);
    let r = catch_unwind(AssertUnwindSafe(|| {
      let lh=t.get_lunar_hour(); let ec = lh.get_eight_char(); let sch=t.get_sixty_cycle_hour();
      let comp = ec.get_year()==sch.get_year() && ec.get_month()==sch.get_month() && ec.get_day()==sch.get_day() && ec.get_hour()==sch.get_sixty_cycle() && ec.get_hour()==lh.get_sixty_cycle();
      // double hour bounds
      let start = if h%2==1 { t.next(-((mi*60+se) as isize)) } else { t.next(-((3600+mi*60+se) as isize)) }; let end = start.next(7200);
      // does a jie instant fall in [start,end)?
      let term = t.get_term(); let mut jie_in=false;
      for tt in [term.clone(), term.next(1), term.next(-1)] { if tt.is_jie() { let jt = tt.get_julian_day().get_solar_time(); if !jt.is_before(start) && jt.is_before(end) { jie_in=true; } } }
      // also ec must hold throughout: check start and end-1
      let ec_s = start.get_lunar_hour().get_eight_char(); let ec_e = end.next(-1).get_lunar_hour().get_eight_char();
      let lo = (y - rnd(3) as isize).max(1); let hi = (y + rnd(3) as isize).min(9999);
      let res = ec.get_solar_times(lo, hi);
      let sound = res.iter().all(|x| x.get_lunar_hour().get_eight_char()==ec);
      let found = res.iter().any(|x| !x.is_before(start) && x.is_before(end));
      (comp, jie_in || ec_s!=ec || ec_e!=ec, sound, found, ec.to_string(), res.len(), lo, hi) }));
    n+=1;
    match r { Err(_) => { panics+=1; if ex.len()<10 { ex.push(format!("PANIC {}", t)); } }
      Ok((comp,skip,sound,found,ecs,len,lo,hi)) => { if !comp { comp_bad+=1; } if !sound { unsound+=1; }
        if skip { skipped+=1; } else if !found { incomplete+=1; if ex.len()<10 { ex.push(format!("incomplete {} ec {} range {}..{} results {}", t, ecs, lo, hi, len)); } } } }
  }
  println!("n {} panics {} comp_bad {} unsound {} incomplete {} skipped {}", n,panics,comp_bad,unsound,incomplete,skipped); for e in ex { println!("  {}", e); }
}
