use tyme4rs::tyme::solar::*; use tyme4rs::tyme::lunar::*; use tyme4rs::tyme::festival::*; use tyme4rs::tyme::holiday::*; use tyme4rs::tyme::culture::*; use tyme4rs::tyme::sixtycycle::*; use tyme4rs::tyme::Tyme; use tyme4rs::tyme::Culture;
use std::panic::{catch_unwind, AssertUnwindSafe};
fn main(){
  std::panic::set_hook(Box::new(|_|{}));
  // holiday table
  let data = LEGAL_HOLIDAY_DATA; println!("holiday data len {} /13 = {} rem {}", data.len(), data.len()/13, data.len()%13);
  let recs: Vec<&str> = (0..data.len()/13).map(|i| &data[i*13..i*13+13]).collect();
  let mut bad=0; let mut prev: Option<(isize,usize,usize)>=None;
  use std::collections::HashMap; let mut tab: HashMap<(isize,usize,usize),(bool,usize,isize)> = HashMap::new();
  for r in &recs { let y:isize=r[0..4].parse().unwrap(); let m:usize=r[4..6].parse().unwrap(); let d:usize=r[6..8].parse().unwrap(); let w=&r[8..9]; let i:usize=r[9..10].parse().unwrap(); let off:isize=r[10..13].parse().unwrap();
    if SolarDay::new(y,m,d).is_err() { bad+=1; println!("bad date {}", r); }
    if let Some(p)=prev { if !(p < (y,m,d)) { bad+=1; println!("order {}", r);} } prev=Some((y,m,d));
    tab.insert((y,m,d),(w=="0",i,off)); }
  for r in &recs { let y:isize=r[0..4].parse().unwrap(); let m:usize=r[4..6].parse().unwrap(); let d:usize=r[6..8].parse().unwrap(); let (work,i,off)=tab[&(y,m,d)];
    let h = LegalHoliday::from_ymd(y,m,d); match h { None => { bad+=1; println!("not found {}", r); }, Some(h) => { if h.is_work()!=work || h.get_name()!=LEGAL_HOLIDAY_NAMES[i] { bad+=1; println!("mismatch {}", r); } } }
    let tgt = SolarDay::from_ymd(y,m,d).next(off); match tab.get(&(tgt.get_year(),tgt.get_month(),tgt.get_day())) { None => { bad+=1; println!("offset target missing {} -> {}", r, tgt); }, Some(&(w2,i2,_)) => { if w2 || i2!=i { bad+=1; println!("offset target not rest/same festival {} -> {} work {} idx {}", r, tgt, w2, i2); } } } }
  println!("records {} bad {}", recs.len(), bad);
  let mut extra=0; for y in 2000..=2030isize { for m in 1..=12usize { for d in 1..=SolarMonth::from_ym(y,m).get_day_count() { let h=LegalHoliday::from_ymd(y,m,d); if h.is_some() != tab.contains_key(&(y,m,d)) { extra+=1; } } } } println!("membership mismatches {}", extra);
  // stepping
  let mut sb=0; for (k,r) in recs.iter().enumerate() { let y:isize=r[0..4].parse().unwrap(); let m:usize=r[4..6].parse().unwrap(); let d:usize=r[6..8].parse().unwrap(); let h=LegalHoliday::from_ymd(y,m,d).unwrap();
    for n in [-3isize,-1,1,2,40,-40,400,-400] { let e = k as isize + n; let got = catch_unwind(AssertUnwindSafe(|| h.next(n).map(|x| x.get_day().to_string())));
      let exp = if e<0 || e>=recs.len() as isize { None } else { let q=recs[e as usize]; Some(SolarDay::from_ymd(q[0..4].parse().unwrap(), q[4..6].parse().unwrap(), q[6..8].parse().unwrap()).to_string()) };
      match got { Err(_) => { sb+=1; if sb<10 { println!("PANIC holiday next {} {}", r, n);} }, Ok(g) => if g!=exp { sb+=1; if sb<10 { println!("holiday next {} n {} got {:?} exp {:?}", r, n, g, exp); } } } } }
  println!("holiday stepping bad {}", sb);
  // solar festival
  let mut fb=0; for y in 1900..=2100isize { for m in 1..=12usize { for d in 1..=SolarMonth::from_ym(y,m).get_day_count() { let f=SolarFestival::from_ymd(y,m,d);
     let exp = [(1,1,1950,0),(3,8,1950,1),(3,12,1979,2),(5,1,1950,3),(5,4,1950,4),(6,1,1950,5),(7,1,1941,6),(8,1,1933,7),(9,10,1985,8),(10,1,1950,9)].iter().find(|e| e.0==m && e.1==d && y>=e.2).map(|e| e.3);
     if f.map(|x| x.get_index()) != exp { fb+=1; } } } } println!("solar festival by date bad {}", fb);
  // lunar festival by index -> own lookup
  let mut lb=0; let mut lp=0; let mut ex=vec![];
  for y in 1..=9998isize { for i in 0..13usize { let r = catch_unwind(AssertUnwindSafe(|| { let f=LunarFestival::from_index(y,i).unwrap(); let d=f.get_day(); let g=d.get_festival(); (f.to_string(), d.to_string(), g.map(|x| (x.get_index(), x.to_string()))) }));
     match r { Err(_) => { lp+=1; if ex.len()<10 { ex.push(format!("PANIC {} {}", y,i)); } }, Ok((fs,ds,g)) => { match g { Some((gi,_)) if gi==i => {}, Some((gi,gs)) if gi<i => { if ex.len()<0 { ex.push(format!("shadowed {} by {}", fs, gs)); } }, other => { lb+=1; if ex.len()<10 { ex.push(format!("{} ({}) lookup {:?}", fs, ds, other)); } } } } } } }
  println!("lunar festival idx->date bad {} panics {}", lb, lp); for e in ex { println!("   {}", e); }
  // C18 quick
  let mut gb=0; for mb in 0..12isize { for dp in 0..60isize { let month = SixtyCycle::from_index((0..60).find(|x| x%12==mb).unwrap()); let day=SixtyCycle::from_index(dp);
     let r = catch_unwind(AssertUnwindSafe(|| { let g=God::get_day_gods(month.clone(), day.clone()); let rc=Taboo::get_day_recommends(month.clone(), day.clone()); let av=Taboo::get_day_avoids(month.clone(), day.clone()); (g.len(), rc.iter().any(|x| av.contains(x)), rc.len(), av.len()) }));
     match r { Err(_) => { gb+=1; println!("PANIC gods {} {}", mb, dp); }, Ok((gl,conf,_,_)) => { if gl==0 || conf { gb+=1; println!("gods {} {}: len {} conflict {}", mb, dp, gl, conf); } } } } }
  for dp in 0..60isize { for hb in 0..12isize { let day=SixtyCycle::from_index(dp); let hour=SixtyCycle::from_index((0..60).find(|x| x%12==hb).unwrap());
     let r = catch_unwind(AssertUnwindSafe(|| { let rc=Taboo::get_hour_recommends(day.clone(), hour.clone()); let av=Taboo::get_hour_avoids(day.clone(), hour.clone()); rc.iter().any(|x| av.contains(x)) }));
     match r { Err(_) => { gb+=1; println!("PANIC hour taboo {} {}", dp, hb); }, Ok(conf) => if conf { gb+=1; println!("hour taboo conflict {} {}", dp, hb); } } } }
  println!("C18 quick bad {}", gb);
}
