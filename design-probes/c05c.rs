use tyme4rs::tyme::solar::*; use tyme4rs::tyme::lunar::*; use tyme4rs::tyme::util::ShouXingUtil as U; use std::f64::consts::PI;
fn main(){
  // terms: cursory day (calc_qi path) vs precise instant day
  let mut bad=0; let mut n=0; let mut near=0;
  for y in 1961..=9999isize { for i in 0..24isize { let t=SolarTerm::from_index(y,i); let c=t.get_cursory_julian_day(); // J2000-based day number (noon)
    let p = t.get_julian_day().get_day() - 2451545.0; // precise local instant relative J2000
    let pd = (p+0.5).floor();
    n+=1; if pd!=c { bad+=1; if bad<10 { println!("term {} {} cursory {} precise {}", y,i,c,p); } }
    let f=(p+0.5)-pd; if f<1200.0/86400.0 || f>1.0-1200.0/86400.0 { near+=1; }
  }}
  println!("terms 1961-9999 n {} bad {} near-midnight(20min) {}", n, bad, near);
  // lunations: first_julian_day vs precise conjunction day
  let mut badl=0; let mut nl=0; let mut first_bad=None; let mut bad_before_8000=0;
  for y in 1961..=9998isize { for m in LunarYear::from_year(y).get_months() { let first=m.get_first_julian_day().get_day()-2451545.0;
    let w = ((first + 14.0 + 2451545.0 - 2451551.0)/29.5306).floor()*2.0*PI;
    let t = U::m_sa_lon_t(w)*36525.0; let local = t - U::dtt(t) + 8.0/24.0; let pd=(local+0.5).floor();
    nl+=1; if pd!=first { badl+=1; if y<=8000 {bad_before_8000+=1;} if first_bad.is_none() { first_bad=Some((y,m.get_month_with_leap(),first,local)); } if badl<6 { println!("lunation {} {} first {} precise {}", y, m.get_month_with_leap(), first, local); } }
  }}
  println!("lunations 1961-9998 n {} bad {} (<=8000: {}) first {:?}", nl, badl, bad_before_8000, first_bad);
}
