#[path="../model.rs"] mod model;
use tyme4rs::tyme::solar::*; use tyme4rs::tyme::lunar::*; use tyme4rs::tyme::Tyme;
use std::panic::{catch_unwind, AssertUnwindSafe};
fn main(){
  std::panic::set_hook(Box::new(|_|{}));
  let days = model::all_days();
  let mut panics: Vec<(i64,i64,i64)> = vec![]; let mut rt_bad: Vec<(i64,i64,i64,String,String)> = vec![];
  let mut succ_bad: Vec<String> = vec![];
  let mut prev: Option<(isize,isize,usize,usize)> = None; // y, m, d, daycount
  for &(y,m,d) in days.iter() {
    let r = catch_unwind(AssertUnwindSafe(|| {
      let sd = SolarDay::from_ymd(y as isize,m as usize,d as usize);
      let ld = sd.get_lunar_day();
      let back = ld.get_solar_day();
      (ld.get_year(), ld.get_month(), ld.get_day(), ld.get_lunar_month().get_day_count(), back.to_string(), sd.to_string(), ld.to_string())
    }));
    match r {
      Err(_) => { panics.push((y,m,d)); prev=None; }
      Ok((ly,lm,ldd,dc,back,sds,lds)) => {
        if back != sds { rt_bad.push((y,m,d,lds.clone(),back)); }
        if let Some((py,pm,pd,pdc)) = prev {
          let ok = if ldd == 1 { pd == pdc && (ly,lm) != (py,pm) } else { (ly,lm)==(py,pm) && ldd == pd+1 };
          if !ok { succ_bad.push(format!("{}-{}-{}: prev {:?} cur {:?}", y,m,d,(py,pm,pd,pdc),(ly,lm,ldd))); }
        }
        prev = Some((ly,lm,ldd,dc));
      }
    }
  }
  println!("panics {} first {:?} last {:?}", panics.len(), panics.first(), panics.last());
  // panic ranges
  let mut ranges: Vec<((i64,i64,i64),(i64,i64,i64),usize)> = vec![];
  {
    use std::collections::HashMap; let idx: HashMap<(i64,i64,i64),usize> = days.iter().cloned().enumerate().map(|(i,d)|(d,i)).collect();
    let mut cur: Option<(usize,usize)> = None;
    for p in &panics { let i = idx[p]; match cur { Some((s,e)) if i==e+1 => cur=Some((s,i)), Some((s,e)) => { ranges.push((days[s],days[e],e-s+1)); cur=Some((i,i)); }, None => cur=Some((i,i)) } }
    if let Some((s,e))=cur { ranges.push((days[s],days[e],e-s+1)); }
    println!("panic ranges: {:?}", ranges);
    let mut rr: Vec<((i64,i64,i64),(i64,i64,i64),usize)> = vec![]; let mut cur: Option<(usize,usize)> = None;
    for p in &rt_bad { let i = idx[&(p.0,p.1,p.2)]; match cur { Some((s,e)) if i==e+1 => cur=Some((s,i)), Some((s,e)) => { rr.push((days[s],days[e],e-s+1)); cur=Some((i,i)); }, None => cur=Some((i,i)) } }
    if let Some((s,e))=cur { rr.push((days[s],days[e],e-s+1)); }
    println!("roundtrip bad {} ranges: {:?}", rt_bad.len(), rr);
  }
  for x in rt_bad.iter().take(5) { println!("  rt {:?}", x); }
  println!("succ bad {}", succ_bad.len()); for x in succ_bad.iter().take(40) { println!("  {}", x); }
}
