use tyme4rs::tyme::solar::*; use tyme4rs::tyme::lunar::*; use tyme4rs::tyme::Tyme; use tyme4rs::tyme::Culture;
use std::panic::{catch_unwind, AssertUnwindSafe};
fn main(){
  std::panic::set_hook(Box::new(|_|{}));
  let mut bad=0u64; let mut n=0u64; let mut panics=0u64; let mut ex: Vec<String>=vec![];
  let mut s: u64 = 777;
  let mut rnd = |m: u64| { s = s.wrapping_mul(6364136223846793005).wrapping_add(1442695040888963407); (s>>33) % m };
  // Solar weeks: exhaustive months in some ranges, all starts, all indices; steps -60..60 sample
  for y in (1..=9999isize).step_by(1) { if !(y<=40 || (1570..=1600).contains(&y) || (1990..=2040).contains(&y) || y>=9980) { continue; }
    for m in 1..=12usize { for start in 0..7usize {
      let r = catch_unwind(AssertUnwindSafe(|| {
        let sm = SolarMonth::from_ym(y,m); let wc = sm.get_week_count(start); let ws = sm.get_weeks(start);
        let mut msgs: Vec<String> = vec![];
        if ws.len()!=wc { msgs.push(format!("count {} vs {}", ws.len(), wc)); }
        let first = SolarDay::from_ymd(y,m,1);
        let last = first.next(sm.get_day_count() as isize - 1);
        for (i,w) in ws.iter().enumerate() {
          let fd = w.get_first_day();
          if fd.get_week().get_index()!=start { msgs.push(format!("week {} first {} weekday {}", i, fd, fd.get_week().get_index())); }
          let ds = w.get_days(); if ds.len()!=7 { msgs.push("len".into()); }
          for k in 0..7 { if ds[k] != fd.next(k as isize) { msgs.push("not consecutive".into()); } }
          if i==0 { if !( !first.is_before(fd) && !first.is_after(fd.next(6))) { msgs.push(format!("week0 {} does not contain first", fd)); } }
          if i==ws.len()-1 { if !( !last.is_before(fd) && !last.is_after(fd.next(6))) { msgs.push(format!("last week {} does not contain last {}", fd, last)); } }
          if i>0 { if fd.subtract(ws[i-1].get_first_day())!=7 { msgs.push("not 7 apart".into()); } }
        }
        msgs
      }));
      n+=1;
      match r { Err(_) => { panics+=1; if ex.len()<20 { ex.push(format!("PANIC month {}-{} start {}", y,m,start)); } }, Ok(ms) => if !ms.is_empty() { bad+=1; if ex.len()<20 { ex.push(format!("{}-{} start {}: {:?}", y,m,start,ms)); } } }
    }}
  }
  println!("solar month-weeks n {} bad {} panics {}", n, bad, panics); for e in &ex { println!("  {}", e); } ex.clear();
  // date -> week contains date; week next
  let (mut n2, mut bad2, mut pan2) = (0u64,0u64,0u64);
  for _ in 0..300000 {
    let y = 2 + rnd(9996) as isize; let m = 1 + rnd(12) as usize; let dc = SolarMonth::from_ym(y,m).get_day_count(); let d = 1 + rnd(dc as u64) as usize; let start = rnd(7) as usize; let step = rnd(121) as isize - 60;
    if y==1582 && m==10 { continue; }
    n2+=1;
    let r = catch_unwind(AssertUnwindSafe(|| {
      let sd = SolarDay::from_ymd(y,m,d); let w = sd.get_solar_week(start); let fd = w.get_first_day(); let mut msgs: Vec<String>=vec![];
      let off = sd.subtract(fd); if !(0..7).contains(&off) { msgs.push(format!("week {} first {} does not contain {}", w, fd, sd)); }
      if fd.get_week().get_index()!=start { msgs.push("start".into()); }
      let w2 = w.next(step); let fd2 = w2.get_first_day();
      if fd2.subtract(fd) != 7*step { msgs.push(format!("next({}) of {} (first {}) -> {} (first {}) diff {}", step, w, fd, w2, fd2, fd2.subtract(fd))); }
      msgs }));
    match r { Err(_) => { pan2+=1; if ex.len()<20 { ex.push(format!("PANIC {}-{}-{} start {} step {}", y,m,d,start,step)); } }, Ok(ms) => if !ms.is_empty() { bad2+=1; if ex.len()<20 { ex.push(format!("{:?}", ms)); } } }
  }
  println!("solar week random n {} bad {} panics {}", n2, bad2, pan2); for e in &ex { println!("  {}", e); } ex.clear();
  // lunar weeks
  let (mut n3, mut bad3, mut pan3) = (0u64,0u64,0u64);
  for _ in 0..100000 {
    let y = 30 + rnd(9960) as isize; let ly = LunarYear::from_year(y); let ms = ly.get_months(); let lm = ms[rnd(ms.len() as u64) as usize];
    let start = rnd(7) as usize; let step = rnd(121) as isize - 60;
    n3+=1;
    let r = catch_unwind(AssertUnwindSafe(|| {
      let wc = lm.get_week_count(start); let ws = lm.get_weeks(start); let mut msgs: Vec<String>=vec![];
      if ws.len()!=wc { msgs.push("count".into()); }
      let first = LunarDay::from_ymd(lm.get_year(), lm.get_month_with_leap(), 1).get_solar_day(); let last = first.next(lm.get_day_count() as isize -1);
      for (i,w) in ws.iter().enumerate() { let fd = w.get_first_day().get_solar_day(); if fd.get_week().get_index()!=start { msgs.push("start".into()); }
        if i>0 && fd.subtract(ws[i-1].get_first_day().get_solar_day())!=7 { msgs.push("7apart".into()); }
        if i==0 && !(0..7).contains(&first.subtract(fd)) { msgs.push("first".into()); }
        if i==ws.len()-1 && !(0..7).contains(&last.subtract(fd)) { msgs.push("last".into()); } }
      let w = &ws[rnd(ws.len() as u64) as usize]; let w2 = w.next(step);
      let diff = w2.get_first_day().get_solar_day().subtract(w.get_first_day().get_solar_day()); if diff != 7*step { msgs.push(format!("lunar week next({}) from {} -> {} diff {}", step, w, w2, diff)); }
      msgs }));
    match r { Err(_) => { pan3+=1; if ex.len()<20 { ex.push(format!("PANIC lunar {} {} start {} step {}", lm.get_year(), lm.get_month_with_leap(), start, step)); } }, Ok(ms) => if !ms.is_empty() { bad3+=1; if ex.len()<20 { ex.push(format!("{:?}", ms)); } } }
  }
  println!("lunar week random n {} bad {} panics {}", n3, bad3, pan3); for e in &ex { println!("  {}", e); }
}
