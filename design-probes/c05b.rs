use tyme4rs::tyme::util::ShouXingUtil as U; use std::f64::consts::PI;
fn main(){
  for (lo,hi) in [(-12000,-8000),(-8000,-4000),(-4000,-2000),(-2000,0),(0,1000),(1000,2000),(2000,3000),(3000,5000),(5000,8000),(8000,10000),(10000,12000)] {
    let mut mr=0f64; let mut ms=0f64; let mut worst=0.0;
    let k0=((lo as f64-2000.0)*12.3685) as i64; let k1=((hi as f64-2000.0)*12.3685) as i64;
    for kk in k0..k1 { let w = kk as f64 * 2.0*PI; let t=U::m_sa_lon_t(w); let r=(U::m_sa_lon(t,-1,60)-w).abs(); if r>mr {mr=r; worst=t;} }
    let q0=((lo as f64-2000.0)*24.0) as i64; let q1=((hi as f64-2000.0)*24.0) as i64;
    for kk in q0..q1 { let w = kk as f64 * PI/12.0; let t=U::sa_lon_t(w); let r=(U::sa_lon(t,-1)-w).abs(); if r>ms {ms=r;} }
    println!("years {}..{}: moon resid {:.4} arcsec (worst t={:.2} cy) ; sun resid {:.4} arcsec", lo,hi, mr*206265.0, worst, ms*206265.0);
  }
  // arbitrary (non-multiple) targets
  let mut mr=0f64; let mut ms=0f64; let mut s: u64=99;
  for _ in 0..200000 { s = s.wrapping_mul(6364136223846793005).wrapping_add(1442695040888963407); let u = (s>>11) as f64 / (1u64<<53) as f64;
    let w = (u-0.5)* 2.0 * 6000.0*12.3685*2.0*PI; let t=U::m_sa_lon_t(w); let r=(U::m_sa_lon(t,-1,60)-w).abs(); if r>mr {mr=r;}
    let w2 = (u-0.5)*2.0*10000.0*2.0*PI; let t2=U::sa_lon_t(w2); let r2=(U::sa_lon(t2,-1)-w2).abs(); if r2>ms {ms=r2;} }
  println!("random targets: moon(+-6000y) {:.4} arcsec sun(+-10000y) {:.4} arcsec", mr*206265.0, ms*206265.0);
}
