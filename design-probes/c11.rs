use tyme4rs::tyme::solar::*; use tyme4rs::tyme::lunar::*; use tyme4rs::tyme::sixtycycle::*; use tyme4rs::tyme::Tyme; use tyme4rs::tyme::Culture;
use std::panic::{catch_unwind, AssertUnwindSafe};
fn chk<T: Tyme + std::fmt::Display>(name: &str, x: &T, a: isize, b: isize, stats: &mut (u64,u64,u64,Vec<String>)) {
  stats.0+=1;
  let r = catch_unwind(AssertUnwindSafe(|| {
    let xa = x.next(a); let xab = xa.next(b); let direct = x.next(a+b); let back = xa.next(-a); let zero = x.next(0);
    let mut msgs = vec![];
    if xab.to_string()!=direct.to_string() { msgs.push(format!("{} {}: next({}).next({})={} but next({})={}", name, x, a, b, xab, a+b, direct)); }
    if back.to_string()!=x.to_string() { msgs.push(format!("{} {}: next({}).next({})={}", name, x, a, -a, back)); }
    if zero.to_string()!=x.to_string() { msgs.push(format!("{} {}: next(0)={}", name, x, zero)); }
    msgs }));
  match r { Err(_) => { stats.1+=1; if stats.3.len()<12 { stats.3.push(format!("PANIC {} {} a={} b={}", name, x, a, b)); } }
            Ok(m) => if !m.is_empty() { stats.2+=1; if stats.3.len()<12 { stats.3.extend(m); } } }
}
fn yy(r: u64) -> isize { let y = 300 + r as isize; if y==1582 {1583} else {y} }
fn main(){
  std::panic::set_hook(Box::new(|_|{}));
  let mut s: u64 = 4242;
  let mut rnd = |m: u64| { s = s.wrapping_mul(6364136223846793005).wrapping_add(1442695040888963407); (s>>33) % m };
  macro_rules! run { ($name:expr, $n:expr, $gen:expr, $range:expr) => {{ let mut st=(0u64,0u64,0u64,Vec::<String>::new()); for _ in 0..$n { let x = $gen; let a = rnd(2*$range+1) as isize - $range as isize; let b = rnd(2*$range+1) as isize - $range as isize; chk($name, &x, a, b, &mut st); } println!("{}: n {} panics {} bad {}", $name, st.0, st.1, st.2); for e in st.3.iter().take(8) { println!("    {}", e); } }} }
  run!("SolarHalfYear", 20000, SolarHalfYear::from_index(yy(rnd(9000)), rnd(2) as usize), 200u64);
  run!("SolarSeason", 20000, SolarSeason::from_index(yy(rnd(9000)), rnd(4) as usize), 400u64);
  run!("SolarMonth", 20000, SolarMonth::from_ym(yy(rnd(9000)), 1+rnd(12) as usize), 1200u64);
  run!("SolarDay", 20000, SolarDay::from_ymd(yy(rnd(9000)), 1+rnd(12) as usize, 1+rnd(28) as usize), 40000u64);
  run!("SolarTime", 20000, SolarTime::from_ymd_hms(yy(rnd(9000)), 1+rnd(12) as usize, 1+rnd(28) as usize, rnd(24) as usize, rnd(60) as usize, rnd(60) as usize), 1000000000u64);
  run!("SolarTerm", 5000, SolarTerm::from_index(yy(rnd(9000)), rnd(24) as isize), 2400u64);
  run!("SolarWeek", 5000, SolarDay::from_ymd(yy(rnd(9000)), 1+rnd(12) as usize, 1+rnd(28) as usize).get_solar_week(rnd(7) as usize), 300u64);
  run!("LunarYear", 20000, LunarYear::from_year(yy(rnd(9000))), 200u64);
  run!("LunarMonth", 20000, {let y=LunarYear::from_year(yy(rnd(9000))); let ms=y.get_months(); ms[rnd(ms.len() as u64) as usize]}, 1200u64);
  run!("LunarDay", 10000, SolarDay::from_ymd(yy(rnd(9000)), 1+rnd(12) as usize, 1+rnd(28) as usize).get_lunar_day(), 40000u64);
  run!("LunarHour", 10000, SolarTime::from_ymd_hms(yy(rnd(9000)), 1+rnd(12) as usize, 1+rnd(28) as usize, rnd(24) as usize, rnd(60) as usize, rnd(60) as usize).get_lunar_hour(), 100000u64);
  run!("LunarWeek", 3000, {let y=LunarYear::from_year(yy(rnd(9000))); let ms=y.get_months(); let m=ms[rnd(ms.len() as u64) as usize]; let st=rnd(7) as usize; let ws=m.get_weeks(st); ws[rnd(ws.len() as u64) as usize].clone()}, 300u64);
  run!("SixtyCycleYear", 20000, SixtyCycleYear::from_year(yy(rnd(9000))), 200u64);
  run!("SixtyCycleMonth", 20000, SixtyCycleMonth::from_index(yy(rnd(9000)), rnd(12) as isize), 1200u64);
  run!("SixtyCycleDay", 3000, SolarDay::from_ymd(1600 + rnd(5000) as isize, 1+rnd(12) as usize, 1+rnd(28) as usize).get_sixty_cycle_day(), 40000u64);
  run!("SixtyCycleHour", 2000, SolarTime::from_ymd_hms(1600 + rnd(5000) as isize, 1+rnd(12) as usize, 1+rnd(28) as usize, rnd(24) as usize, rnd(60) as usize, rnd(60) as usize).get_sixty_cycle_hour(), 100000000u64);
  // low-year edge
  run!("SixtyCycleMonth-low", 2000, SixtyCycleMonth::from_index(rnd(3) as isize, rnd(12) as isize), 20u64);
  run!("SolarTerm-low", 2000, SolarTerm::from_index(1 + rnd(2) as isize, rnd(24) as isize), 60u64);
  println!("SCM from_index(-1,5) year {}", SixtyCycleMonth::from_index(-1,5).get_sixty_cycle_year().get_year());
  println!("SCM from_index(0,0).next(-1) {} year {}", SixtyCycleMonth::from_index(0,0).next(-1), SixtyCycleMonth::from_index(0,0).next(-1).get_sixty_cycle_year().get_year());
}
