use std::time::Instant;
use tyme4rs::tyme::solar::*;
use tyme4rs::tyme::lunar::*;
use tyme4rs::tyme::Tyme;
fn main(){
  let t=Instant::now();
  let mut n=0u64; let mut acc=0f64;
  for y in 1..=9999isize { for m in 1..=12usize { let dc=SolarMonth::from_ym(y,m).get_day_count(); let _=dc; for d in 1..=31usize { if let Ok(sd)=std::panic::catch_unwind(||SolarDay::new(y,m,d)) { if let Ok(sd)=sd { acc+=sd.get_julian_day().get_day(); n+=1; } } } } }
  println!("dates {} acc {} in {:?}", n, acc, t.elapsed());
  let t=Instant::now();
  let mut k=0;
  for y in 1900..1910isize { for m in 1..=12usize { for d in 1..=28usize { let l=SolarDay::from_ymd(y,m,d).get_lunar_day(); k+=l.get_day(); } } }
  println!("3360 lunar conv {} in {:?}", k, t.elapsed());
  let t=Instant::now();
  let mut k=0.0;
  for y in 1900..2000isize { for i in 0..24 { k+=SolarTerm::from_index(y,i).get_julian_day().get_day(); } }
  println!("2400 terms {} in {:?}", k, t.elapsed());
  let t=Instant::now();
  let mut k=0;
  for y in 1900..1910isize { for m in 1..=12usize { for d in 1..=28usize { let l=SolarDay::from_ymd(y,m,d).get_sixty_cycle_day(); k+=l.get_sixty_cycle().get_index(); } } }
  println!("3360 sixtycycleday {} in {:?}", k, t.elapsed());
  let t=Instant::now();
  let mut k=0;
  for y in 0..200isize { k+=LunarYear::from_year(y).get_months().len(); }
  println!("200 lunar years months {} in {:?}", k, t.elapsed());
}
