use tyme4rs::tyme::solar::*; use tyme4rs::tyme::lunar::*; use tyme4rs::tyme::eightchar::*; use tyme4rs::tyme::eightchar::provider::*; use tyme4rs::tyme::enums::Gender; use tyme4rs::tyme::Tyme; use tyme4rs::tyme::Culture;
use std::panic::{catch_unwind, AssertUnwindSafe};
fn mlen(y:isize,m:usize)->usize{ SolarMonth::from_ym(y,m).get_day_count() }
fn main(){
  std::panic::set_hook(Box::new(|i|{ static C: std::sync::atomic::AtomicUsize = std::sync::atomic::AtomicUsize::new(0); if C.fetch_add(1, std::sync::atomic::Ordering::SeqCst) < 3 { println!("  panic: {}", i); } }));
  let mut s: u64 = 2024;
  let mut rnd = |m: u64| { s = s.wrapping_mul(6364136223846793005).wrapping_add(1442695040888963407); (s>>33) % m };
  let (mut n, mut bad, mut panics) = (0u64,0u64,0u64); let mut ex: Vec<String>=vec![]; let mut maxspan=0isize; let mut minspan=isize::MAX;
  for it in 0..20000 {
    let y = if it%5==0 { 1583 + rnd(13) as isize } else { 30 + rnd(9800) as isize }; if (1560..1583).contains(&y) { continue; } let mo=1+rnd(12) as usize; let d=1+rnd(mlen(y,mo) as u64) as usize; if y==1582&&mo==10&&d>4&&d<15 {continue;}
    let (h,mi,se)=(rnd(24) as usize,rnd(60) as usize,rnd(60) as usize); let g = if rnd(2)==0 {Gender::MAN} else {Gender::WOMAN};
    let birth=SolarTime::from_ymd_hms(y,mo,d,h,mi,se);
    n+=1;
    let r = catch_unwind(AssertUnwindSafe(|| {
      let cl = ChildLimit::from_solar_time(birth, g); let mut msgs: Vec<String>=vec![];
      let ec = cl.get_eight_char(); let yang = ec.get_year().get_heaven_stem().get_index()%2==0; let man = g==Gender::MAN; let fwd = yang==man;
      if cl.is_forward()!=fwd { msgs.push("direction".into()); }
      // governing jie: search terms around birth
      let t0 = birth.get_term(); let mut cands: Vec<SolarTime>=vec![]; for k in -3..=3 { let t=t0.next(k); if t.is_jie() { cands.push(t.get_julian_day().get_solar_time()); } }
      let jie = if fwd { cands.iter().filter(|t| t.is_after(birth)).min_by_key(|t| t.subtract(birth)).cloned() } else { cands.iter().filter(|t| !t.is_after(birth)).max_by_key(|t| t.subtract(birth)).cloned() };
      let jie = jie.unwrap(); let secs = jie.subtract(birth).abs() as usize;
      let (yy, r1) = (secs/259200, secs%259200); let (mm, r2)=(r1/21600, r1%21600); let (dd,r3)=(r2/720, r2%720); let (hh,r4)=(r3/30,r3%30); let mins=r4*2;
      if (cl.get_year_count(),cl.get_month_count(),cl.get_day_count(),cl.get_hour_count(),cl.get_minute_count())!=(yy,mm,dd,hh,mins) { msgs.push(format!("counts got {:?} exp {:?} secs {}", (cl.get_year_count(),cl.get_month_count(),cl.get_day_count(),cl.get_hour_count(),cl.get_minute_count()), (yy,mm,dd,hh,mins), secs)); }
      // end time oracle: label arithmetic
      let mut minute = mi+mins; let mut hour = h+hh + minute/60; minute%=60; let mut day = d+dd+hour/24; hour%=24;
      let tot = (y*12 + mo as isize -1) + (yy*12+mm) as isize; let mut ey=tot/12; let mut em=(tot%12) as usize+1;
      let mut through1582=false;
      loop { let ml = if ey==1582&&em==10 { through1582=true; 31 } else { mlen(ey,em) }; if day>ml { day-=ml; em+=1; if em>12 {em=1; ey+=1;} } else { break; } }
      if ey==1582&&em==10 { through1582=true; }
      let end = cl.get_end_time();
      let got=(end.get_year(),end.get_month(),end.get_day(),end.get_hour(),end.get_minute(),end.get_second());
      if !through1582 && got!=(ey,em,day,hour,minute,se) { msgs.push(format!("end got {:?} exp {:?}", got, (ey,em,day,hour,minute,se))); }
      let span = end.subtract(birth); if span<0 { msgs.push("end before birth".into()); }
      // fortunes
      let df0 = cl.get_start_decade_fortune(); let mp=ec.get_month().get_index() as isize; 
      for k in 0..8isize { let df=df0.next(k); let e=(mp + if fwd {k+1} else {-(k+1)}).rem_euclid(60) as usize; if df.get_sixty_cycle().get_index()!=e { msgs.push(format!("decade {} pillar", k)); } if df.get_start_age()-df0.get_start_age()!=10*k { msgs.push("decade age".into()); } if df.get_end_age()!=df.get_start_age()+9 { msgs.push("decade end age".into()); }
         if df.get_start_sixty_cycle_year().get_year()!= end.get_year()+10*k { msgs.push("decade start year".into()); } }
      let f0=cl.get_start_fortune(); let hp=ec.get_hour().get_index() as isize;
      for k in 0..12isize { let f=f0.next(k); let age=f.get_age(); if age!= end.get_year()-birth.get_year()+1+k { msgs.push("fortune age".into()); } let e=(hp + if fwd {age} else {-age}).rem_euclid(60) as usize; if f.get_sixty_cycle().get_index()!=e { msgs.push("fortune pillar".into()); } if f.get_sixty_cycle_year().get_year()!=end.get_year()+k { msgs.push("fortune year".into()); } }
      (msgs, span, through1582) }));
    match r { Err(_) => { panics+=1; if ex.len()<12 { ex.push(format!("PANIC birth {} {:?}", birth, g.get_name())); } }
      Ok((m,span,_)) => { if span>maxspan {maxspan=span;} if span<minspan {minspan=span;} if !m.is_empty() { bad+=1; if ex.len()<12 { ex.push(format!("{} {}: {:?}", birth, g.get_name(), m)); } } } }
  }
  println!("n {} bad {} panics {} span min {} s max {:.2} y", n,bad,panics,minspan,maxspan as f64/86400.0/365.2425); for e in ex { println!("  {}", e); }
}
