use tyme4rs::tyme::solar::*; use tyme4rs::tyme::lunar::*; use tyme4rs::tyme::util::ShouXingUtil as U; use tyme4rs::tyme::Tyme;
use std::f64::consts::PI;
fn rad(d:f64)->f64{d*PI/180.0}
fn norm360(x:f64)->f64{ x.rem_euclid(360.0) }
// Meeus ch.25 low accuracy apparent solar longitude, degrees; input JDE (TT)
fn sun_lon(jde:f64)->f64{
  let t=(jde-2451545.0)/36525.0;
  let l0=280.46646+36000.76983*t+0.0003032*t*t;
  let m=357.52911+35999.05029*t-0.0001537*t*t;
  let c=(1.914602-0.004817*t-0.000014*t*t)*rad(m).sin()+(0.019993-0.000101*t)*rad(2.0*m).sin()+0.000289*rad(3.0*m).sin();
  let om=125.04-1934.136*t;
  norm360(l0+c-0.00569-0.00478*rad(om).sin())
}
// delta T (Espenak-Meeus polynomial) seconds
fn delta_t(y:f64)->f64{
  if y>=2005.0 && y<2050.0 { let t=y-2000.0; 62.92+0.32217*t+0.005589*t*t }
  else if y>=1986.0 && y<2005.0 { let t=y-2000.0; 63.86+0.3345*t-0.060374*t*t+0.0017275*t.powi(3)+0.000651814*t.powi(4)+0.00002373599*t.powi(5) }
  else if y>=1961.0 && y<1986.0 { let t=y-1975.0; 45.45+1.067*t-t*t/260.0-t.powi(3)/718.0 }
  else if y>=1941.0 && y<1961.0 { let t=y-1950.0; 29.07+0.407*t-t*t/233.0+t.powi(3)/2547.0 }
  else if y>=1920.0 && y<1941.0 { let t=y-1920.0; 21.20+0.84493*t-0.076100*t*t+0.0020936*t.powi(3) }
  else if y>=1900.0 && y<1920.0 { let t=y-1900.0; -2.79+1.494119*t-0.0598939*t*t+0.0061966*t.powi(3)-0.000197*t.powi(4) }
  else if y>=2050.0 && y<2150.0 { -20.0+32.0*((y-1820.0)/100.0).powi(2)-0.5628*(2150.0-y) }
  else { let u=(y-1820.0)/100.0; -20.0+32.0*u*u }
}
// Meeus ch.49 new moon JDE for lunation k (integer)
fn new_moon(k:f64)->f64{
  let t=k/1236.85; let t2=t*t; let t3=t2*t; let t4=t3*t;
  let mut jde=2451550.09766+29.530588861*k+0.00015437*t2-0.000000150*t3+0.00000000073*t4;
  let e=1.0-0.002516*t-0.0000074*t2;
  let m=rad(2.5534+29.10535670*k-0.0000014*t2-0.00000011*t3);
  let mp=rad(201.5643+385.81693528*k+0.0107582*t2+0.00001238*t3-0.000000058*t4);
  let f=rad(160.7108+390.67050284*k-0.0016118*t2-0.00000227*t3+0.000000011*t4);
  let om=rad(124.7746-1.56375588*k+0.0020672*t2+0.00000215*t3);
  jde += -0.40720*mp.sin()+0.17241*e*m.sin()+0.01608*(2.0*mp).sin()+0.01039*(2.0*f).sin()+0.00739*e*(mp-m).sin()-0.00514*e*(mp+m).sin()+0.00208*e*e*(2.0*m).sin()
    -0.00111*(mp-2.0*f).sin()-0.00057*(mp+2.0*f).sin()+0.00056*e*(2.0*mp+m).sin()-0.00042*(3.0*mp).sin()+0.00042*e*(m+2.0*f).sin()+0.00038*e*(m-2.0*f).sin()
    -0.00024*e*(2.0*mp-m).sin()-0.00017*om.sin()-0.00007*(mp+2.0*m).sin()+0.00004*(2.0*mp-2.0*f).sin()+0.00004*(3.0*m).sin()+0.00003*(mp+m-2.0*f).sin()
    +0.00003*(2.0*mp+2.0*f).sin()-0.00003*(mp+m+2.0*f).sin()+0.00003*(mp-m+2.0*f).sin()-0.00002*(mp-m-2.0*f).sin()-0.00002*(3.0*mp+m).sin()+0.00002*(4.0*mp).sin();
  // planetary arguments
  let a=[299.77+0.107408*k-0.009173*t2,251.88+0.016321*k,251.83+26.651886*k,349.42+36.412478*k,84.66+18.206239*k,141.74+53.303771*k,207.14+2.453732*k,154.84+7.306860*k,34.52+27.261239*k,207.19+0.121824*k,291.34+1.844379*k,161.72+24.198154*k,239.56+25.513099*k,331.55+3.592518*k];
  let c=[0.000325,0.000165,0.000164,0.000126,0.000110,0.000062,0.000060,0.000056,0.000047,0.000042,0.000040,0.000037,0.000035,0.000023];
  for i in 0..14 { jde += c[i]*rad(a[i]).sin(); }
  jde
}
fn main(){
  // terms 1900..2150: lib instant (UTC+8 civil JD) -> TT JDE; compute sun_lon; compare to target
  let mut maxerr=0f64; let mut sum=0f64; let mut n=0;
  for y in 1900..=2150isize { for i in 0..24isize {
    let t=SolarTerm::from_index(y,i); let jd_local=t.get_julian_day().get_day(); // UTC+8
    let yy = 2000.0 + (jd_local-2451545.0)/365.2425;
    let jde = jd_local - 8.0/24.0 + delta_t(yy)/86400.0;
    let target = norm360(270.0+15.0*i as f64);
    let mut diff = sun_lon(jde)-target; if diff>180.0 {diff-=360.0;} if diff< -180.0 {diff+=360.0;}
    let secs = diff/ (360.0/365.2422) *86400.0; // time equivalent
    if secs.abs()>maxerr {maxerr=secs.abs();} sum+=secs; n+=1;
  }}
  println!("terms 1900-2150: n {} max |err| {:.1}s mean {:.1}s", n, maxerr, sum/n as f64);
  // lib dt vs my delta_t
  let mut md=0f64; for y in 1900..=2150 { let a=U::dt_calc(y as f64); let b=delta_t(y as f64); if (a-b).abs()>md {md=(a-b).abs();} } println!("max |dT lib - mine| 1900..2150 = {:.1}s", md);
  // new moons: lunar month firsts 1900..2150: precise conjunction via lib m_sa_lon_t; compare with Meeus
  let mut maxe=0f64; let mut cnt=0; let mut daydiff=0;
  for y in 1900..=2150isize { for m in LunarYear::from_year(y).get_months() {
    let first = m.get_first_julian_day().get_day(); // noon JD of first day (UTC+8 date)
    // lunation number k approx
    let k = ((first - 2451550.09766)/29.530588861).round();
    let mut best=f64::MAX; let mut bestj=0.0;
    for dk in [-1.0,0.0,1.0] { let j=new_moon(k+dk); if (j-first).abs()<best { best=(j-first).abs(); bestj=j; } }
    let yy=2000.0+(bestj-2451545.0)/365.2425;
    let local = bestj - delta_t(yy)/86400.0 + 8.0/24.0; // UTC+8 JD
    let civil = (local+0.5).floor(); // JDN of civil day
    if civil != first.round() { daydiff+=1; if daydiff<10 { println!("  day differs: lunar {} first {} meeus local {}", m, first, local); } }
    // lib precise conjunction: w = 2pi * n where n = floor((jd+pc-2451551)/29.5306)
    let w = ((first - 2451545.0 + 14.0 + 2451545.0 - 2451551.0)/29.5306).floor()*2.0*PI;
    let tt = U::m_sa_lon_t(w)*36525.0; // days from J2000 TT
    let lib_jde = tt + 2451545.0;
    let e=(lib_jde-bestj).abs()*86400.0; if e>maxe {maxe=e;} cnt+=1;
  }}
  println!("new moons 1900-2150: n {} max |lib precise - meeus| {:.1}s ; civil-day differs {}", cnt, maxe, daydiff);
  // inverse solver residuals
  let mut mr=0f64; let mut mr2=0f64;
  for kk in -240000..240000i64 { if kk%37!=0 {continue;} let w = kk as f64 * PI/12.0; let t=U::sa_lon_t(w); let r=(U::sa_lon(t,-1)-w).abs(); if r>mr {mr=r;} }
  for kk in -123000..123000i64 { if kk%19!=0 {continue;} let w = kk as f64 * 2.0*PI; let t=U::m_sa_lon_t(w); let r=(U::m_sa_lon(t,-1,60)-w).abs(); if r>mr2 {mr2=r;} }
  println!("inverse residual sun max {:.3e} rad = {:.4} arcsec ; moon {:.3e} rad = {:.4} arcsec", mr, mr*206265.0, mr2, mr2*206265.0);
  // dT continuity
  let mut maxjump=0f64; let mut at=0.0; let step=0.01; let mut y=-4000.0; let mut prev=U::dt_calc(y);
  while y<10000.0 { y+=step; let v=U::dt_calc(y); let j=(v-prev).abs(); if j>maxjump {maxjump=j; at=y;} prev=v; }
  println!("dT max step over 0.01y: {:.3}s at {:.2}", maxjump, at);
}
