#[path="../model.rs"] mod model;
use tyme4rs::tyme::solar::*; use tyme4rs::tyme::lunar::*; use tyme4rs::tyme::sixtycycle::*; use tyme4rs::tyme::Tyme; use tyme4rs::tyme::Culture;
use std::panic::{catch_unwind, AssertUnwindSafe};
fn main(){
  std::panic::set_hook(Box::new(|_|{}));
  let args: Vec<String> = std::env::args().collect();
  let y0: i64 = args[1].parse().unwrap(); let y1: i64 = args[2].parse().unwrap();
  let days = model::all_days();
  let mut terms: Vec<(isize,usize,i64)> = vec![];
  for y in (y0-1).max(1)..=(y1+1).min(10000) { for i in 0..24isize { let t=SolarTerm::from_index(y as isize,i); terms.push((y as isize,i as usize,(t.get_julian_day().get_day()+0.5).floor() as i64)); } }
  let find = |yy:isize, ii:usize| terms.iter().find(|t| t.0==yy && t.1==ii).map(|t| t.2).unwrap();
  let mut k=0usize; let mut n=0u64; let names=["duty","twelve","28","28lum","six","nineday","ninehour","hour12","phase","panic","ninemonth","28adv"]; let mut bad=[0u64;12]; let mut ex: Vec<String>=vec![];
  let mut prev28: Option<usize>=None;
  for (i,&(y,m,d)) in days.iter().enumerate() {
    if y<y0 || y>y1 { prev28=None; continue; }
    let jdn = model::JDN0 + i as i64;
    while k+1<terms.len() && terms[k+1].2 <= jdn { k+=1; }
    if terms[k].2 > jdn { continue; }
    n+=1;
    let pillar = ((jdn+49)%60) as usize; let db = pillar%12; let wk = ((jdn+1)%7) as usize;
    // jie month branch
    let mut jj=k; while terms[jj].1%2==0 { jj-=1; } let mb = (((terms[jj].1 as isize -3).rem_euclid(24))/2 + 2) as usize % 12;
    let sd = SolarDay::from_ymd(y as isize,m as usize,d as usize);
    let r = catch_unwind(AssertUnwindSafe(|| { let scd = sd.get_sixty_cycle_day(); let ld = sd.get_lunar_day();
      let hs: Vec<(usize,usize,usize,usize)> = ld.get_hours().iter().map(|h| (h.get_hour(), h.get_nine_star().get_index(), h.get_twelve_star().get_index(), h.get_sixty_cycle_hour().get_nine_star().get_index())).collect();
      (scd.get_duty().get_index(), scd.get_twelve_star().get_index(), scd.get_twenty_eight_star().get_index(), scd.get_twenty_eight_star().get_seven_star().get_index(), ld.get_twenty_eight_star().get_index(),
       ld.get_six_star().get_index(), ld.get_month(), ld.get_day(), scd.get_nine_star().get_index(), ld.get_nine_star().get_index(), hs, ld.get_phase().get_index(), scd.get_sixty_cycle_month().get_nine_star().get_index(), scd.get_year().get_index()) }));
    let (duty,tw,s28,lum,ls28,six,lm,ldd,nine,lnine,hs,phase,ninem,yidx) = match r { Ok(v)=>v, Err(_)=>{ bad[9]+=1; continue; } };
    macro_rules! ck { ($i:expr, $c:expr, $($a:tt)*) => { if !($c) { bad[$i]+=1; if ex.len()<25 { ex.push(format!("{} {:?}: {}", names[$i], (y,m,d), format!($($a)*))); } } } }
    ck!(0, duty == (db+12-mb)%12, "got {} exp {}", duty, (db+12-mb)%12);
    let start = [8usize,10,0,2,4,6][mb%6]; // month branch -> qinglong start branch: zi/wu->shen(8), chou/wei->xu(10), yin/shen->zi(0), mao/you->yin(2), chen/xu->chen(4), si/hai->wu(6)
    ck!(1, tw == (db+12-start)%12, "got {} exp {}", tw, (db+12-start)%12);
    // seven star names: ["日","月","火","水","木","金","土"] weekday: 0 sun,1 mon,2 tue(火),3 wed(水),4 thu(木),5 fri(金),6 sat(土)
    ck!(3, lum == wk, "luminary {} weekday {}", lum, wk);
    ck!(2, s28==ls28, "routes differ");
    if let Some(p)=prev28 { ck!(11, s28==(p+1)%28, "prev {} cur {}", p, s28); } prev28=Some(s28);
    ck!(4, six == ((lm.abs() as usize + ldd - 2) % 6), "lunar {}-{} got {} exp {}", lm, ldd, six, (lm.abs() as usize + ldd -2)%6);
    ck!(8, phase == ldd-1, "phase");
    // nine star day: nearest jiazi to dongzhi(prev Dec)=(y,0), xiazhi (y,12), dongzhi2 (y+1,0)
    let near = |t:i64| { let idx=(t+49)%60; if idx==30 { (t-30, t+30) } else if idx>29 { (t+60-idx,t+60-idx) } else { (t-idx,t-idx) } };
    let dz=find(y as isize,0); let xz=find(y as isize,12); let dz2=find((y+1) as isize,0);
    let (a1,a2)=near(dz); let (b1,b2)=near(xz); let (c1,c2)=near(dz2);
    let mut ok=false; let mut exps=vec![];
    for &a in &[a1,a2] { for &b in &[b1,b2] { for &c in &[c1,c2] {
      let e = if jdn>=c { (jdn-c).rem_euclid(9) } else if jdn>=b { (8-(jdn-b)).rem_euclid(9) } else if jdn>=a { (jdn-a).rem_euclid(9) } else { (8+(a-jdn)).rem_euclid(9) };
      exps.push(e); if e as usize==nine { ok=true; } }}}
    ck!(5, ok && nine==lnine, "got {} lnine {} exp {:?}", nine, lnine, exps);
    // hours
    let asc = (jdn>=dz && jdn<xz) || jdn>=dz2;
    for &(hh, hn, h12, schn) in &hs { let hb = ((hh+1)/2)%12;
      // hour pillar day branch: at 23h next day
      let dbh = if hh==23 { (db+1)%12 } else { db };
      let st = [0usize,3,6][db%3]; // asc start: zi-mao-wu-you ->1white(0); chou.. -> 4green(3); yin.. ->7red(6)
      let e = if asc { (st+hb)%9 } else { ((8-st) as isize - hb as isize).rem_euclid(9) as usize };
      ck!(6, hh==23 || (hn==e && schn==e), "hour {} got {} sch {} exp {} asc {}", hh, hn, schn, e, asc);
      let hstart = [8usize,10,0,2,4,6][dbh%6];
      ck!(7, h12 == (hb+12-hstart)%12, "hour {} got {} exp {}", hh, h12, (hb+12-hstart)%12);
    }
    // month nine star: year branch group
    let yb = yidx%12; let first = match yb%3 { 0=>7usize, 1=>4, _=>1 }; // zi/mao/wu/you years: yin month 8white(7); chou/chen/wei/xu: 5yellow(4); yin/si/shen/hai: 2black(1)
    let mo = (mb+12-2)%12; let e = (first as isize - mo as isize).rem_euclid(9) as usize;
    ck!(10, ninem==e, "month nine got {} exp {} (yb {} mb {})", ninem, e, yb, mb);
  }
  print!("{}..{} n {} ", y0,y1,n); for i in 0..12 { print!("{}={} ", names[i], bad[i]); } println!();
  for e in ex { println!("   {}", e); }
}
