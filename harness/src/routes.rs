//! Route equivalence: the objects that denote one civil day (or one double-hour) must answer every query the same way
//! whichever way they were obtained - constructed from the civil date, constructed from the lunar labels, reached by
//! stepping (after the neighbour's memoised views were read), taken from the list of their month / day, converted from a
//! Julian date, handed out by an hour object, or cloned. Each property compares the fields it owns (`fields_*`) across all
//! routes against the constructed route, which its main sub-checks judge against the independent oracle.

use crate::adapt::*;
use crate::engine::*;
use crate::model::*;
use tyme4rs::tyme::jd::JulianDay;
use tyme4rs::tyme::lunar::{LunarDay, LunarHour};
use tyme4rs::tyme::sixtycycle::{SixtyCycleDay, SixtyCycleHour};
use tyme4rs::tyme::solar::{SolarDay, SolarTime};
use tyme4rs::tyme::Tyme;

pub struct DayObjs {
  pub route: &'static str,
  pub solar: Option<SolarDay>,
  pub lunar: Option<LunarDay>,
  pub scd: Option<SixtyCycleDay>,
  /// the sexagenary-day object follows the instant-level convention (taken from an hour object): only its day pillar and
  /// civil date are comparable with a day-level object
  pub scd_instant_level: bool,
}

fn g<T>(f: impl FnOnce() -> T) -> Option<T> {
  guard(f).ok()
}

fn touch_lunar(l: &LunarDay) {
  let _ = g(|| (l.get_solar_day(), l.get_sixty_cycle_day(), l.get_sixty_cycle(), l.get_week(), l.get_duty(), l.get_twelve_star(), l.get_twenty_eight_star(), l.get_six_star()));
  let _ = g(|| l.get_nine_star());
  let _ = g(|| (l.get_gods().len(), l.get_recommends().len(), l.get_avoids().len(), l.get_festival().map(|x| x.to_string())));
}

fn touch_scd(s: &SixtyCycleDay) {
  let _ = g(|| (s.get_duty(), s.get_twelve_star(), s.get_twenty_eight_star(), s.get_sixty_cycle_month().get_first_day(), s.get_gods().len(), s.get_recommends().len()));
  let _ = g(|| s.get_nine_star());
}

/// the objects of civil date index `i` by every route (a route that cannot be taken - domain edge - is left out)
pub fn day_routes(i: usize) -> Vec<DayObjs> {
  let c = cal();
  let (y, m, d) = c.ymd(i);
  let mut v = vec![];
  let s0 = match g(|| SolarDay::from_ymd(y as isize, m as usize, d as usize)) {
    Some(s) => s,
    None => return v,
  };
  let l0 = g(|| s0.get_lunar_day());
  v.push(DayObjs { route: "constructed from the civil date", solar: Some(s0), lunar: l0.clone(), scd: g(|| s0.get_sixty_cycle_day()), scd_instant_level: false });
  if let Some(l) = &l0 {
    let (ly, lm, ld) = lymd(l);
    if let Some(l1) = g(|| LunarDay::from_ymd(ly as isize, lm as isize, ld as usize)) {
      v.push(DayObjs { route: "constructed from the lunar labels", solar: g(|| l1.get_solar_day()), scd: g(|| l1.get_sixty_cycle_day()), lunar: Some(l1), scd_instant_level: false });
    }
    // listed by its lunar month
    if let Some(it) = g(|| l.get_lunar_month().get_days().get((ld - 1) as usize).cloned()).flatten() {
      v.push(DayObjs { route: "listed by its lunar month", solar: g(|| it.get_solar_day()), scd: g(|| it.get_sixty_cycle_day()), lunar: Some(it), scd_instant_level: false });
    }
    // a clone taken after the views were read
    let lc = l.clone();
    touch_lunar(&lc);
    let lc2 = lc.clone();
    v.push(DayObjs { route: "cloned after its views were read", solar: g(|| lc2.get_solar_day()), scd: g(|| lc2.get_sixty_cycle_day()), lunar: Some(lc2), scd_instant_level: false });
  }
  // stepped from the neighbours, after the neighbours' views were read
  for (from, n, name) in [(i as i64 - 1, 1isize, "stepped +1 from the day before (views read first)"), (i as i64 + 1, -1isize, "stepped -1 from the day after (views read first)"), (i as i64 - 40, 40isize, "stepped +40 (views read first)")] {
    if from < 0 || from >= NDAYS as i64 {
      continue;
    }
    let (fy, fm, fd) = c.ymd(from as usize);
    if let Some(sf) = g(|| SolarDay::from_ymd(fy as isize, fm as usize, fd as usize)) {
      let lf = g(|| sf.get_lunar_day());
      let cf = g(|| sf.get_sixty_cycle_day());
      if let Some(x) = &lf {
        touch_lunar(x);
      }
      if let Some(x) = &cf {
        touch_scd(x);
      }
      v.push(DayObjs { route: name, solar: g(|| sf.next(n)), lunar: lf.and_then(|x| g(|| x.next(n))), scd: cf.and_then(|x| g(|| x.next(n))), scd_instant_level: false });
    }
  }
  // listed by the civil month / by the sexagenary month reached from the day
  let listed_solar = g(|| s0.get_solar_month().get_days().into_iter().find(|x| ymd(x) == (y, m, d))).flatten();
  let listed_scd = g(|| s0.get_sixty_cycle_day().get_sixty_cycle_month().get_days().into_iter().find(|x| ymd(&x.get_solar_day()) == (y, m, d))).flatten();
  if listed_solar.is_some() || listed_scd.is_some() {
    v.push(DayObjs { route: "listed by its civil month / its sexagenary month", lunar: listed_solar.as_ref().and_then(|x| g(|| x.get_lunar_day())), solar: listed_solar, scd: listed_scd, scd_instant_level: false });
  }
  // converted from Julian dates inside the day
  for (f, name) in [(0.0f64, "converted from the Julian date of its midnight"), (0.7, "converted from a Julian date in its afternoon")] {
    if let Some(sj) = g(|| JulianDay::from_julian_day(c.jdn(i) as f64 - 0.5 + f).get_solar_day()) {
      v.push(DayObjs { route: name, lunar: g(|| sj.get_lunar_day()), scd: g(|| sj.get_sixty_cycle_day()), solar: Some(sj), scd_instant_level: false });
    }
  }
  // handed out by hour objects of 10:30 (after the hour's own views were read)
  if let Some(t) = g(|| SolarTime::from_ymd_hms(y as isize, m as usize, d as usize, 10, 30, 0)) {
    let lh = g(|| t.get_lunar_hour());
    if let Some(h) = &lh {
      let _ = g(|| (h.get_sixty_cycle_hour(), h.get_twelve_star(), h.get_recommends().len(), h.get_eight_char()));
    }
    let sh = g(|| t.get_sixty_cycle_hour());
    v.push(DayObjs { route: "handed out by the lunar hour of 10:30 (hour views read first)", lunar: lh.as_ref().and_then(|h| g(|| h.get_lunar_day())), solar: g(|| t.get_solar_day()), scd: None, scd_instant_level: false });
    v.push(DayObjs { route: "handed out by the sexagenary hour of 10:30", lunar: None, solar: None, scd: sh.and_then(|h| g(|| h.get_sixty_cycle_day())), scd_instant_level: true });
  }
  v
}

fn opt<T: ToString>(x: Option<T>) -> String {
  x.map(|v| v.to_string()).unwrap_or_else(|| "-".into())
}

fn part(f: impl FnOnce() -> String) -> String {
  guard(f).unwrap_or_else(|_| "REFUSED".into())
}

/// C02: labels and civil date
pub fn fields_c02(o: &DayObjs) -> Vec<(&'static str, String)> {
  let mut r = vec![];
  if let Some(l) = &o.lunar {
    r.push(("lunar labels", part(|| format!("{:?}", lymd(l)))));
    r.push(("civil date of the lunar day", part(|| format!("{:?}", ymd(&l.get_solar_day())))));
  }
  if let Some(s) = &o.solar {
    r.push(("civil date", part(|| format!("{:?}", ymd(s)))));
    r.push(("lunar date of the civil day", part(|| format!("{:?}", lymd(&s.get_lunar_day())))));
  }
  r
}

/// C07: day pillar and weekday
pub fn fields_c07(o: &DayObjs) -> Vec<(&'static str, String)> {
  let mut r = vec![];
  if let Some(l) = &o.lunar {
    r.push(("pillar of the lunar day", part(|| l.get_sixty_cycle().to_string())));
    r.push(("weekday of the lunar day", part(|| l.get_week().to_string())));
    r.push(("pillar via the lunar day's sexagenary-day view", part(|| l.get_sixty_cycle_day().get_sixty_cycle().to_string())));
  }
  if let Some(s) = &o.solar {
    r.push(("weekday of the civil day", part(|| s.get_week().to_string())));
    r.push(("pillar via the civil day's sexagenary-day view", part(|| s.get_sixty_cycle_day().get_sixty_cycle().to_string())));
  }
  if let Some(x) = &o.scd {
    r.push(("pillar of the sexagenary day", part(|| x.get_sixty_cycle().to_string())));
    r.push(("civil date of the sexagenary day", part(|| format!("{:?}", ymd(&x.get_solar_day())))));
  }
  r
}

/// C08: year and month pillars of the day view and its month object
pub fn fields_c08(o: &DayObjs) -> Vec<(&'static str, String)> {
  let mut r = vec![];
  if o.scd_instant_level {
    return r;
  }
  if let Some(x) = &o.scd {
    r.push(("year pillar", part(|| x.get_year().to_string())));
    r.push(("month pillar", part(|| x.get_month().to_string())));
    r.push(("sexagenary month object", part(|| { let m = x.get_sixty_cycle_month(); format!("{} #{} of {}", m, m.get_index_in_year(), m.get_sixty_cycle_year().get_year()) })));
  }
  if let Some(l) = &o.lunar {
    r.push(("year/month pillars via the lunar day's sexagenary-day view", part(|| { let x = l.get_sixty_cycle_day(); format!("{} {}", x.get_year(), x.get_month()) })));
    // the (deprecated, still public) pillar accessors of the lunar day itself
    #[allow(deprecated)]
    {
      r.push(("year pillar", part(|| l.get_year_sixty_cycle().to_string())));
      r.push(("month pillar", part(|| l.get_month_sixty_cycle().to_string())));
    }
  }
  r
}

/// C06: the term a civil day belongs to
pub fn fields_c06(o: &DayObjs) -> Vec<(&'static str, String)> {
  let mut r = vec![];
  if let Some(s) = &o.solar {
    r.push(("term day", part(|| { let t = s.get_term_day(); format!("{}#{} day {}", t.get_solar_term().get_year(), t.get_solar_term().get_index(), t.get_day_index()) })));
    r.push(("term", part(|| { let t = s.get_term(); format!("{}#{} {}", t.get_year(), t.get_index(), t.get_julian_day().get_day()) })));
  }
  r
}

/// C15: the term-anchored series
pub fn fields_c15(o: &DayObjs) -> Vec<(&'static str, String)> {
  let mut r = vec![];
  if let Some(s) = &o.solar {
    r.push(("Nines / Dog days / Plum rains", part(|| format!("{} {} {}", opt(s.get_nine_day()), opt(s.get_dog_day()), opt(s.get_plum_rain_day())))));
    r.push(("pentad / commanding stem", part(|| format!("{} {}", s.get_phenology_day(), s.get_hide_heaven_stem_day()))));
  }
  r
}

/// C17: the daily almanac cycles
pub fn fields_c17(o: &DayObjs) -> Vec<(&'static str, String)> {
  let mut r = vec![];
  if let Some(l) = &o.lunar {
    r.push(("lunar day: duty, twelve spirits, mansion, six star, phase, minor Ren", part(|| format!("{} {} {} {} {} {}", l.get_duty(), l.get_twelve_star(), l.get_twenty_eight_star(), l.get_six_star(), l.get_phase(), l.get_minor_ren()))));
    r.push(("lunar day: nine star", part(|| l.get_nine_star().to_string())));
  }
  if o.scd_instant_level {
    return r;
  }
  if let Some(x) = &o.scd {
    r.push(("sexagenary day: duty, twelve spirits, mansion", part(|| format!("{} {} {}", x.get_duty(), x.get_twelve_star(), x.get_twenty_eight_star()))));
    r.push(("sexagenary day: nine star", part(|| x.get_nine_star().to_string())));
  }
  r
}

/// C18: spirits and taboos of the day
pub fn fields_c18(o: &DayObjs) -> Vec<(&'static str, String)> {
  let mut r = vec![];
  let names = |v: Vec<String>| v.join(",");
  if let Some(l) = &o.lunar {
    r.push(("lunar day: spirits / recommended / avoided", part(|| format!("{} | {} | {}", names(l.get_gods().iter().map(|x| x.get_name()).collect()), names(l.get_recommends().iter().map(|x| x.get_name()).collect()), names(l.get_avoids().iter().map(|x| x.get_name()).collect())))));
  }
  if o.scd_instant_level {
    return r;
  }
  if let Some(x) = &o.scd {
    r.push(("sexagenary day: spirits / recommended / avoided", part(|| format!("{} | {} | {}", names(x.get_gods().iter().map(|g| g.get_name()).collect()), names(x.get_recommends().iter().map(|g| g.get_name()).collect()), names(x.get_avoids().iter().map(|g| g.get_name()).collect())))));
  }
  r
}

/// C19: foetus spirit and sign of the day
pub fn fields_c19(o: &DayObjs) -> Vec<(&'static str, String)> {
  let mut r = vec![];
  if let Some(l) = &o.lunar {
    r.push(("foetus spirit via the lunar day", part(|| l.get_fetus_day().to_string())));
  }
  if let Some(s) = &o.solar {
    r.push(("zodiac sign", part(|| s.get_constellation().to_string())));
  }
  if let Some(x) = &o.scd {
    // (also for a day view handed out by an hour object: the spirit goes with the pillar the object reports)
    r.push(("foetus spirit vs the pillar the sexagenary day reports", part(|| (x.get_fetus_day().to_string() == tyme4rs::tyme::culture::fetus::FetusDay::new(x.get_sixty_cycle()).to_string()).to_string())));
  }
  r
}

/// C20: festival and holiday look-ups of the day
pub fn fields_c20(o: &DayObjs) -> Vec<(&'static str, String)> {
  let mut r = vec![];
  if let Some(l) = &o.lunar {
    r.push(("lunar festival of the day", part(|| opt(l.get_festival()))));
  }
  if let Some(s) = &o.solar {
    r.push(("civil festival / legal holiday of the day", part(|| format!("{} {}", opt(s.get_festival()), opt(s.get_legal_holiday())))));
  }
  r
}

use tyme4rs::tyme::Culture;

/// Compare the fields of every route with those of the first (constructed) route. `sub` is the reporting sub-check.
pub fn compare_day_routes(env: &Env, out: &mut Out, sub: &str, case: &Case, i: usize, fields: &dyn Fn(&DayObjs) -> Vec<(&'static str, String)>) {
  let c = cal();
  let routes = day_routes(i);
  if routes.is_empty() {
    return;
  }
  out.eval(sub);
  out.nontrivial(sub, &case.a);
  out.class("dates_compared_across_routes");
  out.class_n("objects_compared_with_the_constructed_one", routes.len() as u64 - 1);
  if out.wants_sample(sub, true) {
    out.sample(sub, true, || serde_json::json!({"date": c.fmt(i), "routes": routes.iter().map(|r| r.route).collect::<Vec<_>>()}));
  }
  // a field name may occur several times in one object (two accessors of the same quantity): the first occurrence in the
  // constructed object is the reference for all of them, in every object including the constructed one
  let mut base: std::collections::BTreeMap<&'static str, String> = std::collections::BTreeMap::new();
  for (name, val) in fields(&routes[0]) {
    base.entry(name).or_insert(val);
  }
  let (y, m, d) = c.ymd(i);
  for o in routes.iter() {
    for (name, val) in fields(o) {
      if let Some(b) = base.get(name) {
        if *b != val {
          out.fail(env, Viol { sub: sub.into(), kind: "answer_depends_on_how_the_object_was_obtained".into(), case: case.clone(), key: key(&[("y", y), ("m", m), ("d", d), ("jdn", c.jdn(i))]), desc: format!("{} of {}: object {}", name, c.fmt(i), o.route), expected: format!("{} (object constructed from the civil date)", b), got: val });
          return;
        }
      }
    }
  }
}

// ------------------------------------------------------------------------------------------------ hours

pub struct HourObjs {
  pub route: &'static str,
  pub sh: Option<SixtyCycleHour>,
  pub lh: Option<LunarHour>,
}

/// the two hour objects of the double-hour containing `hour`:30 of civil date `i` (hours 1..22 only: the first slot of a
/// day's list is 23:00 of the previous civil day, a different instant)
pub fn hour_routes(i: usize, hour: i64) -> Vec<HourObjs> {
  let c = cal();
  let (y, m, d) = c.ymd(i);
  let mut v = vec![];
  let t = match g(|| SolarTime::from_ymd_hms(y as isize, m as usize, d as usize, hour as usize, 30, 0)) {
    Some(t) => t,
    None => return v,
  };
  v.push(HourObjs { route: "constructed from the instant", sh: g(|| t.get_sixty_cycle_hour()), lh: g(|| t.get_lunar_hour()) });
  // listed by the day objects (slot start = odd hour)
  let slot = ((hour + 1) / 2) as usize;
  let sd0 = g(|| SolarDay::from_ymd(y as isize, m as usize, d as usize));
  if let Some(s) = &sd0 {
    v.push(HourObjs { route: "listed by its sexagenary day / lunar day", sh: g(|| s.get_sixty_cycle_day().get_hours().get(slot).cloned()).flatten(), lh: g(|| s.get_lunar_day().get_hours().get(slot).cloned()).flatten() });
  }
  // stepped from 01:30 of the same day (views read first) and from the same clock time of the day before
  if let Some(t0) = g(|| SolarTime::from_ymd_hms(y as isize, m as usize, d as usize, 1, 30, 0)) {
    let (a, b) = (g(|| t0.get_sixty_cycle_hour()), g(|| t0.get_lunar_hour()));
    if let Some(x) = &a {
      let _ = g(|| (x.get_twelve_star(), x.get_recommends().len(), x.get_eight_char()));
      let _ = g(|| x.get_nine_star());
    }
    if let Some(x) = &b {
      let _ = g(|| (x.get_sixty_cycle_hour(), x.get_twelve_star(), x.get_eight_char(), x.get_solar_time()));
    }
    let secs = ((hour - 1) * 3600) as isize;
    v.push(HourObjs { route: "stepped from 01:30 of the same day (views read first)", sh: a.and_then(|x| g(|| x.next(secs))), lh: b.and_then(|x| g(|| x.next(((hour - 1) / 2) as isize))) });
  }
  // via the other view
  if let Some(l) = g(|| t.get_lunar_hour()) {
    v.push(HourObjs { route: "sexagenary hour handed out by the lunar hour", sh: g(|| l.get_sixty_cycle_hour()), lh: None });
  }
  v
}

/// the clock time of a lunar hour obtained by stepping whole double-hours differs from hh:30 - compare labels that do not
/// contain minutes
fn lh_label(h: &LunarHour) -> String {
  format!("{:?} slot {}", lymd(&h.get_lunar_day()), h.get_index_in_day())
}

pub fn hour_fields_c09(o: &HourObjs) -> Vec<(&'static str, String)> {
  let mut r = vec![];
  if let Some(x) = &o.sh {
    r.push(("four pillars of the instant view", part(|| format!("{} {} {} {}", x.get_year(), x.get_month(), x.get_day(), x.get_sixty_cycle()))));
    r.push(("eight characters of the instant view", part(|| x.get_eight_char().to_string())));
    r.push(("index in day (instant view)", part(|| x.get_index_in_day().to_string())));
    r.push(("day pillar at the instant level", part(|| x.get_day().to_string())));
  }
  if let Some(x) = &o.lh {
    #[allow(deprecated)]
    r.push(("day pillar at the instant level", part(|| x.get_day_sixty_cycle().to_string())));
  }
  if let Some(x) = &o.lh {
    r.push(("lunar hour", part(|| lh_label(x))));
    r.push(("hour pillar of the lunar hour", part(|| x.get_sixty_cycle().to_string())));
    r.push(("eight characters of the lunar hour", part(|| x.get_eight_char().to_string())));
  }
  r
}

pub fn hour_fields_c17(o: &HourObjs) -> Vec<(&'static str, String)> {
  let mut r = vec![];
  if let Some(x) = &o.sh {
    r.push(("hour nine star / twelve spirits (instant view)", part(|| format!("{} {}", x.get_nine_star(), x.get_twelve_star()))));
  }
  if let Some(x) = &o.lh {
    r.push(("hour nine star / twelve spirits / minor Ren (lunar hour)", part(|| format!("{} {} {}", x.get_nine_star(), x.get_twelve_star(), x.get_minor_ren()))));
  }
  r
}

pub fn hour_fields_c18(o: &HourObjs) -> Vec<(&'static str, String)> {
  let mut r = vec![];
  let names = |v: Vec<String>| v.join(",");
  if let Some(x) = &o.sh {
    r.push(("hour taboos (instant view)", part(|| format!("{} | {}", names(x.get_recommends().iter().map(|t| t.get_name()).collect()), names(x.get_avoids().iter().map(|t| t.get_name()).collect())))));
  }
  if let Some(x) = &o.lh {
    r.push(("hour taboos (lunar hour)", part(|| format!("{} | {}", names(x.get_recommends().iter().map(|t| t.get_name()).collect()), names(x.get_avoids().iter().map(|t| t.get_name()).collect())))));
  }
  r
}

pub fn hour_fields_c08(o: &HourObjs) -> Vec<(&'static str, String)> {
  let mut r = vec![];
  if let Some(x) = &o.sh {
    r.push(("year / month pillar of the instant view", part(|| format!("{} {}", x.get_year(), x.get_month()))));
  }
  if let Some(x) = &o.lh {
    #[allow(deprecated)]
    r.push(("year / month pillar of the instant view", part(|| format!("{} {}", x.get_year_sixty_cycle(), x.get_month_sixty_cycle()))));
  }
  r
}

pub fn compare_hour_routes(env: &Env, out: &mut Out, sub: &str, case: &Case, i: usize, hour: i64, fields: &dyn Fn(&HourObjs) -> Vec<(&'static str, String)>) {
  if !(2..23).contains(&hour) {
    return;
  }
  let c = cal();
  // a double-hour that contains a term instant has two sets of year/month pillars: its start (what a list holds) and
  // hh:30 (what is constructed) may lie on different sides
  {
    let (y, _, _) = c.ymd(i);
    let ts = crate::terms::ensure(y - 1, y + 1);
    let start = i as i64 * 86400 + (2 * ((hour + 1) / 2) - 1) * 3600;
    if ts.list.iter().any(|t| t.sec >= start - 2 && t.sec <= start + 7202) {
      out.skip("double_hour_contains_a_term_instant");
      return;
    }
  }
  let routes = hour_routes(i, hour);
  if routes.is_empty() {
    return;
  }
  out.eval(sub);
  out.nontrivial(sub, &case.a);
  out.class("hours_compared_across_routes");
  if out.wants_sample(sub, true) {
    out.sample(sub, true, || serde_json::json!({"instant": format!("{} {:02}:30", c.fmt(i), hour), "routes": routes.iter().map(|r| r.route).collect::<Vec<_>>()}));
  }
  let mut base: std::collections::BTreeMap<&'static str, String> = std::collections::BTreeMap::new();
  for (name, val) in fields(&routes[0]) {
    base.entry(name).or_insert(val);
  }
  let (y, m, d) = c.ymd(i);
  for o in routes.iter() {
    for (name, val) in fields(o) {
      if let Some(b) = base.get(name) {
        if *b != val {
          out.fail(env, Viol { sub: sub.into(), kind: "answer_depends_on_how_the_object_was_obtained".into(), case: case.clone(), key: key(&[("y", y), ("m", m), ("d", d), ("jdn", c.jdn(i)), ("h", hour)]), desc: format!("{} of {} {:02}:30: object {}", name, c.fmt(i), hour, o.route), expected: format!("{} (object constructed from the instant)", b), got: val });
          return;
        }
      }
    }
  }
}

// ------------------------------------------------------------------------------------------------ generators

use proptest::prelude::*;

/// civil date indices: uniform, around civil and lunar new year, month ends, the cut-over, the reform-era seams and the
/// two ends of the range
pub fn date_strategy() -> impl Strategy<Value = Case> {
  let n = NDAYS as i64;
  prop_oneof![
    8 => 60i64..(n - 60),
    3 => (2i64..=9998, -45i64..=60).prop_map(|(y, k)| (cal().year_start[y as usize] as i64 + k).clamp(60, NDAYS as i64 - 61)),
    1 => prop_oneof![Just(577_736i64), Just(8_813), Just(87_334), Just(2_936), Just(8_430), Just(8_460)].prop_flat_map(|b| (b - 45)..(b + 45)),
    1 => prop_oneof![60i64..130, (n - 130)..(n - 60)],
  ]
  .prop_map(|i| Case::ints(&[i]))
}

pub fn hour_strategy() -> impl Strategy<Value = Case> {
  (date_strategy(), 2i64..23).prop_map(|(c, h)| Case::ints(&[c.a[0], h]))
}
