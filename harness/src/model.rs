//! Independent models shared by the property checks. Nothing here calls into tyme4rs except the
//! clearly marked adapters at the bottom (which only read values out of library objects).

use std::sync::OnceLock;

// ---------------------------------------------------------------- civil calendar model CAL

/// JDN of 0001-01-01 (Julian calendar), the standard value.
pub const JDN0: i64 = 1721424;
/// number of existing civil dates 0001-01-01 ..= 9999-12-31
pub const NDAYS: usize = 3_652_061;

pub fn is_leap(y: i64) -> bool {
  if y < 1583 {
    y.rem_euclid(4) == 0
  } else {
    (y % 4 == 0 && y % 100 != 0) || y % 400 == 0
  }
}

pub fn month_len_nominal(y: i64, m: i64) -> i64 {
  match m {
    1 | 3 | 5 | 7 | 8 | 10 | 12 => 31,
    4 | 6 | 9 | 11 => 30,
    2 => {
      if is_leap(y) {
        29
      } else {
        28
      }
    }
    _ => 0,
  }
}

/// does the civil date exist (1..9999, ten days of October 1582 missing)?
pub fn date_exists(y: i64, m: i64, d: i64) -> bool {
  if !(1..=9999).contains(&y) || !(1..=12).contains(&m) || d < 1 || d > month_len_nominal(y, m) {
    return false;
  }
  !(y == 1582 && m == 10 && d > 4 && d < 15)
}

pub struct Cal {
  /// packed y*10000+m*100+d for every existing date, index i <-> JDN0+i
  pub days: Vec<u32>,
  /// index of Jan 1 of year y (y in 1..=10000; entry 10000 = NDAYS)
  pub year_start: Vec<u32>,
}

impl Cal {
  fn build() -> Self {
    let mut days = Vec::with_capacity(NDAYS);
    let mut year_start = vec![0u32; 10001];
    for y in 1..=9999i64 {
      year_start[y as usize] = days.len() as u32;
      for m in 1..=12i64 {
        for d in 1..=month_len_nominal(y, m) {
          if y == 1582 && m == 10 && d > 4 && d < 15 {
            continue;
          }
          days.push((y * 10000 + m * 100 + d) as u32);
        }
      }
    }
    year_start[10000] = days.len() as u32;
    assert_eq!(days.len(), NDAYS);
    Cal { days, year_start }
  }
  #[inline]
  pub fn ymd(&self, i: usize) -> (i64, i64, i64) {
    let p = self.days[i] as i64;
    (p / 10000, p / 100 % 100, p % 100)
  }
  #[inline]
  pub fn jdn(&self, i: usize) -> i64 {
    JDN0 + i as i64
  }
  /// index of an existing date
  pub fn index(&self, y: i64, m: i64, d: i64) -> Option<usize> {
    if !date_exists(y, m, d) {
      return None;
    }
    let lo = self.year_start[y as usize] as usize;
    let hi = self.year_start[y as usize + 1] as usize;
    let p = (y * 10000 + m * 100 + d) as u32;
    self.days[lo..hi].binary_search(&p).ok().map(|k| lo + k)
  }
  pub fn index_of_jdn(&self, jdn: i64) -> Option<usize> {
    let i = jdn - JDN0;
    if i >= 0 && (i as usize) < NDAYS {
      Some(i as usize)
    } else {
      None
    }
  }
  /// number of existing days of a civil month
  pub fn month_len(&self, y: i64, m: i64) -> i64 {
    if y == 1582 && m == 10 {
      21
    } else {
      month_len_nominal(y, m)
    }
  }
  pub fn year_len(&self, y: i64) -> i64 {
    (self.year_start[y as usize + 1] - self.year_start[y as usize]) as i64
  }
  pub fn fmt(&self, i: usize) -> String {
    let (y, m, d) = self.ymd(i);
    format!("{:04}-{:02}-{:02}", y, m, d)
  }
}

pub fn cal() -> &'static Cal {
  static C: OnceLock<Cal> = OnceLock::new();
  C.get_or_init(Cal::build)
}

// ---------------------------------------------------------------- pillar and weekday arithmetic (DESIGN 3.2)

#[inline]
pub fn day_pillar(jdn: i64) -> i64 {
  (jdn + 49).rem_euclid(60)
}
#[inline]
pub fn weekday(jdn: i64) -> i64 {
  (jdn + 1).rem_euclid(7)
}
#[inline]
pub fn year_pillar(y: i64) -> i64 {
  (y - 4).rem_euclid(60)
}
/// stem of the Yin month (first month) of a year whose stem is ys: Five Tigers
#[inline]
pub fn five_tigers_first_stem(ys: i64) -> i64 {
  ((ys % 5) * 2 + 2) % 10
}
/// stem of the Zi hour of a day whose stem is ds: Five Rats
#[inline]
pub fn five_rats_first_stem(ds: i64) -> i64 {
  ((ds % 5) * 2) % 10
}
#[inline]
pub fn hour_branch(h: i64) -> i64 {
  ((h + 1) / 2) % 12
}
/// sexagenary index from (stem, branch); stem and branch must have the same parity
pub fn pillar_index(stem: i64, branch: i64) -> i64 {
  for k in 0..60 {
    if k % 10 == stem && k % 12 == branch {
      return k;
    }
  }
  -1
}

pub const STEMS: [&str; 10] = ["甲", "乙", "丙", "丁", "戊", "己", "庚", "辛", "壬", "癸"];
pub const BRANCHES: [&str; 12] = ["子", "丑", "寅", "卯", "辰", "巳", "午", "未", "申", "酉", "戌", "亥"];
pub fn pillar_name(k: i64) -> String {
  format!("{}{}", STEMS[(k.rem_euclid(60) % 10) as usize], BRANCHES[(k.rem_euclid(60) % 12) as usize])
}

// ---------------------------------------------------------------- deterministic helpers

/// splitmix64 — only used to derive *sub-seeds* and fixed stratified samples from VERIF_SEED
/// (all random case generation goes through proptest).
pub fn mix(mut z: u64) -> u64 {
  z = z.wrapping_add(0x9E3779B97F4A7C15);
  z = (z ^ (z >> 30)).wrapping_mul(0xBF58476D1CE4E5B9);
  z = (z ^ (z >> 27)).wrapping_mul(0x94D049BB133111EB);
  z ^ (z >> 31)
}

/// A stratified set of years in lo..=hi: all edge years, every `step`-th year, plus the listed specials.
pub fn stratified_years(lo: i64, hi: i64, step: i64, specials: &[i64], seed: u64) -> Vec<i64> {
  let mut v: Vec<i64> = vec![];
  let off = (mix(seed) % step as u64) as i64;
  let mut y = lo + off;
  while y <= hi {
    v.push(y);
    y += step;
  }
  for k in 0..3 {
    v.push(lo + k);
    v.push(hi - k);
  }
  for s in specials {
    if *s >= lo && *s <= hi {
      v.push(*s);
    }
  }
  v.sort();
  v.dedup();
  v
}

/// years that every stratified sample includes: the calendar's awkward places
pub const SPECIAL_YEARS: [i64; 70] = [
  1, 2, 3, 4, 8, 9, 10, 15, 16, 18, 19, 21, 22, 23, 24, 25, 26, 100, 200, 236, 237, 238, 239, 240, 241, 300, 400, 500, 600, 640, 641, 700, 900, 1000, 1100, 1300, 1400, 1500, 1581, 1582, 1583, 1584, 1599, 1600, 1601, 1644, 1645, 1700, 1800, 1900, 1959, 1960, 1961, 2000, 2024, 2100, 2200, 2300, 2400, 4000, 7275, 7276, 7277, 8000, 8040, 9000, 9996, 9997, 9998, 9999,
];
