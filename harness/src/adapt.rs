//! Thin adapters that read values out of tyme4rs objects (no logic of their own).

use crate::engine::guard;
use crate::model::{cal, Cal};
use tyme4rs::tyme::lunar::{LunarDay, LunarMonth};
use tyme4rs::tyme::solar::{SolarDay, SolarTerm, SolarTime};

/// "refused" = Err from `new` or a panic; both count as refusal (DESIGN 3.4)
pub fn solar_day_new(y: i64, m: i64, d: i64) -> Result<SolarDay, String> {
  if m < 0 || d < 0 {
    return Err("negative component not representable (usize)".into());
  }
  match guard(|| SolarDay::new(y as isize, m as usize, d as usize)) {
    Ok(Ok(x)) => Ok(x),
    Ok(Err(e)) => Err(e),
    Err(p) => Err(format!("panic: {}", p)),
  }
}

pub fn sd(y: i64, m: i64, d: i64) -> SolarDay {
  SolarDay::from_ymd(y as isize, m as usize, d as usize)
}

pub fn sd_idx(c: &Cal, i: usize) -> SolarDay {
  let (y, m, d) = c.ymd(i);
  sd(y, m, d)
}

pub fn ymd(s: &SolarDay) -> (i64, i64, i64) {
  (s.get_year() as i64, s.get_month() as i64, s.get_day() as i64)
}

pub fn fmt_ymd(t: (i64, i64, i64)) -> String {
  format!("{:04}-{:02}-{:02}", t.0, t.1, t.2)
}

/// index in CAL of a library SolarDay (None if the library produced a date that does not exist)
pub fn idx_of(s: &SolarDay) -> Option<usize> {
  let (y, m, d) = ymd(s);
  cal().index(y, m, d)
}

pub fn st(y: i64, mo: i64, d: i64, h: i64, mi: i64, s: i64) -> SolarTime {
  SolarTime::from_ymd_hms(y as isize, mo as usize, d as usize, h as usize, mi as usize, s as usize)
}

pub fn ymdhms(t: &SolarTime) -> (i64, i64, i64, i64, i64, i64) {
  (t.get_year() as i64, t.get_month() as i64, t.get_day() as i64, t.get_hour() as i64, t.get_minute() as i64, t.get_second() as i64)
}

pub fn fmt_time(t: (i64, i64, i64, i64, i64, i64)) -> String {
  format!("{:04}-{:02}-{:02} {:02}:{:02}:{:02}", t.0, t.1, t.2, t.3, t.4, t.5)
}

pub fn lymd(l: &LunarDay) -> (i64, i64, i64) {
  (l.get_year() as i64, l.get_month() as i64, l.get_day() as i64)
}

pub fn lm_ym(m: &LunarMonth) -> (i64, i64) {
  (m.get_year() as i64, m.get_month_with_leap() as i64)
}

/// first day (integer JDN) of a lunar month as the library reports it
pub fn lm_first_jdn(m: &LunarMonth) -> i64 {
  (m.get_first_julian_day().get_day() + 0.5).floor() as i64
}

/// precise instant of a term as a Julian date (UTC+8 civil time line, as the library reports it)
pub fn term_jd(t: &SolarTerm) -> f64 {
  t.get_julian_day().get_day()
}
