//! C03 Lunar months tile time: 29/30 days, 12/13 per year, no gaps or overlaps

use crate::adapt::*;
use crate::engine::*;
use crate::lunmodel::*;
use proptest::prelude::*;
use serde_json::json;
use tyme4rs::tyme::lunar::{LunarMonth, LunarYear};
use tyme4rs::tyme::Tyme;

pub struct C03;

fn viol(sub: &str, kind: &str, case: &Case, k: &[(&str, i64)], desc: String, expected: String, got: String) -> Viol {
  Viol { sub: sub.into(), kind: kind.into(), case: case.clone(), key: key(k), desc, expected, got }
}

fn lab(y: i64, m: i64) -> String {
  format!("({},{})", y, m)
}

/// adjacency (p, p+1) is non-trivial when it crosses a lunar year, involves a leap month, or the year's leap month is >= 11
fn adj_nontrivial(l: &LunList, p: usize) -> bool {
  let (y, m) = l.at(p);
  if m < 0 || l.leap[y as usize] as i64 == m || l.leap[y as usize] >= 11 {
    return true;
  }
  if p + 1 < l.len() {
    let (y2, _) = l.at(p + 1);
    if y2 != y {
      return true;
    }
  }
  false
}

impl C03 {
  fn eval_adjacent(&self, env: &Env, out: &mut Out, case: &Case) {
    let l = lunlist();
    let (y, m) = (case.a[0], case.a[1]);
    let p = match l.pos(y, m) {
      Some(p) => p,
      None => return,
    };
    out.eval("adjacent");
    let nt = adj_nontrivial(l, p);
    if nt {
      out.nontrivial("adjacent", &[y, m]);
    }
    let k = [("ly", y), ("lm", m)];
    let a = LunarMonth::from_ym(y as isize, m as isize);
    if lm_ym(&a) != (y, m) {
      out.fail(env, viol("adjacent", "label", case, &k, lab(y, m), lab(y, m), format!("{:?}", lm_ym(&a))));
    }
    let dc = a.get_day_count() as i64;
    let first = a.get_first_julian_day().get_day();
    if a.get_index_in_year() as i64 != (p - l.year_start[y as usize] as usize) as i64 {
      out.fail(env, viol("adjacent", "index_in_year", case, &k, lab(y, m), format!("{}", p - l.year_start[y as usize] as usize), format!("{}", a.get_index_in_year())));
    }
    if a.is_leap() != (m < 0) || a.get_month() as i64 != m.abs() {
      out.fail(env, viol("adjacent", "leap_flag", case, &k, lab(y, m), format!("leap={} month={}", m < 0, m.abs()), format!("leap={} month={}", a.is_leap(), a.get_month())));
    }
    if dc != 29 && dc != 30 {
      out.fail(env, viol("adjacent", "day_count_not_29_30", case, &k, lab(y, m), "29 or 30".into(), dc.to_string()));
    }
    if out.wants_sample("adjacent", nt) {
      out.sample("adjacent", nt, || json!({"month": [y, m], "first_jd": first, "day_count": dc}));
    }
    // stepping with 0 returns the same month
    let z = a.next(0);
    if lm_ym(&z) != (y, m) || z.get_first_julian_day().get_day() != first {
      out.fail(env, viol("adjacent", "next0", case, &k, lab(y, m), lab(y, m), format!("{:?}", lm_ym(&z))));
    }
    if p + 1 >= l.len() {
      out.skip("next_of_last_supported_month");
      return;
    }
    let (ey, em) = l.at(p + 1);
    let nx = a.next(1);
    if lm_ym(&nx) != (ey, em) {
      out.fail(env, viol("adjacent", "next_label", case, &k, format!("{}.next(1)", lab(y, m)), lab(ey, em), format!("{:?}", lm_ym(&nx))));
      return;
    }
    let nfirst = nx.get_first_julian_day().get_day();
    if nfirst - first != dc as f64 {
      let kind = if nfirst - first > dc as f64 { "gap_after_month" } else { "overlap_with_next" };
      out.fail(env, viol("adjacent", kind, case, &k, format!("{} -> {}", lab(y, m), lab(ey, em)), format!("next month starts {} days after this one (its day count)", dc), format!("starts {} days after (first {} -> {})", nfirst - first, first, nfirst)));
    }
    let back = nx.next(-1);
    if lm_ym(&back) != (y, m) || back.get_first_julian_day().get_day() != first {
      out.fail(env, viol("adjacent", "forward_then_back", case, &k, format!("{}.next(1).next(-1)", lab(y, m)), lab(y, m), format!("{:?}", lm_ym(&back))));
    }
    // the stepped month and the directly constructed month are the same object
    let direct = LunarMonth::from_ym(ey as isize, em as isize);
    if direct.get_first_julian_day().get_day() != nfirst || direct.get_day_count() != nx.get_day_count() {
      out.fail(env, viol("adjacent", "stepped_vs_constructed", case, &k, lab(ey, em), format!("first {} dc {}", direct.get_first_julian_day().get_day(), direct.get_day_count()), format!("first {} dc {}", nfirst, nx.get_day_count())));
    }
  }

  fn eval_step(&self, env: &Env, out: &mut Out, sub: &str, case: &Case) {
    let l = lunlist();
    let (y, m, n) = (case.a[0], case.a[1], case.a[2]);
    let p = match l.pos(y, m) {
      Some(p) => p,
      None => return,
    };
    let q = p as i64 + n;
    if q < 0 || q >= l.len() as i64 {
      out.skip("step_result_outside_years_0_9999");
      return;
    }
    out.eval(sub);
    let (ey, em) = l.at(q as usize);
    let crosses_year = ey != y;
    let nt = crosses_year || n < 0 || l.leap[y as usize] > 0;
    if nt {
      out.nontrivial(sub, &[y, m, n]);
    }
    if crosses_year {
      out.class("step_crosses_lunar_year");
    }
    let a = LunarMonth::from_ym(y as isize, m as isize);
    let b = a.next(n as isize);
    if out.wants_sample(sub, nt) {
      out.sample(sub, nt, || json!({"month": [y, m], "n": n, "expected": [ey, em], "got": [b.get_year(), b.get_month_with_leap()]}));
    }
    // the path of the step (for attributing failures to a known non-abutting adjacency)
    let (plo, phi) = (p.min(q as usize), p.max(q as usize));
    let mut k = vec![("ly", y), ("lm", m), ("n", n)];
    // crossing markers for the reform-era adjacencies
    let cross = |yy: i64, mm: i64| -> i64 {
      match l.pos(yy, mm) {
        Some(pp) => (plo <= pp && pp < phi) as i64,
        None => 0,
      }
    };
    k.push(("crosses_reform_adjacency", (cross(8, 12) + cross(23, 12) + cross(24, 12) + cross(236, 12) + cross(239, 12) > 0) as i64));
    if lm_ym(&b) != (ey, em) {
      out.fail(env, viol(sub, "next_n_label", case, &k, format!("{}.next({})", lab(y, m), n), lab(ey, em), format!("{:?}", lm_ym(&b))));
      return;
    }
    let direct = LunarMonth::from_ym(ey as isize, em as isize);
    if direct.get_first_julian_day().get_day() != b.get_first_julian_day().get_day() || direct.get_day_count() != b.get_day_count() || direct.get_index_in_year() != b.get_index_in_year() {
      out.fail(env, viol(sub, "next_n_fields", case, &k, format!("{}.next({})", lab(y, m), n), format!("first {} dc {}", direct.get_first_julian_day().get_day(), direct.get_day_count()), format!("first {} dc {}", b.get_first_julian_day().get_day(), b.get_day_count())));
    }
  }

  fn eval_year(&self, env: &Env, out: &mut Out, case: &Case) {
    let l = lunlist();
    let y = case.a[0];
    out.eval("year");
    let k = [("ly", y)];
    let ly = LunarYear::from_year(y as isize);
    let leap = ly.get_leap_month() as i64;
    let exp_months = l.months_of(y);
    if leap > 0 {
      out.nontrivial("year", &[y]);
    }
    let cnt = ly.get_month_count() as i64;
    if cnt != exp_months.len() as i64 || cnt != if leap > 0 { 13 } else { 12 } {
      out.fail(env, viol("year", "month_count", case, &k, format!("lunar year {}", y), exp_months.len().to_string(), cnt.to_string()));
    }
    let ms = match guard(|| ly.get_months()) {
      Ok(v) => v,
      Err(e) => {
        out.fail(env, viol("year", "get_months_panics", case, &k, format!("LunarYear({}).get_months()", y), format!("{:?}", exp_months), e));
        return;
      }
    };
    let got: Vec<i64> = ms.iter().map(|m| m.get_month_with_leap() as i64).collect();
    if got != exp_months || ms.iter().any(|m| m.get_year() as i64 != y) {
      out.fail(env, viol("year", "month_list", case, &k, format!("LunarYear({}).get_months()", y), format!("{:?}", exp_months), format!("{:?}", got)));
      return;
    }
    for (i, m) in ms.iter().enumerate() {
      if m.get_index_in_year() != i {
        out.fail(env, viol("year", "index_in_year", case, &k, format!("({},{})", y, got[i]), i.to_string(), m.get_index_in_year().to_string()));
      }
    }
    let sum: i64 = ms.iter().map(|m| m.get_day_count() as i64).sum();
    let dc = match guard(|| ly.get_day_count()) {
      Ok(v) => v as i64,
      Err(e) => {
        out.fail(env, viol("year", "get_day_count_panics", case, &k, format!("LunarYear({}).get_day_count()", y), sum.to_string(), e));
        return;
      }
    };
    if out.wants_sample("year", leap > 0) {
      out.sample("year", leap > 0, || json!({"lunar_year": y, "leap_month": leap, "months": got, "day_count": dc}));
    }
    if dc != sum {
      out.fail(env, viol("year", "day_count_vs_months", case, &k, format!("lunar year {}", y), sum.to_string(), dc.to_string()));
    }
    if !((353..=355).contains(&dc) || (383..=385).contains(&dc)) {
      out.fail(env, viol("year", "day_count_range", case, &k, format!("lunar year {}", y), "353-355 or 383-385".into(), dc.to_string()));
    }
    if ((383..=385).contains(&dc)) != (leap > 0) && ((353..=355).contains(&dc) || (383..=385).contains(&dc)) {
      out.fail(env, viol("year", "length_vs_leap", case, &k, format!("lunar year {}", y), format!("{} months", exp_months.len()), format!("{} days", dc)));
    }
    if y < 9999 {
      let a = LunarMonth::from_ym(y as isize, 1).get_first_julian_day().get_day();
      let b = LunarMonth::from_ym(y as isize + 1, 1).get_first_julian_day().get_day();
      if (b - a) as i64 != dc {
        out.fail(env, viol("year", "day_count_vs_new_year_distance", case, &k, format!("lunar year {}", y), format!("{} (distance between new-year days)", b - a), dc.to_string()));
      }
    } else {
      out.skip("new_year_distance_needs_year_10000");
    }
  }
}

fn far_strategy() -> impl Strategy<Value = Case> {
  let n = lunlist().len() as i64;
  (0..n, prop_oneof![3 => -1500i64..=1500, 2 => -40i64..=40, 1 => Just(0i64)]).prop_map(|(p, d)| {
    let (y, m) = lunlist().at(p as usize);
    Case::ints(&[y, m, d])
  })
}

impl Prop for C03 {
  fn id(&self) -> &'static str {
    "C03"
  }
  fn meta(&self, env: &Env) -> Meta {
    Meta {
      rule: format!("Generators: (a) `adjacent`: every lunation (y 0..9999, m in 1..12 and the year's leap month) constructed by from_ym, with its successor by next(1): first(next)-first(this) == day_count in {{29,30}}, next(1).next(-1)==this, next(0)==this, label/index/leap flag equal the label model (months 1..12, leap month -k directly after k), stepped == constructed; (b) `window`: next(n) for n in -14..14 equals the month n places along the label list — {}; (c) `far`: proptest (lunation index, n in +-1500) likewise; (d) `year`: every lunar year 0..9999: month list == label model, count 12/13, day count == sum of months == distance between new-year days and in 353-355/383-385. Non-trivial: adjacency crossing a lunar year, involving a leap month or in a year whose leap month is >= 11; steps that cross a lunar year, go backwards or start in a leap year; leap years. Distinct = distinct (year, month[, n]).", env.tier.pick("at every 5th lunation plus every month 11, 12, 1, 2 and every leap month and its neighbours (quick)", "at every lunation (thorough, exhaustive)")),
      assumptions: vec![
        "The label model takes the leap month of each year from LunarYear::get_leap_month (the table itself is judged against the astronomy by C04)".into(),
        "Results outside lunar years 0..9999 are out of domain and skipped (counted)".into(),
      ],
      level_text: String::new(),
    }
  }
  fn plan(&self, _env: &Env) -> Vec<TaskSpec> {
    vec![task("adjacent", 16), task("window", 16), task("far", 8)]
  }
  fn run(&self, env: &Env, t: &str, shard: usize, nshards: usize, out: &mut Out) {
    let ev = |e: &Env, o: &mut Out, s: &str, cs: &Case| self.eval(e, o, s, cs);
    let l = lunlist();
    match t {
      "adjacent" => {
        let (lo, hi) = shard_range(l.len(), shard, nshards);
        let mut rev = Reverse::new(7);
        for p in lo..hi {
          let (y, m) = l.at(p);
          run_case(env, out, "adjacent", &Case::ints(&[y, m]), &ev);
          rev.note("adjacent", &Case::ints(&[y, m]));
        }
        rev.run(env, out, &ev);
        let (ylo, yhi) = shard_range(10000, shard, nshards);
        for y in ylo..yhi {
          run_case(env, out, "year", &Case::ints(&[y as i64]), &ev);
        }
        // cold memo, then the months of sampled years constructed in descending order and around the leap month
        let step = env.tier.pick(25, 3);
        for y in (ylo as i64..yhi as i64).filter(|y| y % step == (env.seed % step as u64) as i64 && *y >= 1 && *y < 9999) {
          tyme4rs::tyme::lunar::verif_reset_lunar_month_cache();
          let lp = l.leap[y as usize] as i64;
          let mut seq: Vec<i64> = (1..=12).rev().collect();
          if lp > 0 {
            seq.extend_from_slice(&[-lp, (lp - 1).max(1), (lp + 1).min(12), lp]);
          }
          for m in seq {
            out.class("cold_descending_month_cases");
            run_case(env, out, "adjacent", &Case::ints(&[y, m]), &ev);
          }
        }
        tyme4rs::tyme::lunar::verif_reset_lunar_month_cache();
        out.set_exhaustive("adjacent", true);
        out.set_exhaustive("year", true);
      }
      "window" => {
        let (lo, hi) = shard_range(l.len(), shard, nshards);
        for p in lo..hi {
          let (y, m) = l.at(p);
          let edge = m < 0 || m.abs() >= 11 || m.abs() <= 2 || l.leap[y as usize] as i64 == m || (l.leap[y as usize] as i64 + 1 == m);
          let take = env.tier == Tier::Thorough || edge || p % 5 == (env.seed % 5) as usize;
          if !take {
            continue;
          }
          for n in -14..=14i64 {
            run_case(env, out, "window", &Case::ints(&[y, m, n]), &ev);
          }
        }
        out.set_exhaustive("window", env.tier == Tier::Thorough);
      }
      "far" => {
        let total: u32 = env.tier.pick(40_000, 1_600_000);
        prop_run(env, out, "far", total / nshards as u32, shard as u64, far_strategy(), &ev);
        out.set_exhaustive("far", false);
      }
      _ => panic!("unknown task {}", t),
    }
  }
  fn eval(&self, env: &Env, out: &mut Out, sub: &str, case: &Case) {
    match sub {
      "adjacent" => self.eval_adjacent(env, out, case),
      "window" | "far" => self.eval_step(env, out, sub, case),
      "year" => self.eval_year(env, out, case),
      _ => panic!("unknown sub-check {}", sub),
    }
  }
}
