//! C08 Year pillar turns at Lichun, month pillar at each Jie, by the Five-Tigers rule

use crate::adapt::*;
use crate::engine::*;
use crate::model::*;
use crate::terms::*;
use proptest::prelude::*;
use serde_json::json;
use tyme4rs::tyme::sixtycycle::SixtyCycleYear;
use tyme4rs::tyme::solar::SolarTime;
use tyme4rs::tyme::Tyme;

pub struct C08;

fn viol(sub: &str, kind: &str, case: &Case, k: &[(&str, i64)], desc: String, expected: String, got: String) -> Viol {
  Viol { sub: sub.into(), kind: kind.into(), case: case.clone(), key: key(k), desc, expected, got }
}

/// (sexagenary year number, year pillar, month pillar) governed by Jie term (ty, ti) (ti odd)
pub fn ym_of_jie(ty: i64, ti: i64) -> (i64, i64, i64) {
  let k = (ti - 1) / 2; // 0 = Xiaohan (Chou month) .. 11 = Daxue (Zi month)
  let sy = if ti >= 3 { ty } else { ty - 1 };
  let yp = year_pillar(sy);
  let branch = (k + 1) % 12;
  let mi = (k + 11) % 12; // months counted from Yin
  let stem = (five_tigers_first_stem(yp % 10) + mi) % 10;
  (sy, yp, pillar_index(stem, branch))
}

/// position of the latest Jie (odd index) at or before list position p
fn jie_at_or_before(ts: &Terms, p: usize) -> Option<usize> {
  if ts.list[p].index % 2 == 1 {
    Some(p)
  } else if p > 0 {
    Some(p - 1)
  } else {
    None
  }
}

fn legal_pair(yp: i64, mp: i64) -> bool {
  // month stem fixed by the year stem through Five Tigers
  let mi = (mp % 12 + 10) % 12;
  (five_tigers_first_stem(yp % 10) + mi) % 10 == mp % 10
}

impl C08 {
  fn eval_day(&self, env: &Env, out: &mut Out, case: &Case) {
    let c = cal();
    let i = case.a[0] as usize;
    let (y, m, d) = c.ymd(i);
    let jdn = c.jdn(i);
    let ts = ensure(y - 1, y + 1);
    out.eval("day");
    let k = [("y", y), ("m", m), ("d", d), ("jdn", jdn)];
    let p = match ts.latest_by_day(jdn).and_then(|p| jie_at_or_before(&ts, p)) {
      Some(p) => p,
      None => {
        out.skip("date_before_first_listed_jie");
        return;
      }
    };
    let e = ts.list[p];
    let exp = ym_of_jie(e.year, e.index);
    // alternatives when a Jie instant is within 0.6 s of midnight
    let mut alts = vec![exp];
    if e.ambiguous_day && jdn - e.day <= 1 && p >= 2 {
      alts.push(ym_of_jie(ts.list[p - 2].year, ts.list[p - 2].index));
    }
    if p + 2 < ts.list.len() && ts.list[p + 2].ambiguous_day && ts.list[p + 2].day - jdn <= 1 {
      alts.push(ym_of_jie(ts.list[p + 2].year, ts.list[p + 2].index));
    }
    let jie_day = jdn == e.day;
    let near = jdn - e.day <= 1 || (p + 2 < ts.list.len() && ts.list[p + 2].day - jdn <= 1);
    let before_lichun = exp.0 != y;
    let nt = near || before_lichun;
    if nt {
      out.nontrivial("day", &[i as i64]);
    }
    if jie_day {
      out.class("date_is_a_jie_day");
    }
    if before_lichun {
      out.class("date_between_jan1_and_lichun");
    }
    let r = guard(|| {
      let sc = sd_idx(c, i).get_sixty_cycle_day();
      (sc.get_sixty_cycle_month().get_sixty_cycle_year().get_year() as i64, sc.get_year().get_index() as i64, sc.get_month().get_index() as i64, sc.get_sixty_cycle_month().get_sixty_cycle().get_index() as i64)
    });
    let (gy, gyp, gmp, gmp2) = match r {
      Ok(x) => x,
      Err(e2) => {
        out.fail(env, viol("day", "panics", case, &k, c.fmt(i), format!("year {} {} month {}", exp.0, pillar_name(exp.1), pillar_name(exp.2)), e2));
        return;
      }
    };
    if out.wants_sample("day", nt) {
      out.sample("day", nt, || json!({"date": c.fmt(i), "governing_jie": format!("{}#{}{}", e.year, e.index, TERM_NAMES[e.index as usize]), "year": gy, "year_pillar": pillar_name(gyp), "month_pillar": pillar_name(gmp)}));
    }
    if gmp != gmp2 {
      out.fail(env, viol("day", "month_getters_disagree", case, &k, c.fmt(i), pillar_name(gmp), pillar_name(gmp2)));
    }
    if !legal_pair(gyp, gmp) {
      out.fail(env, viol("day", "illegal_year_month_pair", case, &k, c.fmt(i), "one of the 720 Five-Tigers pairs".into(), format!("{} year, {} month", pillar_name(gyp), pillar_name(gmp))));
    }
    if !alts.iter().any(|a| a.0 == gy && a.1 == gyp) {
      out.fail(env, viol("day", "year_pillar", case, &k, c.fmt(i), format!("year {} {}", exp.0, pillar_name(exp.1)), format!("year {} {}", gy, pillar_name(gyp))));
    }
    if !alts.iter().any(|a| a.2 == gmp) {
      out.fail(env, viol("day", "month_pillar", case, &k, c.fmt(i), pillar_name(exp.2), pillar_name(gmp)));
    } else if alts.len() > 1 && (gy, gyp, gmp) != exp {
      out.skip("jie_instant_within_0.6s_of_midnight");
    }
    // the month object reached from the day is the very month of its year's list: same position, same first (Jie) day,
    // and its day list contains the date (only asserted when no Jie near the date is ambiguous)
    if alts.len() == 1 && !e.ambiguous_day && c.index_of_jdn(e.day).is_some() && (exp.0 >= 1 && exp.0 <= 9997) && (jdn % 6 == 0 || (1729820..=1729900).contains(&jdn)) {
      let want_idx = ((e.index - 3) / 2).rem_euclid(12);
      match guard(|| {
        let mo = sd_idx(c, i).get_sixty_cycle_day().get_sixty_cycle_month();
        let days = mo.get_days();
        (mo.get_index_in_year() as i64, ymd(&mo.get_first_day().get_solar_day()), days.len() as i64, days.iter().any(|x| ymd(&x.get_solar_day()) == (y, m, d)))
      }) {
        Ok((gi, fd, n, has)) => {
          let efd = c.ymd(c.index_of_jdn(e.day).unwrap());
          if gi != want_idx || fd != efd || !has || !(28..=33).contains(&n) {
            out.fail(env, viol("day", "month_object_reached_from_the_day", case, &k, format!("{} .get_sixty_cycle_day().get_sixty_cycle_month()", c.fmt(i)), format!("index {} first day {} and a day list containing the date", want_idx, fmt_ymd(efd)), format!("index {} first day {} {} days, contains the date: {}", gi, fmt_ymd(fd), n, has)));
          }
        }
        Err(e2) => {
          out.fail(env, viol("day", "month_object_reached_from_the_day_panics", case, &k, c.fmt(i), "a month".into(), e2));
        }
      }
    }
  }

  fn eval_time(&self, env: &Env, out: &mut Out, case: &Case) {
    let c = cal();
    let i = case.a[0] as usize;
    let s = case.a[1].clamp(0, 86399);
    let (y, m, d) = c.ymd(i);
    let ts = ensure(y - 1, y + 1);
    out.eval("time");
    let sec = i as i64 * 86400 + s;
    let k = [("y", y), ("m", m), ("d", d), ("s", s), ("jdn", c.jdn(i))];
    let p = match ts.latest_by_sec(sec).and_then(|p| jie_at_or_before(&ts, p)) {
      Some(p) => p,
      None => {
        out.skip("instant_before_first_listed_jie");
        return;
      }
    };
    let e = ts.list[p];
    let exp = ym_of_jie(e.year, e.index);
    let mut alts = vec![exp];
    if e.ambiguous_sec && sec - e.sec <= 1 && p >= 2 {
      alts.push(ym_of_jie(ts.list[p - 2].year, ts.list[p - 2].index));
    }
    if p + 2 < ts.list.len() && ts.list[p + 2].ambiguous_sec && ts.list[p + 2].sec - sec <= 1 {
      alts.push(ym_of_jie(ts.list[p + 2].year, ts.list[p + 2].index));
    }
    let near = sec - e.sec <= 2 || (p + 2 < ts.list.len() && ts.list[p + 2].sec - sec <= 2);
    if near {
      out.nontrivial("time", &[i as i64, s]);
      out.class("instant_within_2s_of_a_jie_instant");
    }
    let jdn = c.jdn(i);
    let day_has_jie = ts.list.iter().any(|t| t.index % 2 == 1 && (t.day - jdn).abs() <= (t.ambiguous_day as i64));
    let r = guard(|| {
      let t = SolarTime::from_ymd_hms(y as isize, m as usize, d as usize, (s / 3600) as usize, (s / 60 % 60) as usize, (s % 60) as usize);
      // on every other case a day-level query about the same civil year (its mid-year day) comes first: the two views must not
      // influence each other through anything they share
      if (i as i64 + s) % 2 == 0 {
        let _ = tyme4rs::tyme::solar::SolarDay::from_ymd(y as isize, 7, 1).get_sixty_cycle_day();
        let _ = t.get_solar_day().get_sixty_cycle_day().get_year();
      }
      // on every third case the hour object is reached by stepping from 00:30 of the same civil day instead of being built
      // from the instant (an instant-level view is an instant-level view however it was obtained)
      let h = if (i as i64 + s) % 3 == 0 && s >= 1800 {
        use tyme4rs::tyme::Tyme;
        SolarTime::from_ymd_hms(y as isize, m as usize, d as usize, 0, 30, 0).get_sixty_cycle_hour().next((s - 1800) as isize)
      } else {
        t.get_sixty_cycle_hour()
      };
      let dv = if day_has_jie { None } else { Some(t.get_solar_day().get_sixty_cycle_day()) };
      (h.get_year().get_index() as i64, h.get_month().get_index() as i64, h.get_sixty_cycle_day().get_sixty_cycle_month().get_sixty_cycle_year().get_year() as i64, dv.map(|x| (x.get_year().get_index() as i64, x.get_month().get_index() as i64)))
    });
    let (gyp, gmp, gy, dv) = match r {
      Ok(x) => x,
      Err(e2) => {
        out.fail(env, viol("time", "panics", case, &k, format!("{} +{}s", c.fmt(i), s), format!("{} year {} month", pillar_name(exp.1), pillar_name(exp.2)), e2));
        return;
      }
    };
    if out.wants_sample("time", near) {
      out.sample("time", near, || json!({"instant": format!("{} {:02}:{:02}:{:02}", c.fmt(i), s / 3600, s / 60 % 60, s % 60), "seconds_after_jie": sec - e.sec, "jie": format!("{}#{}{}", e.year, e.index, TERM_NAMES[e.index as usize]), "year_pillar": pillar_name(gyp), "month_pillar": pillar_name(gmp)}));
    }
    if !legal_pair(gyp, gmp) {
      out.fail(env, viol("time", "illegal_year_month_pair", case, &k, format!("{} +{}s", c.fmt(i), s), "one of the 720 Five-Tigers pairs".into(), format!("{} year, {} month", pillar_name(gyp), pillar_name(gmp))));
    }
    if !alts.iter().any(|a| a.1 == gyp && a.0 == gy) {
      out.fail(env, viol("time", "year_pillar", case, &k, format!("{} +{}s", c.fmt(i), s), format!("year {} {}", exp.0, pillar_name(exp.1)), format!("year {} {}", gy, pillar_name(gyp))));
    }
    if !alts.iter().any(|a| a.2 == gmp) {
      out.fail(env, viol("time", "month_pillar", case, &k, format!("{} +{}s", c.fmt(i), s), pillar_name(exp.2), pillar_name(gmp)));
    }
    // the month OBJECT handed out by the instant view is the month of that position of that sexagenary year: same
    // position, and the same months when stepped (across the year's end too) as the independently constructed one
    if (2..=9996).contains(&gy) && alts.len() == 1 && alts[0].2 == gmp && alts[0].0 == gy {
      use tyme4rs::tyme::sixtycycle::SixtyCycleMonth as M;
      use tyme4rs::tyme::Tyme;
      let want_idx = (gmp % 12 - 2).rem_euclid(12);
      let desc_m = |m: &M| format!("{} of {} #{}", m, m.get_sixty_cycle_year().get_year(), m.get_index_in_year());
      let got = guard(|| {
        let t = SolarTime::from_ymd_hms(y as isize, m as usize, d as usize, (s / 3600) as usize, (s / 60 % 60) as usize, (s % 60) as usize);
        let mo = t.get_sixty_cycle_hour().get_sixty_cycle_day().get_sixty_cycle_month();
        [0isize, 1, -1, 12 - want_idx as isize, -(want_idx as isize) - 1, 14].iter().map(|n| desc_m(&mo.next(*n))).collect::<Vec<_>>()
      });
      let exp_m = guard(|| { let mo = M::from_index(gy as isize, want_idx as isize); [0isize, 1, -1, 12 - want_idx as isize, -(want_idx as isize) - 1, 14].iter().map(|n| desc_m(&mo.next(*n))).collect::<Vec<_>>() });
      if let (Ok(a), Ok(b)) = (&got, &exp_m) {
        out.class("month_object_of_the_instant_view_stepped");
        if a != b {
          out.fail(env, viol("time", "month_object_of_instant_view", case, &k, format!("{} +{}s: month object of the instant view stepped by 0, 1, -1, to the next year's first, to the previous year's last, 14", c.fmt(i), s), format!("{:?}", b), format!("{:?}", a)));
        }
      } else if let (Err(e2), Ok(b)) = (&got, &exp_m) {
        out.fail(env, viol("time", "month_object_of_instant_view_panics", case, &k, format!("{} +{}s", c.fmt(i), s), format!("{:?}", b), e2.clone()));
      }
    }
    if let Some((dy, dm)) = dv {
      out.class("time_view_compared_with_day_view_on_a_day_without_jie");
      if (dy, dm) != (gyp, gmp) {
        out.fail(env, viol("time", "time_view_vs_day_view", case, &k, format!("{} +{}s (no Jie on this day)", c.fmt(i), s), format!("day view: {} year {} month", pillar_name(dy), pillar_name(dm)), format!("{} year {} month", pillar_name(gyp), pillar_name(gmp))));
      }
    }
  }

  fn eval_months(&self, env: &Env, out: &mut Out, case: &Case) {
    let c = cal();
    let y = case.a[0];
    let ts = ensure(y, y + 1);
    out.eval("months");
    out.nontrivial("months", &[y]);
    let k = [("sy", y)];
    let sy = SixtyCycleYear::from_year(y as isize);
    let ms = sy.get_months();
    if ms.len() != 12 {
      out.fail(env, viol("months", "count", case, &k, format!("SixtyCycleYear({}).get_months()", y), "12".into(), ms.len().to_string()));
      return;
    }
    if sy.get_sixty_cycle().get_index() as i64 != year_pillar(y) {
      out.fail(env, viol("months", "year_pillar", case, &k, format!("SixtyCycleYear({})", y), pillar_name(year_pillar(y)), sy.get_sixty_cycle().to_string()));
    }
    // an index outside 0..11 carries into the neighbouring sexagenary year
    if (1..=9996).contains(&y) {
      use tyme4rs::tyme::sixtycycle::SixtyCycleMonth as M;
      for (idx, ey, ej) in [(12i64, y + 1, 0i64), (13, y + 1, 1), (-1, y - 1, 11), (-12, y - 1, 0), (25, y + 2, 1)] {
        if let (Ok(a), Ok(b)) = (guard(|| { let m = M::from_index(y as isize, idx as isize); (m.to_string(), m.get_sixty_cycle_year().get_year() as i64, m.get_index_in_year() as i64, m.get_sixty_cycle().get_index() as i64) }), guard(|| { let m = M::from_index(ey as isize, ej as isize); (m.to_string(), m.get_sixty_cycle_year().get_year() as i64, m.get_index_in_year() as i64, m.get_sixty_cycle().get_index() as i64) })) {
          if a != b || !legal_pair(year_pillar(a.1), a.3) {
            out.fail(env, viol("months", "from_index_carry", case, &[("sy", y), ("mi", idx)], format!("SixtyCycleMonth::from_index({}, {})", y, idx), format!("{:?} (= from_index({}, {}))", b, ey, ej), format!("{:?}", a)));
          }
        }
      }
    }
    for (j, mo) in ms.iter().enumerate() {
      let ti = 3 + 2 * j as i64;
      let (ty, tidx) = if ti >= 24 { (y + 1, ti - 24) } else { (y, ti) };
      let e = *ts.get(ty, tidx);
      let exp = ym_of_jie(ty, tidx);
      let gp = mo.get_sixty_cycle().get_index() as i64;
      let kk = [("sy", y), ("mi", j as i64)];
      if gp != exp.2 || exp.0 != y {
        out.fail(env, viol("months", "month_pillar", case, &kk, format!("month {} of sexagenary year {}", j, y), pillar_name(exp.2), pillar_name(gp)));
      }
      if mo.get_index_in_year() != j || mo.get_sixty_cycle_year().get_year() as i64 != y || mo.get_year().get_index() as i64 != year_pillar(y) {
        out.fail(env, viol("months", "index_or_year", case, &kk, format!("month {} of sexagenary year {}", j, y), format!("index {} year {}", j, y), format!("index {} year {}", mo.get_index_in_year(), mo.get_sixty_cycle_year().get_year())));
      }
      // the month starts on its Jie day
      if e.ambiguous_day || c.index_of_jdn(e.day).is_none() {
        out.skip("jie_day_ambiguous_or_out_of_range");
        continue;
      }
      match guard(|| ymd(&mo.get_first_day().get_solar_day())) {
        Ok(fd) => {
          if c.index(fd.0, fd.1, fd.2).map(|ix| c.jdn(ix)) != Some(e.day) {
            out.fail(env, viol("months", "first_day", case, &kk, format!("month {} of sexagenary year {}", j, y), c.fmt(c.index_of_jdn(e.day).unwrap()), fmt_ymd(fd)));
          }
        }
        Err(e2) => {
          out.fail(env, viol("months", "first_day_panics", case, &kk, format!("month {} of sexagenary year {}", j, y), c.fmt(c.index_of_jdn(e.day).unwrap()), e2));
        }
      }
      // stepping inside the list
      if j + 1 < 12 {
        let nx = mo.next(1);
        if nx.get_sixty_cycle().get_index() != ms[j + 1].get_sixty_cycle().get_index() || nx.get_sixty_cycle_year().get_year() as i64 != y {
          out.fail(env, viol("months", "next1", case, &kk, format!("month {} of sexagenary year {} .next(1)", j, y), ms[j + 1].to_string(), nx.to_string()));
        }
        // ... and the stepped month (whose source has just been asked for its first day) is the constructed one in every view
        if let Ok((a, b)) = guard(|| {
          let fresh = tyme4rs::tyme::sixtycycle::SixtyCycleMonth::from_index(y as isize, j as isize + 1);
          let full = j % 4 == (y % 4) as usize;
          ((nx.get_index_in_year(), ymd(&nx.get_first_day().get_solar_day()), if full { nx.get_days().len() } else { 0 }), (fresh.get_index_in_year(), ymd(&fresh.get_first_day().get_solar_day()), if full { fresh.get_days().len() } else { 0 }))
        }) {
          if a != b {
            out.fail(env, viol("months", "stepped_month_differs_from_constructed", case, &kk, format!("month {} of sexagenary year {} .next(1) after get_first_day()", j, y), format!("index {} first day {} {} days", b.0, fmt_ymd(b.1), b.2), format!("index {} first day {} {} days", a.0, fmt_ymd(a.1), a.2)));
          }
        }
      }
    }
    let fm = sy.get_first_month();
    if fm.get_sixty_cycle().get_index() != ms[0].get_sixty_cycle().get_index() || fm.get_sixty_cycle().get_index() as i64 % 12 != 2 {
      out.fail(env, viol("months", "first_month", case, &k, format!("SixtyCycleYear({}).get_first_month()", y), ms[0].to_string(), fm.to_string()));
    }
  }
}

impl Prop for C08 {
  fn id(&self) -> &'static str {
    "C08"
  }
  fn meta(&self, env: &Env) -> Meta {
    Meta {
      rule: format!("Generators: (a) `day`: {}: SolarDay::get_sixty_cycle_day year number, year pillar and month pillar == those of the governing Jie (latest odd-index term whose civil day <= date): year = term year (term year-1 before Lichun), pillar (year-4) mod 60, month branch from the Jie, month stem by Five Tigers; only legal pairs; (b) `time`: {} plus proptest instants: SolarTime::get_sixty_cycle_hour year/month == those of the latest Jie instant <= t (second resolution), and == the day view on days without a Jie; (c) `months`: {}: 12 months, pillars, index, first day == Jie day, next(1). Non-trivial: dates within 1 day of a Jie day and dates between Jan 1 and Lichun; instants within 2 s of a Jie instant; every sexagenary year. Distinct = distinct inputs.", env.tier.pick("every date of ~1100 stratified years (every 10th + special years) and the day before/of/after every Jie of every year 1..9998", "every civil date 0001-01-01..9998-12-31 (exhaustive)"), env.tier.pick("the second before/at/after every Jie instant of every 10th year", "the second before/at/after every Jie instant of every year"), env.tier.pick("every 5th sexagenary year 1..9998", "every sexagenary year 1..9998")),
      assumptions: vec![
        "Jie days/instants are the library's own term instants (C05/C06 judge them); the pillar rules are written from the property statement with plain integers".into(),
        "When a Jie instant lies within 0.6 s of midnight (2 ms of a half second for the time view) either month is accepted".into(),
      ],
      level_text: String::new(),
    }
  }
  fn plan(&self, _env: &Env) -> Vec<TaskSpec> {
    vec![task("days", 16), task("times", 16), task("months", 8)]
  }
  fn run(&self, env: &Env, t: &str, shard: usize, nshards: usize, out: &mut Out) {
    let ev = |e: &Env, o: &mut Out, s: &str, cs: &Case| self.eval(e, o, s, cs);
    let c = cal();
    let (ylo, yhi) = shard_range(9998, shard, nshards);
    let (ylo, yhi) = (ylo as i64 + 1, yhi as i64);
    let sel = |y: i64, step: i64| env.tier == Tier::Thorough || y % step == (env.seed % step as u64) as i64 || SPECIAL_YEARS.contains(&y);
    match t {
      "days" => {
        // route equivalence of the objects this property reads (see routes.rs)
        prop_run(env, out, "routes", env.tier.pick(1600, 64000) / nshards as u32, 8800 + shard as u64, crate::routes::date_strategy(), &ev);
        out.set_exhaustive("routes", false);
        prop_run(env, out, "hroutes", env.tier.pick(1600, 64000) / nshards as u32, 8900 + shard as u64, crate::routes::hour_strategy(), &ev);
        out.set_exhaustive("hroutes", false);
        // strided walks on fresh threads (see engine::stride_walks)
        stride_walks(env, out, "day", env.tier.pick(1600, 48000) / nshards as u32, 7000 + shard as u64, 0, (crate::model::NDAYS as i64) - 366, 800, &|x| vec![x], &ev);
        stride_walks(env, out, "time", env.tier.pick(800, 24000) / nshards as u32, 7100 + shard as u64, 0, (crate::model::NDAYS as i64) - 366, 800, &|x| vec![x, (x * 7919).rem_euclid(86400)], &ev);
        let ts = ensure(ylo - 1, yhi + 1);
        let mut rev = Reverse::new(6);
        for y in ylo..=yhi {
          if sel(y, 10) {
            for i in c.year_start[y as usize] as usize..c.year_start[y as usize + 1] as usize {
              run_case(env, out, "day", &Case::ints(&[i as i64]), &ev);
              rev.note("day", &Case::ints(&[i as i64]));
            }
          } else {
            for ti in (1..24).step_by(2) {
              let e = *ts.get(y, ti);
              for dd in -1..=1i64 {
                if let Some(ix) = c.index_of_jdn(e.day + dd) {
                  run_case(env, out, "day", &Case::ints(&[ix as i64]), &ev);
                  rev.note("day", &Case::ints(&[ix as i64]));
                }
              }
            }
          }
        }
        rev.run(env, out, &ev);
        out.set_exhaustive("day", env.tier == Tier::Thorough);
      }
      "times" => {
        let ts = ensure(ylo - 1, yhi + 1);
        for y in ylo..=yhi {
          if !sel(y, 10) {
            continue;
          }
          for ti in (1..24).step_by(2) {
            let e = *ts.get(y, ti);
            for ds in [-1i64, 0, 1] {
              let sec = e.sec + ds;
              let di = sec.div_euclid(86400);
              if di >= 0 && (di as usize) < NDAYS {
                run_case(env, out, "time", &Case::ints(&[di, sec.rem_euclid(86400)]), &ev);
              }
            }
          }
        }
        // the last hour of the civil year and the first of the next (the late-Zi roll meets the December wrap of the month base)
        for y in ylo..=yhi {
          if !sel(y, 10) {
            continue;
          }
          if let Some(ix) = c.index(y, 12, 31) {
            for sec in [82800i64, 84600, 86399] {
              out.class("instants_in_the_last_hour_of_a_civil_year");
              run_case(env, out, "time", &Case::ints(&[ix as i64, sec]), &ev);
            }
            if ix + 1 < NDAYS {
              run_case(env, out, "time", &Case::ints(&[ix as i64 + 1, 1800]), &ev);
            }
          }
        }
        // the year pillar turns at the Lichun instant of EVERY year (both tiers): the second before, the second itself,
        // the second after
        for y in ylo..=yhi {
          let e = *ts.get(y, 3);
          for ds in [-1i64, 0, 1] {
            let sec = e.sec + ds;
            let di = sec.div_euclid(86400);
            if di >= 0 && (di as usize) < NDAYS {
              out.class("instants_around_the_lichun_of_every_year");
              run_case(env, out, "time", &Case::ints(&[di, sec.rem_euclid(86400)]), &ev);
            }
          }
        }
        let total: u32 = env.tier.pick(24_000, 640_000);
        let hi_idx = c.year_start[9999] as i64;
        prop_run(env, out, "time", total / nshards as u32, shard as u64, (0..hi_idx, 0i64..86400).prop_map(|(i, s)| Case::ints(&[i, s])), &ev);
        out.set_exhaustive("time", false);
      }
      "months" => {
        let mut rev = Reverse::new(2);
        for y in ylo..=yhi {
          if sel(y, 5) {
            run_case(env, out, "months", &Case::ints(&[y]), &ev);
            rev.note("months", &Case::ints(&[y]));
          }
        }
        rev.run(env, out, &ev);
        out.set_exhaustive("months", env.tier == Tier::Thorough);
      }
      _ => panic!("unknown task {}", t),
    }
  }
  fn cold_subs(&self) -> Vec<(&'static str, i64, i64, fn(i64) -> Vec<i64>)> {
    vec![("day", 0, crate::model::NDAYS as i64 - 366, |x| vec![x]), ("time", 0, crate::model::NDAYS as i64 - 366, |x| vec![x, (x * 7919).rem_euclid(86400)])]
  }
  fn eval(&self, env: &Env, out: &mut Out, sub: &str, case: &Case) {
    match sub {
      "day" => self.eval_day(env, out, case),
      "time" => self.eval_time(env, out, case),
      "months" => self.eval_months(env, out, case),
      "routes" => crate::routes::compare_day_routes(env, out, "routes", case, (case.a[0].clamp(0, crate::model::NDAYS as i64 - 1)) as usize, &crate::routes::fields_c08),
      "hroutes" => crate::routes::compare_hour_routes(env, out, "hroutes", case, (case.a[0].clamp(0, crate::model::NDAYS as i64 - 1)) as usize, case.a.get(1).cloned().unwrap_or(10), &crate::routes::hour_fields_c08),
      _ => panic!("unknown sub-check {}", sub),
    }
  }
}
