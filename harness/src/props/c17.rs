//! C17 Daily and hourly almanac cycles obey their defining recurrences

use crate::adapt::*;
use crate::engine::*;
use crate::lunmodel::*;
use crate::model::*;
use crate::props::c08::ym_of_jie;
use crate::terms::*;
use proptest::prelude::*;
use serde_json::json;
use tyme4rs::tyme::lunar::{LunarDay, LunarMonth, LunarYear};
use tyme4rs::tyme::sixtycycle::{SixtyCycleMonth, SixtyCycleYear};
use tyme4rs::tyme::solar::SolarTime;

pub struct C17;

fn viol(sub: &str, kind: &str, case: &Case, k: &[(&str, i64)], desc: String, expected: String, got: String) -> Viol {
  Viol { sub: sub.into(), kind: kind.into(), case: case.clone(), key: key(k), desc, expected, got }
}

/// branch at which the Azure Dragon starts for a given month (or day) branch
fn dragon_start(b: i64) -> i64 {
  ((b - 2).rem_euclid(6)) * 2
}

/// offset from a solstice day to the nearest Jiazi day (both candidates when the pillar index is exactly 30)
fn jiazi_offsets(p: i64) -> Vec<i64> {
  if p == 30 {
    vec![30, -30]
  } else if p > 29 {
    vec![60 - p]
  } else {
    vec![-p]
  }
}

const NINE: [&str; 9] = ["一白", "二黑", "三碧", "四绿", "五黄", "六白", "七赤", "八白", "九紫"];

/// acceptable day nine-star indices for jdn in civil year y
fn day_nine_star(ts: &Terms, y: i64, jdn: i64) -> (Vec<i64>, bool) {
  let ws1 = ts.get(y, 0);
  let ss = ts.get(y, 12);
  let ws2 = ts.get(y + 1, 0);
  let ssp = ts.get(y - 1, 12);
  let amb = ws1.ambiguous_day || ss.ambiguous_day || ws2.ambiguous_day || ssp.ambiguous_day;
  let mut res = vec![];
  for o1 in jiazi_offsets(day_pillar(ws1.day)) {
    for o2 in jiazi_offsets(day_pillar(ss.day)) {
      for o3 in jiazi_offsets(day_pillar(ws2.day)) {
        for o0 in jiazi_offsets(day_pillar(ssp.day)) {
          let (a1, d, a2, d0) = (ws1.day + o1, ss.day + o2, ws2.day + o3, ssp.day + o0);
          let v = if jdn >= a2 {
            (jdn - a2).rem_euclid(9)
          } else if jdn >= d {
            (8 - (jdn - d)).rem_euclid(9)
          } else if jdn >= a1 {
            (jdn - a1).rem_euclid(9)
          } else {
            (8 - (jdn - d0)).rem_euclid(9)
          };
          if !res.contains(&v) {
            res.push(v);
          }
        }
      }
    }
  }
  (res, amb)
}

impl C17 {
  /// a = [date index]: duty, twelve spirits, mansions, six-day star, phase, day nine star
  fn eval_day(&self, env: &Env, out: &mut Out, case: &Case) {
    let c = cal();
    let i = case.a[0] as usize;
    let (y, m, d) = c.ymd(i);
    let jdn = c.jdn(i);
    let ts = ensure(y - 1, y + 1);
    let p = match ts.latest_by_day(jdn) {
      Some(p) if p >= 1 => p,
      _ => {
        out.skip("date_before_first_listed_jie");
        return;
      }
    };
    let pj = if ts.list[p].index % 2 == 1 { p } else { p - 1 };
    let jie = ts.list[pj];
    let amb_month = (jie.ambiguous_day && jdn - jie.day <= 1) || (pj + 2 < ts.list.len() && ts.list[pj + 2].ambiguous_day && ts.list[pj + 2].day - jdn <= 1);
    out.eval("day");
    let k = [("y", y), ("m", m), ("d", d), ("jdn", jdn)];
    let dp = day_pillar(jdn);
    let db = dp % 12;
    let mb = ym_of_jie(jie.year, jie.index).2 % 12;
    let e_duty = (db - mb).rem_euclid(12);
    let e_twelve = (db - dragon_start(mb)).rem_euclid(12);
    let (e_nine, amb_nine) = day_nine_star(&ts, y, jdn);
    let ss = ts.get(y, 12);
    let ws2 = ts.get(y + 1, 0);
    let ws1 = ts.get(y, 0);
    let near_solstice = (jdn - ss.day).abs() <= 30 || (jdn - ws2.day).abs() <= 30 || (jdn - ws1.day).abs() <= 30;
    let s = sd_idx(c, i);
    // a = [date index, k, read]: the two day objects are reached by stepping k days from date-k (after that day's views
    // were read, if read == 1) instead of being constructed for the date itself
    let stepped = case.a.len() >= 3 && case.a[1] != 0;
    let (kstep, read_first) = if stepped { (case.a[1], case.a[2] == 1) } else { (0, false) };
    if stepped {
      let src = i as i64 - kstep;
      if src < 0 || src >= NDAYS as i64 {
        out.skip("stepping_source_outside_range");
        return;
      }
      if (1729853..=1729882).contains(&c.jdn(src as usize)) {
        out.skip("stepping_source_has_no_lunar_date_(KF-C02-hole-0024)");
        return;
      }
      out.class(if read_first { "day_objects_reached_by_stepping_after_reads" } else { "day_objects_reached_by_stepping" });
    }
    let r = guard(|| {
      use tyme4rs::tyme::Tyme;
      let (sc, l) = if stepped {
        let s0 = sd_idx(c, (i as i64 - kstep) as usize);
        let (sc0, l0) = (s0.get_sixty_cycle_day(), s0.get_lunar_day());
        if read_first {
          let _ = (sc0.get_duty(), sc0.get_twelve_star(), sc0.get_twenty_eight_star(), l0.get_duty(), l0.get_twelve_star(), l0.get_six_star(), l0.get_twenty_eight_star(), l0.get_sixty_cycle(), l0.get_solar_day());
          let _ = guard(|| (sc0.get_nine_star(), l0.get_nine_star()));
        }
        (sc0.next(kstep as isize), l0.next(kstep as isize))
      } else {
        (s.get_sixty_cycle_day(), s.get_lunar_day())
      };
      let m28 = sc.get_twenty_eight_star();
      let l28 = l.get_twenty_eight_star();
      (
        sc.get_duty().get_index() as i64,
        sc.get_twelve_star().get_index() as i64,
        m28.get_index() as i64,
        m28.get_seven_star().get_index() as i64,
        l28.get_index() as i64,
        guard(|| (sc.get_nine_star().get_index() as i64, l.get_nine_star().get_index() as i64)),
        l.get_six_star().get_index() as i64,
        l.get_phase().get_index() as i64,
        lymd(&l),
        l.get_duty().get_index() as i64,
        l.get_twelve_star().get_index() as i64,
      )
    });
    let (duty, twelve, m28, seven, l28, nines, six, phase, ld, lduty, ltwelve) = match r {
      Ok(x) => x,
      Err(e) => {
        out.fail(env, viol("day", "panics", case, &k, c.fmt(i), "almanac values".into(), e));
        return;
      }
    };
    let (nine, lnine) = match nines {
      Ok(x) => x,
      Err(e) => {
        out.fail(env, viol("day", "day_nine_star_panics", case, &k, c.fmt(i), format!("{:?}", e_nine.iter().map(|x| NINE[*x as usize]).collect::<Vec<_>>()), e));
        (e_nine[0], e_nine[0])
      }
    };
    let leap = ld.1 < 0;
    let nt = leap || near_solstice || jdn >= ws2.day;
    if nt {
      out.nontrivial("day", &[i as i64]);
    }
    if leap {
      out.class("leap_month_day");
    }
    if jdn >= ws2.day {
      out.class("date_between_december_solstice_and_dec_31");
    }
    if out.wants_sample("day", nt) {
      out.sample("day", nt, || json!({"date": c.fmt(i), "lunar": [ld.0, ld.1, ld.2], "duty": duty, "twelve_star": twelve, "mansion": m28, "six_star": six, "day_nine_star": NINE[nine as usize]}));
    }
    if (duty != e_duty || lduty != e_duty) && !amb_month {
      out.fail(env, viol("day", "duty", case, &k, c.fmt(i), format!("{} (day branch {} month branch {})", e_duty, BRANCHES[db as usize], BRANCHES[mb as usize]), format!("{} / lunar-day route {}", duty, lduty)));
    }
    if (twelve != e_twelve || ltwelve != e_twelve) && !amb_month {
      out.fail(env, viol("day", "twelve_star", case, &k, c.fmt(i), format!("{}", e_twelve), format!("{} / lunar-day route {}", twelve, ltwelve)));
    }
    if amb_month && (duty != e_duty || twelve != e_twelve) {
      out.skip("jie_instant_within_0.6s_of_midnight");
    }
    // mansion: luminary == weekday, both routes agree, advances by one per day
    if seven != weekday(jdn) || m28 % 7 != (weekday(jdn) - 4).rem_euclid(7) {
      out.fail(env, viol("day", "mansion_luminary", case, &k, c.fmt(i), format!("luminary index {} (weekday)", weekday(jdn)), format!("mansion {} luminary {}", m28, seven)));
    }
    if l28 != m28 {
      out.fail(env, viol("day", "mansion_routes", case, &k, c.fmt(i), m28.to_string(), l28.to_string()));
    }
    if i > 0 {
      if let Ok(prev) = guard(|| sd_idx(c, i - 1).get_sixty_cycle_day().get_twenty_eight_star().get_index() as i64) {
        if (prev + 1) % 28 != m28 {
          out.fail(env, viol("day", "mansion_step", case, &k, c.fmt(i), format!("{} (previous day {} + 1)", (prev + 1) % 28, prev), m28.to_string()));
        }
      }
    }
    // six-day star and phase from the lunar date
    let e_six = (ld.1.abs() + ld.2 - 2).rem_euclid(6);
    if six != e_six {
      out.fail(env, viol("day", "six_star", case, &k, format!("{} = L({},{},{})", c.fmt(i), ld.0, ld.1, ld.2), e_six.to_string(), six.to_string()));
    }
    if phase != ld.2 - 1 {
      out.fail(env, viol("day", "phase", case, &k, format!("{} = L({},{},{})", c.fmt(i), ld.0, ld.1, ld.2), (ld.2 - 1).to_string(), phase.to_string()));
    }
    // day nine star, both routes
    if !e_nine.contains(&nine) || !e_nine.contains(&lnine) {
      if amb_nine {
        out.skip("solstice_instant_within_0.6s_of_midnight");
      } else {
        out.fail(env, viol("day", "day_nine_star", case, &k, c.fmt(i), format!("{:?}", e_nine.iter().map(|x| NINE[*x as usize]).collect::<Vec<_>>()), format!("{} / lunar-day route {}", NINE[nine as usize], NINE[lnine as usize])));
      }
    }
  }

  /// a = [ly, lm, ld]: six-day star of a directly constructed lunar date
  fn eval_six(&self, env: &Env, out: &mut Out, case: &Case) {
    let (y, m, d) = (case.a[0], case.a[1], case.a[2]);
    out.eval("six");
    if m < 0 {
      out.nontrivial("six", &[y, m, d]);
    }
    let l = LunarDay::from_ymd(y as isize, m as isize, d as usize);
    let e = (m.abs() + d - 2).rem_euclid(6);
    let g = l.get_six_star().get_index() as i64;
    if out.wants_sample("six", m < 0) {
      out.sample("six", m < 0, || json!({"lunar": [y, m, d], "six_star": g}));
    }
    if g != e {
      out.fail(env, viol("six", "six_star", case, &[("ly", y), ("lm", m), ("ld", d)], format!("L({},{},{})", y, m, d), e.to_string(), g.to_string()));
    }
    if l.get_phase().get_index() as i64 != d - 1 {
      out.fail(env, viol("six", "phase", case, &[("ly", y), ("lm", m), ("ld", d)], format!("L({},{},{})", y, m, d), (d - 1).to_string(), l.get_phase().get_index().to_string()));
    }
    // minor Ren: the month starts at (month number - 1) mod 6 (a leap month uses its own number), the day counts on from the month
    let em = (m.abs() - 1).rem_euclid(6);
    let ed = (em + d - 1).rem_euclid(6);
    let gm = l.get_lunar_month().get_minor_ren().get_index() as i64;
    let gd = l.get_minor_ren().get_index() as i64;
    if gm != em || gd != ed {
      out.fail(env, viol("six", "minor_ren", case, &[("ly", y), ("lm", m), ("ld", d)], format!("L({},{},{})", y, m, d), format!("month {} day {}", em, ed), format!("month {} day {}", gm, gd)));
    }
  }

  /// a = [date index, hour]: hour twelve spirits and hour nine star on both views
  fn eval_hour(&self, env: &Env, out: &mut Out, case: &Case) {
    let c = cal();
    let i = case.a[0] as usize;
    let h = case.a[1].clamp(0, 23);
    let (y, m, d) = c.ymd(i);
    let jdn = c.jdn(i);
    let ts = ensure(y - 1, y + 1);
    out.eval("hour");
    let k = [("y", y), ("m", m), ("d", d), ("h", h), ("jdn", jdn)];
    let dp = day_pillar(jdn);
    let rolled = if h >= 23 { (dp + 1) % 60 } else { dp };
    let hb = hour_branch(h);
    let ws1 = ts.get(y, 0);
    let ss = ts.get(y, 12);
    let ws2 = ts.get(y + 1, 0);
    let amb = ws1.ambiguous_day || ss.ambiguous_day || ws2.ambiguous_day;
    let asc = (jdn >= ws1.day && jdn < ss.day) || jdn >= ws2.day;
    let start = |branch: i64| -> i64 {
      let g = [8i64, 5, 2][(branch % 3) as usize];
      if asc {
        8 - g
      } else {
        g
      }
    };
    let nine_for = |branch: i64| -> i64 { (start(branch) + if asc { hb } else { -hb }).rem_euclid(9) };
    let e_twelve = (hb - dragon_start(rolled % 12)).rem_euclid(12);
    let nt = h == 23 || jdn >= ws2.day || (jdn - ss.day).abs() <= 1 || (jdn - ws1.day).abs() <= 1;
    if nt {
      out.nontrivial("hour", &[i as i64, h]);
    }
    if jdn >= ws2.day {
      out.class("hour_between_december_solstice_and_dec_31");
    }
    if h == 23 {
      out.class("hour_23");
    }
    let t = SolarTime::from_ymd_hms(y as isize, m as usize, d as usize, h as usize, 0, 0);
    // a[2] == 1: the two hour objects are taken from the hour lists of the day (SixtyCycleDay::get_hours /
    // LunarDay::get_hours) instead of being constructed from the instant
    // (slot 0 of the sexagenary list is 23:00 of the previous civil day, i.e. another instant: hours 1..22 only)
    let listed = case.a.get(2).cloned().unwrap_or(0) == 1 && (1..23).contains(&h);
    if listed {
      out.class("hour_objects_taken_from_the_day_lists");
    }
    let r = guard(|| {
      let (sh, lh) = if listed {
        let day = sd_idx(c, i);
        (day.get_sixty_cycle_day().get_hours()[((h + 1) / 2) as usize].clone(), day.get_lunar_day().get_hours()[((h + 1) / 2) as usize].clone())
      } else {
        (t.get_sixty_cycle_hour(), t.get_lunar_hour())
      };
      let ld = lh.get_lunar_day();
      (guard(|| (sh.get_nine_star().get_index() as i64, lh.get_nine_star().get_index() as i64)), sh.get_twelve_star().get_index() as i64, lh.get_twelve_star().get_index() as i64, (lh.get_minor_ren().get_index() as i64, ld.get_month() as i64, ld.get_day() as i64))
    });
    let (sln, st, lt, (mr, lmo, lda)) = match r {
      Ok(x) => x,
      Err(e) => {
        out.fail(env, viol("hour", "panics", case, &k, format!("{} {:02}:00", c.fmt(i), h), "hour almanac values".into(), e));
        return;
      }
    };
    let e_s = nine_for(rolled % 12);
    let (sn, ln) = match sln {
      Ok(x) => x,
      Err(e) => {
        out.fail(env, viol("hour", "hour_nine_star_panics", case, &k, format!("{} {:02}:00", c.fmt(i), h), NINE[e_s as usize].into(), e));
        (e_s, e_s)
      }
    };
    if out.wants_sample("hour", nt) {
      out.sample("hour", nt, || json!({"instant": format!("{} {:02}:00", c.fmt(i), h), "ascending": asc, "hour_nine_star": NINE[sn as usize], "hour_twelve_star": st}));
    }
    // hour minor Ren: counts on from the lunar day's value by the double-hour index (子 = 0)
    let e_mr = ((lmo.abs() - 1) + (lda - 1) + (h + 1) / 2).rem_euclid(6);
    if mr != e_mr {
      out.fail(env, viol("hour", "hour_minor_ren", case, &k, format!("{} {:02}:00 = lunar month {} day {}", c.fmt(i), h, lmo, lda), e_mr.to_string(), mr.to_string()));
    }
    if st != e_twelve || lt != e_twelve {
      out.fail(env, viol("hour", "hour_twelve_star", case, &k, format!("{} {:02}:00", c.fmt(i), h), e_twelve.to_string(), format!("instant view {} lunar-hour view {}", st, lt)));
    }
    // instant view uses the rolled day pillar; the lunar-hour view may use either at hour 23 (DESIGN 3.4)
    let e_l = [nine_for(rolled % 12), nine_for(dp % 12)];
    if sn != e_s || !e_l.contains(&ln) {
      if amb && ((jdn - ws1.day).abs() <= 1 || (jdn - ss.day).abs() <= 1 || (jdn - ws2.day).abs() <= 1) {
        out.skip("solstice_instant_within_0.6s_of_midnight");
      } else {
        out.fail(env, viol("hour", "hour_nine_star", case, &k, format!("{} {:02}:00 ({})", c.fmt(i), h, if asc { "ascending half" } else { "descending half" }), NINE[e_s as usize].into(), format!("instant view {} lunar-hour view {}", NINE[sn as usize], NINE[ln as usize])));
      }
    }
  }

  /// a = [year]: year nine star; month nine stars of the sexagenary year and the lunar year
  fn eval_year(&self, env: &Env, out: &mut Out, case: &Case) {
    let y = case.a[0];
    out.eval("year");
    out.nontrivial("year", &[y]);
    let k = [("sy", y)];
    // once per run: which of the twelve spirits are Yellow-path (auspicious) and which Black-path, by name
    if y == 2000 {
      use tyme4rs::tyme::culture::star::twelve::TwelveStar;
      use tyme4rs::tyme::Culture;
      let yellow = ["青龙", "明堂", "金匮", "天德", "玉堂", "司命"];
      let order = ["青龙", "明堂", "天刑", "朱雀", "金匮", "天德", "白虎", "玉堂", "天牢", "玄武", "司命", "勾陈"];
      for (i, nm) in order.iter().enumerate() {
        let s = TwelveStar::from_index(i as isize);
        let want = if yellow.contains(nm) { ("黄道", "吉") } else { ("黑道", "凶") };
        let got = (s.get_ecliptic().get_name(), s.get_ecliptic().get_luck().get_name());
        if s.get_name() != *nm || got.0 != want.0 || got.1 != want.1 {
          out.fail(env, viol("year", "yellow_black_path_class", case, &[("spirit", i as i64)], format!("twelve spirit #{} {}", i, nm), format!("{} {} {}", nm, want.0, want.1), format!("{} {} {}", s.get_name(), got.0, got.1)));
        }
      }
    }
    let e = (1864 - y).rem_euclid(9);
    let ly = LunarYear::from_year(y as isize).get_nine_star().get_index() as i64;
    let sy = SixtyCycleYear::from_year(y as isize).get_nine_star().get_index() as i64;
    if out.wants_sample("year", true) {
      out.sample("year", true, || json!({"year": y, "year_nine_star": NINE[sy as usize]}));
    }
    if ly != e || sy != e {
      out.fail(env, viol("year", "year_nine_star", case, &k, format!("year {}", y), NINE[e as usize].into(), format!("lunar {} sexagenary {}", NINE[ly as usize], NINE[sy as usize])));
    }
    // months of the sexagenary year: start by year-branch group at the Yin month, descending
    let yb = year_pillar(y) % 12;
    let start = match yb % 3 {
      0 => 7, // 子午卯酉 -> 八白
      1 => 4, // 辰戌丑未 -> 五黄
      _ => 1, // 寅申巳亥 -> 二黑
    };
    if y >= 0 {
      for j in 0..12i64 {
        let mo = SixtyCycleMonth::from_index(y as isize, j as isize);
        let g = mo.get_nine_star().get_index() as i64;
        let em = (start - j).rem_euclid(9);
        if g != em {
          out.fail(env, viol("year", "month_nine_star", case, &[("sy", y), ("mi", j)], format!("month {} of sexagenary year {}", j, y), NINE[em as usize].into(), NINE[g as usize].into()));
        }
      }
      // lunar months: same rule on the month's own pillar branch
      for m in lunlist().months_of(y) {
        let lm = LunarMonth::from_ym(y as isize, m as isize);
        let b = lm.get_sixty_cycle().get_index() as i64 % 12;
        let j = (b - 2).rem_euclid(12);
        let em = (start - j).rem_euclid(9);
        let g = lm.get_nine_star().get_index() as i64;
        if g != em {
          out.fail(env, viol("year", "lunar_month_nine_star", case, &[("sy", y), ("lm", m)], format!("L({},{})", y, m), NINE[em as usize].into(), NINE[g as usize].into()));
        }
      }
    }
  }
}

impl Prop for C17 {
  fn id(&self) -> &'static str {
    "C17"
  }
  fn meta(&self, env: &Env) -> Meta {
    Meta {
      rule: format!("Oracle from (JDN+49) mod 60, the library's Jie/solstice days and the lunar date: duty = (day branch - Jie-month branch) mod 12; twelve spirits = (branch - start(month or day branch)) mod 12 with start 寅申→子 卯酉→寅 辰戌→辰 巳亥→午 子午→申 丑未→戌; mansion luminary == weekday, both routes equal, +1 per day; six-day star = (|month|+day-2) mod 6; phase = day-1; minor Ren = (|month|-1) mod 6 for the month, + day-1 for the day, + double-hour index for the hour; year nine star = (1864-y) mod 9; month nine star 八白/五黄/二黑 at the Yin month by year-branch group, descending; day nine star ascending from the Jiazi day nearest the winter solstice, descending from the one nearest the summer solstice (both accepted on a tie); hour nine star ascending from the winter-solstice day / descending from the summer-solstice day from 一白·四绿·七赤 / 九紫·六白·三碧 by day-branch group. Generators: `day`: {}; `six`: every day of every leap month of every leap year (and its regular twin); `hour`: {}; `year`: every year -1..9999 with its 12 sexagenary months and its lunar months. Non-trivial: leap-month days, days within 30 days of a solstice, days between the December solstice and Dec 31, hour 23, every year.", env.tier.pick("every date of ~230 stratified years (every 50th + special years) and all dates Dec 15..Jan 15 and Jun 15..Jul 15 of every 10th year", "every civil date 0001-01-01..9998-12-31"), env.tier.pick("all 24 hours of 2,000 proptest days plus all days Dec 18..31 of every 40th year", "all 24 hours of 40,000 proptest days plus all days Dec 18..31 of every 4th year")),
      assumptions: vec![
        "Jie and solstice days are the library's own; the sexagenary month branch comes from the C08 oracle, not from the library's month object".into(),
        "At hour 23 the lunar-hour view may use the lunar day's own pillar or the next day's (DESIGN 3.4); the instant view must use the next day's".into(),
        "Mansions are checked by recurrence and luminary==weekday (no external anchor date)".into(),
      ],
      level_text: String::new(),
    }
  }
  fn plan(&self, _env: &Env) -> Vec<TaskSpec> {
    vec![task("days", 32), task("six", 8), task("hours", 16), task("years", 4)]
  }
  fn run(&self, env: &Env, t: &str, shard: usize, nshards: usize, out: &mut Out) {
    let ev = |e: &Env, o: &mut Out, s: &str, cs: &Case| self.eval(e, o, s, cs);
    let c = cal();
    match t {
      "days" => {
        // route equivalence of the objects this property reads (see routes.rs)
        prop_run(env, out, "routes", env.tier.pick(1600, 64000) / nshards as u32, 8800 + shard as u64, crate::routes::date_strategy(), &ev);
        out.set_exhaustive("routes", false);
        prop_run(env, out, "hroutes", env.tier.pick(1600, 64000) / nshards as u32, 8900 + shard as u64, crate::routes::hour_strategy(), &ev);
        out.set_exhaustive("hroutes", false);
        // strided walks on fresh threads (see engine::stride_walks)
        stride_walks(env, out, "day", env.tier.pick(1600, 48000) / nshards as u32, 7000 + shard as u64, 0, (crate::model::NDAYS as i64) - 366, 800, &|x| vec![x], &ev);
        stride_walks(env, out, "hour", env.tier.pick(800, 24000) / nshards as u32, 7100 + shard as u64, 0, (crate::model::NDAYS as i64) - 366, 800, &|x| vec![x, (x * 5).rem_euclid(24)], &ev);
        // hour objects taken from the day's hour lists: solstice days +-1 of every year of the shard, and proptest
        {
          let (ylo, yhi) = shard_range(9996, shard, nshards);
          for y in (ylo as i64 + 2..=yhi as i64 + 1).filter(|y| env.tier == Tier::Thorough || y % 9 == (env.seed % 9) as i64 || SPECIAL_YEARS.contains(y)) {
            let ts = ensure(y - 1, y + 1);
            for ti in [0i64, 12] {
              if let Some(ix) = c.index_of_jdn(ts.get(y, ti).day) {
                for dd in [-1i64, 0, 1] {
                  for h in [1i64, 2, 7, 13, 22] {
                    run_case(env, out, "hour", &Case::ints(&[ix as i64 + dd, h, 1]), &ev);
                  }
                }
              }
            }
          }
          let hi = NDAYS as i64 - 366;
          prop_run(env, out, "hour", env.tier.pick(8_000, 240_000) / nshards as u32, 7300 + shard as u64, (400i64..hi, 0i64..23).prop_map(|(i, h)| Case::ints(&[i, h, 1])), &ev);
        }
        // day objects reached by stepping (half of them after the source day's memoised views were read)
        {
          let hi = NDAYS as i64 - 366;
          let strat = (0i64..hi, prop_oneof![3 => 1i64..=3, 2 => 4i64..=45, 1 => 46i64..=400], proptest::bool::ANY, 0i64..2).prop_map(|(i, k, neg, r)| Case::ints(&[i, if neg { -k } else { k }, r]));
          prop_run(env, out, "day", env.tier.pick(16_000, 480_000) / nshards as u32, 7200 + shard as u64, strat, &ev);
        }
        let (ylo, yhi) = shard_range(9998, shard, nshards);
        let (ylo, yhi) = (ylo as i64 + 1, yhi as i64);
        ensure((ylo - 1).max(0), yhi + 1);
        let mut rev = Reverse::new(3);
        for y in ylo..=yhi {
          let full = env.tier == Tier::Thorough || y % 50 == (env.seed % 50) as i64 || SPECIAL_YEARS.contains(&y);
          let ys = c.year_start[y as usize] as usize;
          let ye = c.year_start[y as usize + 1] as usize;
          if full {
            for i in ys..ye {
              run_case(env, out, "day", &Case::ints(&[i as i64]), &ev);
              rev.note("day", &Case::ints(&[i as i64]));
            }
          } else if y % 10 == (env.seed % 10) as i64 {
            for i in ys..ye {
              let (_, m, d) = c.ymd(i);
              if (m == 12 && d >= 15) || (m == 1 && d <= 15) || (m == 6 && d >= 15) || (m == 7 && d <= 15) {
                run_case(env, out, "day", &Case::ints(&[i as i64]), &ev);
                rev.note("day", &Case::ints(&[i as i64]));
              }
            }
          }
        }
        rev.run(env, out, &ev);
        out.set_exhaustive("day", env.tier == Tier::Thorough);
      }
      "six" => {
        let l = lunlist();
        let (ylo, yhi) = shard_range(10000, shard, nshards);
        for y in ylo as i64..yhi as i64 {
          let lp = l.leap[y as usize] as i64;
          if lp > 0 {
            for m in [lp, -lp] {
              let dc = LunarMonth::from_ym(y as isize, m as isize).get_day_count() as i64;
              for d in 1..=dc {
                run_case(env, out, "six", &Case::ints(&[y, m, d]), &ev);
              }
            }
          } else if y % 7 == 0 {
            for m in [1i64, 6, 12] {
              for d in [1i64, 15, 29] {
                run_case(env, out, "six", &Case::ints(&[y, m, d]), &ev);
              }
            }
          }
        }
        out.set_exhaustive("six", true);
      }
      "hours" => {
        let (ylo, yhi) = shard_range(9998, shard, nshards);
        let step = env.tier.pick(40, 4);
        for y in ylo as i64 + 1..=yhi as i64 {
          if y % step == (env.seed % step as u64) as i64 {
            for dd in 18..=31 {
              if let Some(i) = c.index(y, 12, dd) {
                for h in [0i64, 1, 12, 22, 23] {
                  run_case(env, out, "hour", &Case::ints(&[i as i64, h]), &ev);
                }
              }
            }
          }
        }
        let days: u32 = env.tier.pick(2_000, 40_000);
        let hi_idx = c.year_start[9999] as i64;
        prop_run(env, out, "hour", days * 24 / nshards as u32, shard as u64, (0..hi_idx, 0i64..24).prop_map(|(i, h)| Case::ints(&[i, h])), &ev);
        out.set_exhaustive("hour", false);
      }
      "years" => {
        let (lo, hi) = shard_range(10001, shard, nshards);
        let mut rev = Reverse::new(4);
        for y in lo as i64 - 1..hi as i64 - 1 {
          run_case(env, out, "year", &Case::ints(&[y]), &ev);
          rev.note("year", &Case::ints(&[y]));
        }
        rev.run(env, out, &ev);
        out.set_exhaustive("year", true);
      }
      _ => panic!("unknown task {}", t),
    }
  }
  fn aux(&self, _env: &Env, name: &str, arg: &str) -> i32 {
    // debugging aid: `vcheck C17 --aux nine "y,m,d,n"` prints the library's day nine star for n consecutive days
    if name == "nine" {
      let a: Vec<i64> = arg.split(',').filter_map(|x| x.trim().parse().ok()).collect();
      let c = cal();
      let i0 = c.index(a[0], a[1], a[2]).unwrap();
      for i in i0..i0 + a[3] as usize {
        let s = sd_idx(c, i);
        let r = guard(|| s.get_sixty_cycle_day().get_nine_star().get_index() as i64);
        println!("{} pillar {} -> {:?}", c.fmt(i), day_pillar(c.jdn(i)), r.map(|x| NINE[x as usize]));
      }
      return 0;
    }
    2
  }
  fn cold_subs(&self) -> Vec<(&'static str, i64, i64, fn(i64) -> Vec<i64>)> {
    vec![("day", 0, crate::model::NDAYS as i64 - 366, |x| vec![x]), ("hour", 0, crate::model::NDAYS as i64 - 366, |x| vec![x, (x * 5).rem_euclid(24)])]
  }
  fn eval(&self, env: &Env, out: &mut Out, sub: &str, case: &Case) {
    match sub {
      "day" => self.eval_day(env, out, case),
      "six" => self.eval_six(env, out, case),
      "hour" => self.eval_hour(env, out, case),
      "year" => self.eval_year(env, out, case),
      "routes" => crate::routes::compare_day_routes(env, out, "routes", case, (case.a[0].clamp(0, crate::model::NDAYS as i64 - 1)) as usize, &crate::routes::fields_c17),
      "hroutes" => crate::routes::compare_hour_routes(env, out, "hroutes", case, (case.a[0].clamp(0, crate::model::NDAYS as i64 - 1)) as usize, case.a.get(1).cloned().unwrap_or(10), &crate::routes::hour_fields_c17),
      _ => panic!("unknown sub-check {}", sub),
    }
  }
}
