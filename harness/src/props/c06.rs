//! C06 Every day belongs to exactly one solar term: ordered, evenly spaced, consistent

use crate::adapt::*;
use crate::engine::*;
use crate::model::*;
use crate::terms::*;
use proptest::prelude::*;
use serde_json::json;
use tyme4rs::tyme::solar::{SolarTerm, SolarTime};
use tyme4rs::tyme::{Culture, Tyme};

pub struct C06;

fn viol(sub: &str, kind: &str, case: &Case, k: &[(&str, i64)], desc: String, expected: String, got: String) -> Viol {
  Viol { sub: sub.into(), kind: kind.into(), case: case.clone(), key: key(k), desc, expected, got }
}

fn tname(y: i64, i: i64) -> String {
  format!("{}#{}{}", y, i, TERM_NAMES[i as usize])
}

/// (year, index) n places after (y, i)
fn term_add(y: i64, i: i64, n: i64) -> (i64, i64) {
  let g = y * 24 + i + n;
  (g.div_euclid(24), g.rem_euclid(24))
}

impl C06 {
  fn eval_seq(&self, env: &Env, out: &mut Out, case: &Case) {
    let (y, i) = (case.a[0], case.a[1]);
    out.eval("seq");
    let k = [("ty", y), ("ti", i)];
    let (ny, ni) = term_add(y, i, 1);
    let ts = ensure(y, ny);
    let a = *ts.get(y, i);
    let b = *ts.get(ny, ni);
    let gap = b.jd - a.jd;
    let nt = i == 23 || i == 0 || gap < 14.8 || gap > 15.7;
    if nt {
      out.nontrivial("seq", &[y, i]);
    }
    if out.wants_sample("seq", nt) {
      out.sample("seq", nt, || json!({"term": tname(y, i), "instant_jd": a.jd, "gap_to_next_days": gap}));
    }
    if !(gap > 14.6 && gap < 15.8) {
      out.fail(env, viol("seq", "spacing", case, &k, format!("{} -> {}", tname(y, i), tname(ny, ni)), "gap in (14.6, 15.8) days".into(), format!("{}", gap)));
    }
    let t = SolarTerm::from_index(y as isize, i as isize);
    if t.get_year() as i64 != y || t.get_index() as i64 != i || t.get_name() != TERM_NAMES[i as usize] {
      out.fail(env, viol("seq", "fields", case, &k, tname(y, i), tname(y, i), format!("{}#{}{}", t.get_year(), t.get_index(), t.get_name())));
    }
    if t.is_jie() != (i % 2 == 1) || t.is_qi() != (i % 2 == 0) {
      out.fail(env, viol("seq", "jie_qi", case, &k, tname(y, i), format!("jie={}", i % 2 == 1), format!("jie={} qi={}", t.is_jie(), t.is_qi())));
    }
    let byname = SolarTerm::from_name(y as isize, TERM_NAMES[i as usize]);
    if byname.get_year() as i64 != y || byname.get_index() as i64 != i || byname.get_julian_day().get_day() != a.jd || byname.get_cursory_julian_day() != t.get_cursory_julian_day() {
      out.fail(env, viol("seq", "from_name", case, &k, format!("SolarTerm::from_name({}, {})", y, TERM_NAMES[i as usize]), format!("{} jd {}", tname(y, i), a.jd), format!("{}#{} jd {}", byname.get_year(), byname.get_index(), byname.get_julian_day().get_day())));
    }
    let nx = t.next(1);
    if nx.get_year() as i64 != ny || nx.get_index() as i64 != ni || nx.get_julian_day().get_day() != b.jd {
      out.fail(env, viol("seq", "next1", case, &k, format!("{}.next(1)", tname(y, i)), format!("{} jd {}", tname(ny, ni), b.jd), format!("{}#{} jd {}", nx.get_year(), nx.get_index(), nx.get_julian_day().get_day())));
    }
  }

  fn eval_step(&self, env: &Env, out: &mut Out, case: &Case) {
    let (y, i, n) = (case.a[0], case.a[1], case.a[2]);
    let (ey, ei) = term_add(y, i, n);
    if !(1..=9999).contains(&ey) {
      out.skip("step_result_outside_years_1_9999");
      return;
    }
    out.eval("step");
    let k = [("ty", y), ("ti", i), ("n", n)];
    if ey != y || n < 0 {
      out.nontrivial("step", &[y, i, n]);
    }
    let o0 = SolarTerm::from_index(y as isize, i as isize);
    let t = o0.next(n as isize);
    let e = SolarTerm::from_index(ey as isize, ei as isize);
    if out.wants_sample("step", ey != y) {
      out.sample("step", ey != y, || json!({"term": tname(y, i), "n": n, "expected": tname(ey, ei), "got": format!("{}#{}", t.get_year(), t.get_index())}));
    }
    if t.get_year() as i64 != ey || t.get_index() as i64 != ei || t.get_cursory_julian_day() != e.get_cursory_julian_day() || t.get_julian_day().get_day() != e.get_julian_day().get_day() {
      out.fail(env, viol("step", "next_n", case, &k, format!("{}.next({})", tname(y, i), n), format!("{} cursory {}", tname(ey, ei), e.get_cursory_julian_day()), format!("{}#{} cursory {}", t.get_year(), t.get_index(), t.get_cursory_julian_day())));
    }
    // from_index with an out-of-cycle index carries the year the same way
    let c = SolarTerm::from_index(y as isize, (i + n) as isize);
    if y * 24 + i + n >= 0 && (c.get_year() as i64 != ey || c.get_index() as i64 != ei || c.get_cursory_julian_day() != e.get_cursory_julian_day()) {
      out.fail(env, viol("step", "from_index_carry", case, &k, format!("SolarTerm::from_index({}, {})", y, i + n), tname(ey, ei), format!("{}#{}", c.get_year(), c.get_index())));
    }
    // ... and constructing the origin again right after a construction that carried out of the same year argument (and
    // the carried one right after the plain one) gives the same two terms
    let o1 = SolarTerm::from_index(y as isize, i as isize);
    let c1 = SolarTerm::from_index(y as isize, (i + n) as isize);
    if o1.get_julian_day().get_day() != o0.get_julian_day().get_day() || o1.get_cursory_julian_day() != o0.get_cursory_julian_day() || o1.get_year() != o0.get_year() {
      out.fail(env, viol("step", "construction_depends_on_the_previous_construction", case, &k, format!("SolarTerm::from_index({}, {}) right after from_index({}, {})", y, i, y, i + n), format!("jd {}", o0.get_julian_day().get_day()), format!("jd {}", o1.get_julian_day().get_day())));
    } else if y * 24 + i + n >= 0 && (c1.get_julian_day().get_day() != e.get_julian_day().get_day() || c1.get_year() as i64 != ey) {
      out.fail(env, viol("step", "construction_depends_on_the_previous_construction", case, &k, format!("SolarTerm::from_index({}, {}) right after from_index({}, {})", y, i + n, y, i), format!("{} jd {}", tname(ey, ei), e.get_julian_day().get_day()), format!("{}#{} jd {}", c1.get_year(), c1.get_index(), c1.get_julian_day().get_day())));
    }
  }

  fn eval_day2term(&self, env: &Env, out: &mut Out, case: &Case) {
    let c = cal();
    let i = case.a[0] as usize;
    let (y, m, d) = c.ymd(i);
    let jdn = c.jdn(i);
    let ts = ensure(y - 1, y + 1);
    out.eval("day2term");
    let k = [("y", y), ("m", m), ("d", d), ("jdn", jdn)];
    let p = match ts.latest_by_day(jdn) {
      Some(p) => p,
      None => {
        out.skip("date_before_first_listed_term");
        return;
      }
    };
    let e = ts.list[p];
    // ambiguity guard: a neighbouring term instant within 0.6 s of midnight
    let mut amb = e.ambiguous_day;
    if p + 1 < ts.list.len() && ts.list[p + 1].ambiguous_day && (ts.list[p + 1].day - jdn).abs() <= 1 {
      amb = true;
    }
    let near = jdn - e.day <= 1 || (p + 1 < ts.list.len() && ts.list[p + 1].day - jdn <= 1);
    if near {
      out.nontrivial("day2term", &[i as i64]);
      out.class("date_within_1_day_of_a_term_day");
    }
    let r = guard(|| {
      let td = sd_idx(c, i).get_term_day();
      let t = td.get_solar_term();
      // get_term() is get_term_day().get_solar_term(); exercised on every 8th date and on all dates near a term day
      if near || i % 8 == 0 {
        let t2 = sd_idx(c, i).get_term();
        (t.get_year() as i64, t.get_index() as i64, td.get_day_index() as i64, t2.get_year() as i64, t2.get_index() as i64)
      } else {
        (t.get_year() as i64, t.get_index() as i64, td.get_day_index() as i64, t.get_year() as i64, t.get_index() as i64)
      }
    });
    let (gy, gi, gdi, g2y, g2i) = match r {
      Ok(x) => x,
      Err(e2) => {
        out.fail(env, viol("day2term", "panics", case, &k, c.fmt(i), format!("{} day index {}", tname(e.year, e.index), jdn - e.day), e2));
        return;
      }
    };
    if out.wants_sample("day2term", near) {
      out.sample("day2term", near, || json!({"date": c.fmt(i), "term": tname(gy, gi), "day_index": gdi}));
    }
    if (gy, gi) != (g2y, g2i) {
      out.fail(env, viol("day2term", "get_term_vs_get_term_day", case, &k, c.fmt(i), tname(gy, gi), tname(g2y, g2i)));
    }
    let ok = (gy, gi, gdi) == (e.year, e.index, jdn - e.day);
    if !ok {
      if amb {
        // accept the assignment that results from reporting the ambiguous instant on the other day
        let alt_ok = (p > 0 && (gy, gi) == (ts.list[p - 1].year, ts.list[p - 1].index)) || (p + 1 < ts.list.len() && (gy, gi) == (ts.list[p + 1].year, ts.list[p + 1].index)) || ((gy, gi) == (e.year, e.index) && (gdi - (jdn - e.day)).abs() <= 1);
        if alt_ok {
          out.skip("term_instant_within_0.6s_of_midnight");
          return;
        }
      }
      let kind = if (gy, gi) != (e.year, e.index) { "wrong_term" } else { "wrong_day_index" };
      out.fail(env, viol("day2term", kind, case, &k, c.fmt(i), format!("{} day index {}", tname(e.year, e.index), jdn - e.day), format!("{} day index {}", tname(gy, gi), gdi)));
    }
    if gdi > 16 {
      out.fail(env, viol("day2term", "day_index_over_16", case, &k, c.fmt(i), "<= 16".into(), gdi.to_string()));
    }
  }

  fn eval_time2term(&self, env: &Env, out: &mut Out, case: &Case) {
    let c = cal();
    let i = case.a[0] as usize;
    let s = case.a[1].clamp(0, 86399);
    let (y, m, d) = c.ymd(i);
    let ts = ensure(y - 1, y + 1);
    out.eval("time2term");
    let sec = i as i64 * 86400 + s;
    let k = [("y", y), ("m", m), ("d", d), ("s", s)];
    let p = match ts.latest_by_sec(sec) {
      Some(p) => p,
      None => {
        out.skip("instant_before_first_listed_term");
        return;
      }
    };
    let e = ts.list[p];
    let near = sec - e.sec <= 2 || (p + 1 < ts.list.len() && ts.list[p + 1].sec - sec <= 2);
    if near {
      out.nontrivial("time2term", &[i as i64, s]);
      out.class("instant_within_2s_of_a_term_instant");
    }
    let amb = (e.ambiguous_sec && sec - e.sec <= 1) || (p + 1 < ts.list.len() && ts.list[p + 1].ambiguous_sec && ts.list[p + 1].sec - sec <= 1);
    let r = guard(|| {
      let t = SolarTime::from_ymd_hms(y as isize, m as usize, d as usize, (s / 3600) as usize, (s / 60 % 60) as usize, (s % 60) as usize).get_term();
      (t.get_year() as i64, t.get_index() as i64)
    });
    match r {
      Ok((gy, gi)) => {
        if out.wants_sample("time2term", near) {
          out.sample("time2term", near, || json!({"instant": format!("{} {:02}:{:02}:{:02}", c.fmt(i), s / 3600, s / 60 % 60, s % 60), "term": tname(gy, gi), "seconds_after_term_instant": sec - e.sec}));
        }
        if (gy, gi) != (e.year, e.index) {
          if amb {
            out.skip("term_instant_rounds_at_half_second");
            return;
          }
          out.fail(env, viol("time2term", "wrong_term", case, &k, format!("{} +{}s", c.fmt(i), s), tname(e.year, e.index), tname(gy, gi)));
        }
      }
      Err(e2) => {
        out.fail(env, viol("time2term", "panics", case, &k, format!("{} +{}s", c.fmt(i), s), tname(e.year, e.index), e2));
      }
    }
  }
}

fn step_strategy() -> impl Strategy<Value = Case> {
  (1i64..=9999, 0i64..24, prop_oneof![4 => -50i64..=50, 2 => -600i64..=600, 1 => Just(0i64), 1 => prop_oneof![Just(24i64), Just(-24), Just(23), Just(-23), Just(25), Just(-25)]]).prop_map(|(y, i, n)| Case::ints(&[y, i, n]))
}

fn time_strategy() -> impl Strategy<Value = Case> {
  (0..NDAYS as i64, 0i64..86400).prop_map(|(i, s)| Case::ints(&[i, s]))
}

impl Prop for C06 {
  fn id(&self) -> &'static str {
    "C06"
  }
  fn meta(&self, env: &Env) -> Meta {
    Meta {
      rule: format!("Generators: (a) `seq`: every term (year 1..9999, index 0..23) with its successor: instants strictly increasing with gap in (14.6,15.8) days, fields/name/is_jie, from_name == from_index, next(1) == the next term (compared by year, index and instants, never by ==) — exhaustive; (b) `step`: proptest (term, n in +-50 / +-600 / 0 / +-23..25) plus every year-edge term x n in -26..26: next(n) and from_index(y, i+n) == the term n places later; (c) `day2term`: {}: get_term_day/get_term == latest term whose civil day (floor(instant JD+0.5)) is <= the date, day index == days since that day, <= 16; (d) `time2term`: the second before/at/after every term instant of {} plus proptest instants: SolarTime::get_term == latest term whose second-rounded instant is <= t. Non-trivial: dates within 1 day of a term day; instants within 2 s of a term instant; steps that change the year or go backwards; first/last terms of a year and extreme gaps. Distinct = distinct inputs.", env.tier.pick("every civil date of 0001..9999 (exhaustive)", "every civil date of 0001..9999 (exhaustive)"), env.tier.pick("every 10th year (+ special years)", "every year")),
      assumptions: vec![
        "Term instants are the library's own (SolarTerm::get_julian_day); whether they sit at the right solar longitude is C05".into(),
        "A term instant within 0.6 s of civil midnight is reported by the library on either day (second rounding); assertions depending on it accept both and are counted as skipped".into(),
        "Terms are compared by (year, index, instants), not by ==, which compares names only".into(),
      ],
      level_text: String::new(),
    }
  }
  fn plan(&self, _env: &Env) -> Vec<TaskSpec> {
    vec![task("days", 16), task("terms", 16), task("times", 16)]
  }
  fn run(&self, env: &Env, t: &str, shard: usize, nshards: usize, out: &mut Out) {
    let ev = |e: &Env, o: &mut Out, s: &str, cs: &Case| self.eval(e, o, s, cs);
    let c = cal();
    match t {
      "days" => {
        // route equivalence of the objects this property reads (see routes.rs)
        prop_run(env, out, "routes", env.tier.pick(1600, 64000) / nshards as u32, 8800 + shard as u64, crate::routes::date_strategy(), &ev);
        out.set_exhaustive("routes", false);
        // strided walks on fresh threads (see engine::stride_walks)
        stride_walks(env, out, "day2term", env.tier.pick(3200, 96000) / nshards as u32, 7000 + shard as u64, 0, (crate::model::NDAYS as i64), 400, &|x| vec![x], &ev);
        stride_walks(env, out, "time2term", env.tier.pick(1600, 48000) / nshards as u32, 7100 + shard as u64, 0, (crate::model::NDAYS as i64), 400, &|x| vec![x, (x * 7919).rem_euclid(86400)], &ev);
        let (ylo, yhi) = shard_range(9999, shard, nshards);
        let (ylo, yhi) = (ylo as i64 + 1, yhi as i64);
        ensure(ylo - 1, yhi + 1);
        let lo = c.year_start[ylo as usize] as usize;
        let hi = c.year_start[yhi as usize + 1] as usize;
        let mut rev = Reverse::new(40);
        for i in lo..hi {
          run_case(env, out, "day2term", &Case::ints(&[i as i64]), &ev);
          rev.note("day2term", &Case::ints(&[i as i64]));
        }
        rev.run(env, out, &ev);
        out.set_exhaustive("day2term", true);
      }
      "terms" => {
        let (ylo, yhi) = shard_range(9999, shard, nshards);
        let (ylo, yhi) = (ylo as i64 + 1, yhi as i64);
        ensure(ylo - 1, yhi + 1);
        let mut rev_seq = Reverse::new(11);
        for y in ylo..=yhi {
          for i in 0..24 {
            run_case(env, out, "seq", &Case::ints(&[y, i]), &ev);
            rev_seq.note("seq", &Case::ints(&[y, i]));
          }
          if env.tier == Tier::Thorough || y % 10 == (env.seed % 10) as i64 || SPECIAL_YEARS.contains(&y) {
            for i in [0i64, 1, 22, 23] {
              for n in -26..=26i64 {
                run_case(env, out, "step", &Case::ints(&[y, i, n]), &ev);
              }
            }
          }
        }
        rev_seq.run(env, out, &ev);
        out.set_exhaustive("seq", true);
        let total: u32 = env.tier.pick(24_000, 1_000_000);
        prop_run(env, out, "step", total / nshards as u32, shard as u64, step_strategy(), &ev);
        out.set_exhaustive("step", false);
      }
      "times" => {
        let (ylo, yhi) = shard_range(9998, shard, nshards);
        let (ylo, yhi) = (ylo as i64 + 1, yhi as i64);
        let ts = ensure(ylo - 1, yhi + 1);
        for y in ylo..=yhi {
          if !(env.tier == Tier::Thorough || y % 10 == (env.seed % 10) as i64 || SPECIAL_YEARS.contains(&y)) {
            continue;
          }
          for i in 0..24 {
            let e = *ts.get(y, i);
            for ds in [-1i64, 0, 1] {
              let sec = e.sec + ds;
              let di = sec.div_euclid(86400);
              if di >= 0 && (di as usize) < NDAYS {
                run_case(env, out, "time2term", &Case::ints(&[di, sec.rem_euclid(86400)]), &ev);
              }
            }
          }
        }
        let total: u32 = env.tier.pick(100_000, 2_000_000);
        prop_run(env, out, "time2term", total / nshards as u32, shard as u64, time_strategy(), &ev);
        out.set_exhaustive("time2term", false);
      }
      _ => panic!("unknown task {}", t),
    }
  }
  fn cold_subs(&self) -> Vec<(&'static str, i64, i64, fn(i64) -> Vec<i64>)> {
    vec![("day2term", 0, crate::model::NDAYS as i64, |x| vec![x]), ("time2term", 0, crate::model::NDAYS as i64, |x| vec![x, (x * 7919).rem_euclid(86400)])]
  }
  fn eval(&self, env: &Env, out: &mut Out, sub: &str, case: &Case) {
    match sub {
      "seq" => self.eval_seq(env, out, case),
      "step" => self.eval_step(env, out, case),
      "day2term" => self.eval_day2term(env, out, case),
      "time2term" => self.eval_time2term(env, out, case),
      "routes" => crate::routes::compare_day_routes(env, out, "routes", case, (case.a[0].clamp(0, crate::model::NDAYS as i64 - 1)) as usize, &crate::routes::fields_c06),
      _ => panic!("unknown sub-check {}", sub),
    }
  }
}
