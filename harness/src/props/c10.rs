//! C10 Answers do not depend on call history, thread interleaving or earlier refusals

use crate::adapt::*;
use crate::engine::*;
use crate::model::*;
use proptest::prelude::*;
use serde_json::json;
use std::collections::{BTreeMap, HashMap};
use std::sync::atomic::{AtomicUsize, Ordering};
use std::sync::Mutex;
use tyme4rs::tyme::eightchar::ChildLimit;
use tyme4rs::tyme::enums::Gender;
use tyme4rs::tyme::festival::LunarFestival;
use tyme4rs::tyme::lunar::{LunarDay, LunarMonth, LunarYear};
use tyme4rs::tyme::sixtycycle::SixtyCycleDay;
use tyme4rs::tyme::solar::SolarTime;
use tyme4rs::tyme::{Culture, Tyme};

pub struct C10;

pub const OPW: usize = 5; // ints per op: kind, p1..p4

/// the answer of one request from a pristine state: guarded hooks reset the known process-wide state, and a
/// brand-new thread gives pristine thread-local state (a memo added as a thread_local is invisible to the hooks)
/// The answer of one request from a pristine state (memo emptied through the hooks, brand-new thread). `Err(limit)` if it
/// does not return within the stall limit: state the hooks do not know about may keep it waiting for ever.
fn pristine_answer(op: &[i64]) -> Result<String, std::time::Duration> {
  clean_state();
  let o = op.to_vec();
  let (tx, rx) = std::sync::mpsc::channel::<String>();
  std::thread::spawn(move || {
    let _ = tx.send(answer(&o));
  });
  let limit = stall_limit(std::time::Duration::from_secs(0));
  match rx.recv_timeout(limit) {
    Ok(a) => Ok(a),
    Err(std::sync::mpsc::RecvTimeoutError::Disconnected) => Ok("REFUSED".to_string()),
    Err(std::sync::mpsc::RecvTimeoutError::Timeout) => Err(limit),
  }
}

enum Fresh {
  Answered(Vec<String>),
  Failed,
  TimedOut,
}

/// A request list in a fresh process (one answer per line), with a deadline.
fn run_fresh(flat_ops: &[i64], limit: std::time::Duration) -> Fresh {
  run_fresh_aux("history", flat_ops, limit)
}

/// `vcheck C10 --aux <name> <comma separated integers>` in a fresh process, one answer per line, with a deadline.
fn run_fresh_aux(name: &str, flat_ops: &[i64], limit: std::time::Duration) -> Fresh {
  let exe = match std::env::current_exe() {
    Ok(e) => e,
    Err(_) => return Fresh::Failed,
  };
  let arg = flat_ops.iter().map(|x| x.to_string()).collect::<Vec<_>>().join(",");
  let dir = std::path::PathBuf::from(verif_dir()).join("harness").join("target").join("work");
  let _ = std::fs::create_dir_all(&dir);
  let out_path = dir.join(format!("vcheck-c10-{}-{:x}.out", std::process::id(), hash_str(&arg, &[])));
  let file = match std::fs::File::create(&out_path) {
    Ok(f) => f,
    Err(_) => return Fresh::Failed,
  };
  let mut child = match std::process::Command::new(&exe).arg("C10").arg("--aux").arg(name).arg(arg).stdout(std::process::Stdio::from(file)).stderr(std::process::Stdio::null()).spawn() {
    Ok(c) => c,
    Err(_) => return Fresh::Failed,
  };
  let t0 = std::time::Instant::now();
  let res = loop {
    match child.try_wait() {
      Ok(Some(st)) => {
        if !st.success() {
          break Fresh::Failed;
        }
        break match std::fs::read_to_string(&out_path) {
          Ok(buf) => Fresh::Answered(buf.lines().map(|l| l.to_string()).collect()),
          Err(_) => Fresh::Failed,
        };
      }
      Ok(None) => {
        if t0.elapsed() > limit {
          let _ = child.kill();
          let _ = child.wait();
          break Fresh::TimedOut;
        }
        std::thread::sleep(std::time::Duration::from_millis(if t0.elapsed().as_millis() < 200 { 1 } else { 20 }));
      }
      Err(_) => break Fresh::Failed,
    }
  };
  let _ = std::fs::remove_file(&out_path);
  res
}

/// One request alone in a fresh process, with a deadline (None: no answer in time, or the process failed).
fn fresh_process_answer(op: &[i64], limit: std::time::Duration) -> Option<String> {
  match run_fresh(op, limit) {
    Fresh::Answered(v) if v.len() == 1 => Some(v[0].clone()),
    _ => None,
  }
}

/// A reference request did not return in this (used) process. If the same request alone in a fresh process answers, the
/// earlier requests of this process are what blocks it: a violation. Otherwise the request never returns on its own,
/// which is not this property's business: the rest of the worker's cases are skipped and the run is inconclusive.
fn report_blocked_reference(env: &Env, out: &mut Out, sub: &str, case: &Case, op: &[i64], limit: std::time::Duration) {
  BLOCKED.store(true, Ordering::SeqCst);
  match fresh_process_answer(op, limit) {
    Some(a) => { out.fail(env, Viol { sub: sub.into(), kind: "request_blocked_in_a_used_process".into(), case: Case::ints(op), key: key(&[("op", op[0]), ("p1", op[1]), ("p2", op[2])]), desc: format!("{} in a process that served other requests before (memo emptied, lock poison cleared through the hooks, new thread)", op_desc(op)), expected: format!("{} (alone in a fresh process)", a), got: format!("no answer within {:?}", limit) }); }
    None => {
      out.skip("request_never_returns_even_in_a_fresh_process");
      out.note(format!("INCONCLUSIVE: {} does not return within {:?} even alone in a fresh process; remaining cases of this worker skipped", op_desc(op), limit));
      let _ = case;
    }
  }
}

/// Set once a request was found blocked: the stuck thread may hold a library lock for ever, so the rest of this
/// worker's C10 cases are skipped (counted) instead of hanging the worker until the watchdog kills it.
static BLOCKED: std::sync::atomic::AtomicBool = std::sync::atomic::AtomicBool::new(false);

/// "No request completed for this long" counts as blocked: at least one minute plus 300 times what the very
/// same requests took one by one from a pristine state a moment earlier (so machine load cannot produce it).
fn stall_limit(reference: std::time::Duration) -> std::time::Duration {
  let base = std::env::var("VERIF_C10_STALL_S").ok().and_then(|v| v.parse::<u64>().ok()).unwrap_or(60);
  std::time::Duration::from_secs(base) + reference * 300
}

fn clean_state() {
  tyme4rs::tyme::lunar::verif_clear_poison();
  tyme4rs::tyme::eightchar::verif_clear_poison();
  tyme4rs::tyme::lunar::verif_reset_lunar_month_cache();
}

/// The observable answer of one request as a canonical string; a refusal (Err or panic) is "REFUSED".
pub fn answer(op: &[i64]) -> String {
  let (k, p1, p2, p3, p4) = (op[0], op[1], op[2], op[3], op[4]);
  let r: Result<String, String> = guard(|| match k {
    0 => {
      let m = LunarMonth::from_ym(p1 as isize, p2 as isize);
      format!("{}|{}|{}|{}|{}", m.get_year(), m.get_month_with_leap(), m.get_day_count(), m.get_index_in_year(), m.get_first_julian_day().get_day())
    }
    1 => match LunarDay::new(p1 as isize, p2 as isize, p3 as usize) {
      Err(_) => "REFUSED".to_string(),
      Ok(d0) => {
        // per-value lazy memos: getters in different orders must agree
        let one = |d: &LunarDay, ord: i64| -> String {
        let (a, b, c);
        match ord {
          0 => {
            a = d.get_solar_day().to_string();
            b = d.get_sixty_cycle_day().to_string();
            c = d.get_sixty_cycle().to_string();
          }
          1 => {
            b = d.get_sixty_cycle_day().to_string();
            c = d.get_sixty_cycle().to_string();
            a = d.get_solar_day().to_string();
          }
          _ => {
            let e = d.clone();
            c = e.get_sixty_cycle().to_string();
            a = d.get_solar_day().to_string();
            b = e.get_sixty_cycle_day().to_string();
          }
        }
        format!("{}|{}|{}|{}", d, a, b, c)
        };
        let r0 = one(&LunarDay::from_ymd(p1 as isize, p2 as isize, p3 as usize), 0);
        let r1 = one(&LunarDay::from_ymd(p1 as isize, p2 as isize, p3 as usize), 1);
        let r2 = one(&d0, 2);
        let _ = p4;
        if r0 == r1 && r1 == r2 {
          r0
        } else {
          format!("ORDER-DEPENDENT getters: [{}] [{}] [{}]", r0, r1, r2)
        }
      }
    },
    2 => {
      let l = sd(p1, p2, p3).get_lunar_day();
      format!("{:?}|{}", lymd(&l), l)
    }
    3 => SixtyCycleDay::from_solar_day(sd(p1, p2, p3)).to_string(),
    4 => match LunarFestival::from_index(p1 as isize, p2 as usize) {
      None => "NONE".to_string(),
      Some(f) => format!("{}|{}", f, f.get_day().get_solar_day()),
    },
    5 => {
      let t = SolarTime::from_ymd_hms(p1 as isize, p2 as usize, p3 as usize, p4 as usize, 0, 0);
      let h = t.get_lunar_hour();
      format!("{}|{}", h, h.get_eight_char())
    }
    6 => {
      let t = SolarTime::from_ymd_hms(p1 as isize, p2 as usize, p3 as usize, (p4 / 2) as usize, 30, 0);
      let c = ChildLimit::from_solar_time(t, if p4 % 2 == 0 { Gender::MAN } else { Gender::WOMAN });
      format!("{}|{}y{}m{}d{}h{}mi|{}", c.get_end_time(), c.get_year_count(), c.get_month_count(), c.get_day_count(), c.get_hour_count(), c.get_minute_count(), c.get_start_decade_fortune().get_name())
    }
    7 => {
      let y = LunarYear::from_year(p1 as isize);
      let ms = y.get_months();
      format!("{}|{}|{}", ms.len(), y.get_day_count(), ms.iter().map(|m| m.get_month_with_leap().to_string()).collect::<Vec<_>>().join(","))
    }
    8 => {
      let m = LunarMonth::from_ym(p1 as isize, p2 as isize).next(p3 as isize);
      format!("{}|{}|{}|{}", m.get_year(), m.get_month_with_leap(), m.get_day_count(), m.get_first_julian_day().get_day())
    }
    9 => match LunarDay::new(p1 as isize, p2 as isize, p3 as usize) {
      Err(_) => "REFUSED".to_string(),
      Ok(_) => {
        // the stepped day must not depend on whether the memoised views of the source day were read first
        let n = p4 / 2 - 20;
        let step = |read_first: bool| -> String {
          let d = LunarDay::from_ymd(p1 as isize, p2 as isize, p3 as usize);
          if read_first {
            let _ = (d.get_solar_day(), d.get_sixty_cycle_day(), d.get_week());
          }
          let g = d.next(n as isize);
          format!("{}|{}|{}|{}", g, g.get_solar_day(), g.get_sixty_cycle_day(), g.get_week())
        };
        let (a, b) = (step(false), step(true));
        if a == b {
          a
        } else {
          format!("ORDER-DEPENDENT step: fresh [{}] after reading [{}]", a, b)
        }
      }
    },
    10 => {
      let t = SolarTime::from_ymd_hms(p1 as isize, p2 as usize, p3 as usize, ((p4 / 2) % 24) as usize, 15, 0);
      let step = |read_first: bool| -> String {
        let h = t.get_lunar_hour();
        if read_first {
          let _ = (h.get_solar_time(), h.get_sixty_cycle_hour());
        }
        let g = h.next((p4 / 48 - 6) as isize);
        format!("{}|{}|{}", g, g.get_solar_time(), g.get_sixty_cycle_hour())
      };
      let (a, b) = (step(false), step(true));
      if a == b {
        a
      } else {
        format!("ORDER-DEPENDENT step: fresh [{}] after reading [{}]", a, b)
      }
    }
    11 => {
      // solar term by (year, index) incl. out-of-cycle indices that carry the year
      let t = tyme4rs::tyme::solar::SolarTerm::from_index(p1 as isize, p2 as isize);
      format!("{}|{}|{}|{}", t.get_year(), t.get_index(), t.get_cursory_julian_day(), t.get_julian_day().get_day())
    }
    12 => {
      let d = sd(p1, p2, p3);
      let td = d.get_term_day();
      format!("{}|{}|{}|{}", td.get_solar_term().get_year(), td.get_solar_term().get_index(), td.get_day_index(), d.get_sixty_cycle_day())
    }
    13 => {
      // Julian date (day number p1, p2 millionths of a day) -> civil day and instant
      let jd = p1 as f64 + p2 as f64 / 1_000_000.0;
      let j = tyme4rs::tyme::jd::JulianDay::from_julian_day(jd);
      format!("{}|{}|{}", j.get_solar_day(), j.get_solar_time(), j.get_week())
    }
    14 => {
      let d = sd(p1, p2, p3);
      format!("{}|{}|{}|{}", d.get_julian_day().get_day(), d.next(p4 as isize), d.get_index_in_year(), d.get_solar_week((p4.rem_euclid(7)) as usize).get_index_in_year())
    }
    15 => {
      let m = tyme4rs::tyme::solar::SolarMonth::from_ym(p1 as isize, p2 as usize);
      format!("{}|{}|{}|{}", m.get_day_count(), m.get_week_count((p3.rem_euclid(7)) as usize), m.get_days().len(), m.get_days().first().map(|x| x.get_julian_day().get_day()).unwrap_or(0.0))
    }
    16 => {
      let m = tyme4rs::tyme::sixtycycle::SixtyCycleMonth::from_index(p1 as isize, p2 as isize);
      format!("{}|{}", m, m.get_first_day())
    }
    17 => {
      // an hour-level query must not change what the hour's day answers
      let t = SolarTime::from_ymd_hms(p1 as isize, p2 as usize, p3 as usize, (p4 % 24) as usize, 30, 0);
      let day_views = |l: &LunarDay| format!("{}|{}|{}|{}|{}", l, l.get_sixty_cycle_day(), l.get_duty(), l.get_twelve_star(), l.get_sixty_cycle());
      let a = {
        let h = t.get_lunar_hour();
        day_views(&h.get_lunar_day())
      };
      let b = {
        let h = t.get_lunar_hour();
        let _ = (h.get_sixty_cycle_hour(), h.get_twelve_star(), h.get_recommends().len());
        day_views(&h.get_lunar_day())
      };
      if a == b {
        a
      } else {
        format!("ORDER-DEPENDENT hour/day: day first [{}] after hour-level queries [{}]", a, b)
      }
    }
    18 => {
      // day-level almanac and term-anchored series (each part on its own so that a refusal of one does not hide the rest)
      let d = sd(p1, p2, p3);
      let part = |f: &dyn Fn() -> String| guard(|| f()).unwrap_or_else(|_| "REFUSED".to_string());
      let series = part(&|| format!("{:?}|{:?}|{:?}|{}|{}", d.get_nine_day().map(|x| x.to_string()), d.get_dog_day().map(|x| x.to_string()), d.get_plum_rain_day().map(|x| x.to_string()), d.get_phenology_day(), d.get_hide_heaven_stem_day()));
      let look = part(&|| format!("{:?}|{:?}|{}", d.get_festival().map(|x| x.to_string()), d.get_legal_holiday().map(|x| x.to_string()), d.get_constellation()));
      let lunar = part(&|| {
        let l = d.get_lunar_day();
        format!("{}|{}|{}|{}|{}|{}|{:?}|{}", l.get_duty(), l.get_twelve_star(), l.get_twenty_eight_star(), l.get_six_star(), l.get_phase(), l.get_minor_ren(), l.get_festival().map(|x| x.to_string()), l.get_fetus_day())
      });
      let nine = part(&|| format!("{}|{}", d.get_lunar_day().get_nine_star(), d.get_sixty_cycle_day().get_nine_star()));
      let taboo = part(&|| {
        let sc = d.get_sixty_cycle_day();
        format!("{}|{}|{}|{}", sc.get_gods().len(), sc.get_recommends().iter().map(|x| x.get_name()).collect::<Vec<_>>().join(","), sc.get_avoids().len(), sc.get_twenty_eight_star())
      });
      format!("{}#{}#{}#{}#{}", series, look, lunar, nine, taboo)
    }
    19 => {
      // hour-level almanac on both views
      let t = SolarTime::from_ymd_hms(p1 as isize, p2 as usize, p3 as usize, (p4 % 24) as usize, 30, 0);
      let part = |f: &dyn Fn() -> String| guard(|| f()).unwrap_or_else(|_| "REFUSED".to_string());
      let a = part(&|| {
        let h = t.get_sixty_cycle_hour();
        format!("{}|{}|{}|{}|{}", h, h.get_twelve_star(), h.get_recommends().iter().map(|x| x.get_name()).collect::<Vec<_>>().join(","), h.get_avoids().len(), h.get_index_in_day())
      });
      let b = part(&|| {
        let h = t.get_lunar_hour();
        format!("{}|{}|{}|{}|{}", h, h.get_twelve_star(), h.get_minor_ren(), h.get_recommends().len(), h.get_avoids().iter().map(|x| x.get_name()).collect::<Vec<_>>().join(","))
      });
      let n = part(&|| format!("{}|{}", t.get_sixty_cycle_hour().get_nine_star(), t.get_lunar_hour().get_nine_star()));
      let term = part(&|| format!("{}", t.get_term()));
      format!("{}#{}#{}#{}", a, b, n, term)
    }
    20 => {
      // year- and month-level attributes
      let part = |f: &dyn Fn() -> String| guard(|| f()).unwrap_or_else(|_| "REFUSED".to_string());
      let y = part(&|| {
        let ly = LunarYear::from_year(p1 as isize);
        format!("{}|{}|{}|{}|{}", ly.get_sixty_cycle(), ly.get_nine_star(), ly.get_jupiter_direction(), ly.get_kitchen_god_steed(), ly.get_leap_month())
      });
      let sy = part(&|| {
        let s = tyme4rs::tyme::sixtycycle::SixtyCycleYear::from_year(p1 as isize);
        let ms = s.get_months();
        format!("{}|{}|{}|{}|{}", s.get_nine_star(), ms.len(), ms.first().map(|m| format!("{}@{}", m, m.get_first_day())).unwrap_or_default(), ms.last().map(|m| format!("{}@{}", m, m.get_first_day())).unwrap_or_default(), s.get_first_month().get_nine_star())
      });
      let lm = part(&|| {
        let ms = valid_months(p1);
        let m = LunarMonth::from_ym(p1 as isize, ms[(p2.rem_euclid(13) as usize) * ms.len() / 13] as isize);
        format!("{}|{}|{}|{:?}|{}|{}", m, m.get_nine_star(), m.get_sixty_cycle(), m.get_fetus().map(|x| x.to_string()), m.get_minor_ren(), m.get_week_count((p2.rem_euclid(7)) as usize))
      });
      format!("{}#{}#{}", y, sy, lm)
    }
    21 => {
      // weeks and festival stepping
      let part = |f: &dyn Fn() -> String| guard(|| f()).unwrap_or_else(|_| "REFUSED".to_string());
      let d = sd(p1, p2, p3);
      let st = p4.rem_euclid(7) as usize;
      let n = (p4 / 7).rem_euclid(21) - 10;
      let w = part(&|| {
        let w = d.get_solar_week(st);
        let g = w.next(n as isize);
        format!("{}|{}|{}|{}|{}", w.get_first_day(), w.get_index(), w.get_index_in_year(), g.get_first_day(), g.get_index())
      });
      let lw = part(&|| {
        let lm = d.get_lunar_day().get_lunar_month();
        let w = tyme4rs::tyme::lunar::LunarWeek::from_ym(lm.get_year(), lm.get_month_with_leap(), (p3.rem_euclid(4)) as usize, st);
        let g = w.next(n as isize);
        format!("{}|{}|{}|{}", w.get_first_day(), w.get_index(), g.get_first_day(), g.get_index())
      });
      let f = part(&|| {
        let f = LunarFestival::from_index(p1 as isize, (p2.rem_euclid(13)) as usize).map(|f| f.next(n as isize));
        let s = tyme4rs::tyme::festival::SolarFestival::from_index(p1 as isize, (p3.rem_euclid(10)) as usize).map(|f| f.next(n as isize));
        format!("{:?}|{:?}", f.flatten().map(|x| format!("{}@{}", x, x.get_day().get_solar_day())), s.flatten().map(|x| x.to_string()))
      });
      format!("{}#{}#{}", w, lw, f)
    }
    22 => {
      // inverse search of the eight characters of an instant over the three years around it
      let t = SolarTime::from_ymd_hms(p1 as isize, p2 as usize, p3 as usize, (p4 % 24) as usize, 30, 0);
      let ec = t.get_sixty_cycle_hour().get_eight_char();
      let r = ec.get_solar_times((p1 - 1).max(1) as isize, (p1 + 1).min(9998) as isize);
      format!("{}|{}", ec, r.iter().map(|x| x.to_string()).collect::<Vec<_>>().join(","))
    }
    23 => {
      // festival lookups by lunar date (a refusal of the date is a refusal of the request) and through the day objects
      let f = LunarFestival::from_ymd(p1 as isize, p2 as isize, p3 as usize);
      let l = LunarDay::from_ymd(p1 as isize, p2 as isize, p3 as usize);
      format!("{:?}|{:?}|{:?}", f.map(|x| x.to_string()), l.get_festival().map(|x| x.to_string()), l.get_solar_day().get_festival().map(|x| x.to_string()))
    }
    _ => "BADOP".to_string(),
  });
  match r {
    Ok(s) => s,
    Err(_) => "REFUSED".to_string(),
  }
}

fn op_desc(op: &[i64]) -> String {
  match op[0] {
    0 => format!("LunarMonth::from_ym({},{})", op[1], op[2]),
    1 => format!("LunarDay::new({},{},{}) getters in three orders", op[1], op[2], op[3]),
    2 => format!("SolarDay({},{},{}).get_lunar_day()", op[1], op[2], op[3]),
    3 => format!("SixtyCycleDay::from_solar_day({}-{}-{})", op[1], op[2], op[3]),
    4 => format!("LunarFestival::from_index({},{})", op[1], op[2]),
    5 => format!("SolarTime({}-{}-{} {}:00:00).get_lunar_hour().get_eight_char()", op[1], op[2], op[3], op[4]),
    6 => format!("ChildLimit::from_solar_time({}-{}-{} {}:30:00, {})", op[1], op[2], op[3], op[4] / 2, if op[4] % 2 == 0 { "MAN" } else { "WOMAN" }),
    7 => format!("LunarYear({}).get_months()/get_day_count()", op[1]),
    8 => format!("LunarMonth::from_ym({},{}).next({})", op[1], op[2], op[3]),
    9 => format!("LunarDay::new({},{},{}).next({}) all views, with and without reading the source day first", op[1], op[2], op[3], op[4] / 2 - 20),
    10 => format!("SolarTime({}-{}-{} {}:15).get_lunar_hour().next({}) all views, with and without reading the source hour first", op[1], op[2], op[3], (op[4] / 2) % 24, op[4] / 48 - 6),
    11 => format!("SolarTerm::from_index({},{})", op[1], op[2]),
    12 => format!("SolarDay({}-{}-{}).get_term_day()/get_sixty_cycle_day()", op[1], op[2], op[3]),
    13 => format!("JulianDay({}+{}e-6).get_solar_day()/get_solar_time()/get_week()", op[1], op[2]),
    14 => format!("SolarDay({}-{}-{}) julian day, next({}), index in year, week index in year", op[1], op[2], op[3], op[4]),
    15 => format!("SolarMonth({},{}) day count, week count, day list", op[1], op[2]),
    16 => format!("SixtyCycleMonth::from_index({},{}).get_first_day()", op[1], op[2]),
    17 => format!("SolarTime({}-{}-{} {}:30).get_lunar_hour(): its day's views before and after hour-level queries", op[1], op[2], op[3], op[4] % 24),
    18 => format!("SolarDay({}-{}-{}) term-anchored series, festivals/holiday, day almanac, day nine star, spirits and taboos", op[1], op[2], op[3]),
    19 => format!("SolarTime({}-{}-{} {}:30) hour almanac on both views, hour nine star, term", op[1], op[2], op[3], op[4] % 24),
    20 => format!("year {}: LunarYear / SixtyCycleYear attributes and month list, one lunar month (selector {})", op[1], op[2]),
    21 => format!("SolarDay({}-{}-{}) solar and lunar week (start {}, step {}), festival stepping", op[1], op[2], op[3], op[4].rem_euclid(7), (op[4] / 7).rem_euclid(21) - 10),
    22 => format!("eight characters of SolarTime({}-{}-{} {}:30) searched in the years around it", op[1], op[2], op[3], op[4] % 24),
    23 => format!("LunarFestival::from_ymd({},{},{}) and the day's own festival look-ups", op[1], op[2], op[3]),
    _ => "?".into(),
  }
}

/// digits of the two undelimited concatenations of a lunar month request
fn concat_keys(y: i64, m: i64) -> [String; 2] {
  [format!("{}{}", y, m), format!("{}{}", m, y)]
}

/// every pair of valid (year, month) requests whose undelimited concatenation (either order) coincides
pub fn colliding_pairs() -> Vec<[i64; 4]> {
  let mut groups: HashMap<String, Vec<(i64, i64)>> = HashMap::new();
  for y in 0..=9999i64 {
    let leap = LunarYear::from_year(y as isize).get_leap_month() as i64;
    let mut months: Vec<i64> = (1..=12).collect();
    if leap > 0 {
      months.push(-leap);
    }
    for m in months {
      for (t, k) in concat_keys(y, m).iter().enumerate() {
        groups.entry(format!("{}:{}", t, k)).or_default().push((y, m));
      }
    }
  }
  let mut v = vec![];
  for (_, g) in groups {
    for i in 0..g.len() {
      for j in 0..g.len() {
        if i != j {
          v.push([g[i].0, g[i].1, g[j].0, g[j].1]);
        }
      }
    }
  }
  v.sort();
  v.dedup();
  v
}

/// pairs of distinct valid (year, month) requests that coincide under a family of plausible lossy memo keys
/// (year*k + month for several k, year*k + |month|, leap twins); at most `cap` pairs per key function,
/// spread evenly over the years
pub fn arithmetic_key_pairs(cap: usize) -> Vec<[i64; 4]> {
  let mut all: Vec<(i64, i64)> = vec![];
  for y in 0..=9999i64 {
    for m in valid_months(y) {
      all.push((y, m));
    }
  }
  let mut out: Vec<[i64; 4]> = vec![];
  let mut keyfns: Vec<Box<dyn Fn(i64, i64) -> i64>> = vec![];
  for k in [10i64, 11, 12, 13, 14, 15, 16, 20, 24, 32, 64] {
    keyfns.push(Box::new(move |y, m| y * k + m));
    keyfns.push(Box::new(move |y, m| y * k + m.abs()));
  }
  keyfns.push(Box::new(|y, m| y * 100 + m.abs()));
  keyfns.push(Box::new(|y, m| (y << 4) ^ m));
  keyfns.push(Box::new(|y, m| y * 12 + (m + 12)));
  for f in keyfns.iter() {
    let mut groups: HashMap<i64, Vec<(i64, i64)>> = HashMap::new();
    for &(y, m) in &all {
      groups.entry(f(y, m)).or_default().push((y, m));
    }
    let mut pairs: Vec<[i64; 4]> = vec![];
    for (_, g) in groups {
      if g.len() >= 2 {
        pairs.push([g[0].0, g[0].1, g[1].0, g[1].1]);
      }
    }
    pairs.sort();
    let step = (pairs.len() / cap.max(1)).max(1);
    for p in pairs.iter().step_by(step).take(cap) {
      out.push(*p);
      out.push([p[2], p[3], p[0], p[1]]);
    }
  }
  out.sort();
  out.dedup();
  out
}

/// small pool of years whose requests sit close together under any plausible lossy memo key
const POOL_YEARS: [i64; 30] = [0, 1, 2, 8, 9, 10, 11, 12, 21, 23, 24, 25, 101, 111, 112, 121, 236, 237, 239, 240, 1582, 2020, 2023, 2033, 2034, 9991, 9992, 9997, 9998, 9999];

fn valid_months(y: i64) -> Vec<i64> {
  let mut v: Vec<i64> = (1..=12).collect();
  if (0..=9999).contains(&y) {
    let leap = LunarYear::from_year(y as isize).get_leap_month() as i64;
    if leap > 0 {
      v.push(-leap);
    }
  }
  v
}

fn op_strategy() -> impl Strategy<Value = Vec<i64>> {
  let year = prop_oneof![
    4 => (0..POOL_YEARS.len()).prop_map(|i| POOL_YEARS[i]),
    6 => 0i64..=9999,
  ];
  let civil_year = prop_oneof![
    4 => (0..POOL_YEARS.len()).prop_map(|i| POOL_YEARS[i].clamp(1, 9998)),
    6 => 1i64..=9998,
  ];
  let civil_year2 = civil_year.clone();
  let valid_month = (year.clone(), 0usize..13).prop_map(|(y, k)| {
    let ms = valid_months(y);
    (y, ms[k * ms.len() / 13])
  });
  let date = (civil_year, 1i64..=12, 1i64..=31).prop_map(|(y, m, d)| {
    let mut dd = d.min(cal().month_len(y, m).max(1));
    if y == 1582 && m == 10 {
      dd = if d <= 4 { d } else { (d + 10).min(31) };
    }
    (y, m, dd)
  });
  prop_oneof![
    // valid requests
    20 => valid_month.clone().prop_map(|(y, m)| vec![0, y, m, 0, 0]),
    8 => (valid_month.clone(), 1i64..=29, 0i64..3).prop_map(|((y, m), d, o)| vec![1, y, m, d, o]),
    8 => date.clone().prop_map(|(y, m, d)| vec![2, y, m, d, 0]),
    5 => date.clone().prop_map(|(y, m, d)| vec![3, y, m, d, 0]),
    4 => (year.clone(), 0i64..13).prop_map(|(y, i)| vec![4, y.clamp(1, 9998), i, 0, 0]),
    4 => (date.clone(), 0i64..24).prop_map(|((y, m, d), h)| vec![5, y, m, d, h]),
    4 => (date.clone(), 0i64..48).prop_map(|((y, m, d), h)| vec![6, y.clamp(2, 9980), m, d.min(28), h]),
    3 => year.clone().prop_map(|y| vec![7, y.min(9998), 0, 0, 0]),
    6 => (valid_month.clone(), 1i64..=29, 0i64..80).prop_map(|((y, m), d, q)| vec![9, y.clamp(25, 9998), if valid_months(y.clamp(25, 9998)).contains(&m) { m } else { m.abs() }, d, q]),
    4 => (date.clone(), 0i64..576).prop_map(|((y, m, d), q)| vec![10, y.clamp(25, 9998), m, d.min(28), q]),
    4 => (valid_month.clone(), -14i64..=14).prop_map(|((y, m), n)| vec![8, y.clamp(2, 9997), if valid_months(y.clamp(2, 9997)).contains(&m) { m } else { m.abs() }, n, 0]),
    4 => (civil_year2.clone(), -3i64..=27).prop_map(|(y, i)| vec![11, y, i, 0, 0]),
    4 => date.clone().prop_map(|(y, m, d)| vec![12, y, m, d, 0]),
    4 => (1_722_000i64..5_373_000, prop_oneof![Just(0i64), Just(500_000), Just(499_994), Just(999_994), Just(999_998), 0i64..1_000_000]).prop_map(|(n, f)| vec![13, n, f, 0, 0]),
    3 => (date.clone(), -40i64..=40).prop_map(|((y, m, d), n)| vec![14, y, m, d, n]),
    3 => (civil_year2.clone(), 1i64..=12, 0i64..7).prop_map(|(y, m, s)| vec![15, y, m, s, 0]),
    3 => (civil_year2.clone(), 0i64..=25).prop_map(|(y, i)| vec![16, y.min(9997), i, 0, 0]),
    4 => (date.clone(), 0i64..24).prop_map(|((y, m, d), h)| vec![17, y.clamp(25, 9998), m, d.min(28), h]),
    5 => date.clone().prop_map(|(y, m, d)| vec![18, y.clamp(2, 9997), m, d, 0]),
    5 => (date.clone(), 0i64..24).prop_map(|((y, m, d), h)| vec![19, y.clamp(2, 9997), m, d, h]),
    3 => (civil_year2.clone(), 0i64..91).prop_map(|(y, s)| vec![20, y.clamp(1, 9997), s, 0, 0]),
    3 => (date.clone(), 0i64..147).prop_map(|((y, m, d), q)| vec![21, y.clamp(2, 9997), m, d, q]),
    2 => (date.clone(), 0i64..24).prop_map(|((y, m, d), h)| vec![22, y.clamp(3, 9996), m, d.min(28), h]),
    4 => (valid_month.clone(), prop_oneof![6 => 1i64..=29, 1 => Just(30i64), 1 => Just(31), 1 => Just(0)]).prop_map(|((y, m), d)| vec![23, y.clamp(1, 9998), if valid_months(y.clamp(1, 9998)).contains(&m) { m } else { m.abs() }, d, 0]),
    2 => (year.clone(), prop_oneof![Just(0i64), Just(13), Just(-13)], 1i64..=29).prop_map(|(y, m, d)| vec![23, y.clamp(1, 9998), m, d, 0]),
    // refused requests (invalid month, missing leap month, bad day, bad year, unreachable child limit)
    4 => (year.clone(), prop_oneof![Just(0i64), Just(13), Just(-13), Just(14), Just(-14)]).prop_map(|(y, m)| vec![0, y, m, 0, 0]),
    4 => (year.clone(), 1i64..=12).prop_map(|(y, k)| {
      let leap = LunarYear::from_year(y as isize).get_leap_month() as i64;
      let m = if k == leap { -(k % 12 + 1) } else { -k };
      vec![0, y, m, 0, 0]
    }),
    3 => (valid_month.clone(), prop_oneof![Just(0i64), Just(31), Just(32)]).prop_map(|((y, m), d)| vec![1, y, m, d, 0]),
    3 => (prop_oneof![Just(-2i64), Just(-1), Just(10000), Just(10001)], 1i64..=12).prop_map(|(y, m)| vec![0, y, m, 0, 0]),
    2 => (1i64..=12, 1i64..=28, 0i64..48).prop_map(|(m, d, h)| vec![6, 9998, m, d, h]),
    2 => (1571i64..=1582, 1i64..=12, 1i64..=28, 0i64..48).prop_map(|(y, m, d, h)| vec![6, y, m, d, h]),
    1 => (prop_oneof![Just(0i64), Just(10000)], 1i64..=12).prop_map(|(y, m)| vec![2, y, m, 1, 0]),
  ]
}

fn history_strategy(maxlen: usize) -> impl Strategy<Value = Case> {
  // half of the histories are "clusters": every request is moved into the three years around one base year, so that
  // requests about neighbouring years/months (where a mis-keyed memo would confuse them) follow each other
  // a quarter are "neighbourhoods": every date-carrying request is moved to within 45 days of one base date (half of the
  // time a date where the calendar is irregular: reform-era windows, the AD 24 hole, October 1582, the ends of the
  // range), every month-carrying request to the lunar months around it - per-thread cursors and "last result" shortcuts
  // are only wrong for requests close to the previous one
  let special: Vec<i64> = vec![1724360, 1724389, 1730237, 1730265, 1808758, 1808787, 1729853, 1729882, 1729823, 1729912, 2299160, 2299161, 1721424 + 40, 1721424 + 400, 5373484 - 400, 5373484 - 40, 2415021, 2460311,
    // Lichun days (the year pillar turns inside the day): 1950-02-04, 1984-02-04, 2017-02-03, 2024-02-04, 2100-02-04
    2433317, 2445735, 2457788, 2460345, 2488104]
    .into_iter()
    .filter_map(|j| cal().index_of_jdn(j).map(|i| i as i64))
    .collect();
  let nsp = special.len();
  let nb = prop_oneof![1 => 60i64..(NDAYS as i64 - 60), 1 => (0..nsp).prop_map(move |k| special[k])];
  (proptest::collection::vec(op_strategy(), 1..maxlen), prop_oneof![2 => Just(-1i64), 2 => 30i64..9990, 2 => nb.prop_map(|i| 20_000 + i)]).prop_map(|(mut ops, base)| {
    if base >= 20_000 {
      let c = cal();
      let b = base - 20_000;
      for (k, op) in ops.iter_mut().enumerate() {
        // half of the requests within 3 days of the base date, the others within 45
        let h = op[2] * 7 + op[3] * 31 + op[4] * 3 + k as i64 * 13;
        let off = if h % 2 == 0 { h.rem_euclid(7) - 3 } else { h.rem_euclid(91) - 45 };
        let i = (b + off).clamp(0, NDAYS as i64 - 1) as usize;
        let (y, m, d) = c.ymd(i);
        match op[0] {
          2 | 3 | 5 | 12 | 14 | 18 | 19 | 21 if y >= 2 && y <= 9997 || matches!(op[0], 2 | 3 | 5 | 12 | 14) => {
            op[1] = y;
            op[2] = m;
            op[3] = d;
          }
          10 | 17 | 22 if y >= 25 && y <= 9996 => {
            op[1] = y;
            op[2] = m;
            op[3] = d.min(28);
          }
          0 | 1 | 8 | 9 if (0..=9999).contains(&op[1]) && op[2].abs() >= 1 && op[2].abs() <= 12 => {
            // a valid request stays valid: the lunar month numbered like the civil month (or the one before) of that year
            let yy = if op[0] == 9 { y.clamp(25, 9998) } else if op[0] == 8 { y.clamp(2, 9997) } else { y };
            let ms = valid_months(yy);
            let cand = if off < 0 { ((m + 10) % 12) + 1 } else { m };
            if ms.contains(&op[2]) || ms.contains(&op[2].abs()) {
              op[1] = yy;
              op[2] = if ms.contains(&-cand) && k % 2 == 1 { -cand } else { cand };
            }
          }
          4 | 7 | 11 | 15 | 16 | 20 if (1..=9998).contains(&op[1]) => {
            op[1] = y.clamp(1, 9997);
          }
          _ => {}
        }
      }
    } else if base >= 0 {
      for (k, op) in ops.iter_mut().enumerate() {
        if op[0] != 13 && (0..=9999).contains(&op[1]) {
          op[1] = base + (k as i64 % 3) - 1;
          if op[0] == 0 || op[0] == 1 || op[0] == 8 || op[0] == 9 {
            // keep the month valid for the new year
            let ms = valid_months(op[1]);
            if !ms.contains(&op[2]) && op[2].abs() >= 1 && op[2].abs() <= 12 && ms.contains(&op[2].abs()) {
              op[2] = op[2].abs();
            }
          }
        }
      }
    }
    Case::ints(&ops.concat())
  })
}


/// number of light observers of the `hammer` sub-check
pub const LIGHT_KINDS: usize = 30;

/// One narrow observation of the library (a single getter family) for the civil date with index `i` and an extra
/// argument `e`: narrow on purpose, so that threads hammering it spend their time inside the same library code.
pub fn light(kind: usize, i: i64, e: i64) -> String {
  let c = cal();
  let i = i.clamp(0, NDAYS as i64 - 1) as usize;
  let (y, m, d) = c.ymd(i);
  let h = e.rem_euclid(24);
  let r = guard(|| {
    let day = || sd(y, m, d);
    let time = || SolarTime::from_ymd_hms(y as isize, m as usize, d as usize, h as usize, (e.rem_euclid(60)) as usize, 0);
    match kind {
      0 => format!("{}|{}|{}", day().get_index_in_year(), day().get_julian_day().get_day(), day().get_week()),
      1 => day().get_lunar_day().to_string(),
      2 => day().get_sixty_cycle_day().to_string(),
      3 => { let t = day().get_term_day(); format!("{}|{}", t.get_solar_term(), t.get_day_index()) }
      4 => format!("{:?}|{:?}|{:?}", day().get_nine_day().map(|x| x.to_string()), day().get_dog_day().map(|x| x.to_string()), day().get_plum_rain_day().map(|x| x.to_string())),
      5 => format!("{}|{}", day().get_phenology_day(), day().get_hide_heaven_stem_day()),
      6 => { let l = day().get_lunar_day(); format!("{}|{}|{}|{}", l.get_duty(), l.get_twelve_star(), l.get_twenty_eight_star(), l.get_six_star()) }
      7 => format!("{}|{}", day().get_lunar_day().get_nine_star(), day().get_sixty_cycle_day().get_nine_star()),
      8 => format!("{}|{}", time().get_sixty_cycle_hour().get_nine_star(), time().get_lunar_hour().get_nine_star()),
      9 => format!("{}|{}", time().get_sixty_cycle_hour().get_twelve_star(), time().get_lunar_hour().get_eight_char()),
      10 => time().get_sixty_cycle_hour().to_string(),
      11 => { let cl = ChildLimit::from_solar_time(time(), if e % 2 == 0 { Gender::MAN } else { Gender::WOMAN }); format!("{}|{}", cl.get_end_time(), cl.get_start_decade_fortune().get_name()) }
      12 => format!("{:?}|{:?}", LunarFestival::from_index(y as isize, (e.rem_euclid(13)) as usize).map(|f| f.get_day().to_string()), day().get_lunar_day().get_festival().map(|x| x.to_string())),
      13 => format!("{:?}|{:?}", day().get_legal_holiday().map(|x| x.to_string()), day().get_festival().map(|x| x.to_string())),
      14 => { let sc = day().get_sixty_cycle_day(); format!("{}|{}|{}", sc.get_gods().len(), sc.get_recommends().len(), sc.get_avoids().iter().map(|x| x.get_name()).collect::<Vec<_>>().join(",")) }
      15 => { let sh = time().get_sixty_cycle_hour(); format!("{}|{}", sh.get_recommends().iter().map(|x| x.get_name()).collect::<Vec<_>>().join(","), time().get_lunar_hour().get_avoids().len()) }
      16 => { let ly = LunarYear::from_year(y as isize); format!("{}|{}|{}", ly.get_leap_month(), ly.get_day_count(), ly.get_months().len()) }
      17 => { let ms = valid_months(y); let lm = LunarMonth::from_ym(y as isize, ms[(e.rem_euclid(13) as usize) * ms.len() / 13] as isize); let g = lm.next((e.rem_euclid(9) - 4) as isize); format!("{}|{}|{}|{}", lm.get_day_count(), lm.get_first_julian_day().get_day(), g, g.get_first_julian_day().get_day()) }
      18 => { let sy = tyme4rs::tyme::sixtycycle::SixtyCycleYear::from_year(y as isize); let ms = sy.get_months(); format!("{}|{}", ms.iter().map(|x| x.to_string()).collect::<Vec<_>>().join(","), ms[(e.rem_euclid(12)) as usize].get_first_day()) }
      19 => { let mo = tyme4rs::tyme::sixtycycle::SixtyCycleMonth::from_index(y as isize, e.rem_euclid(12) as isize); format!("{}|{}|{}", mo, mo.get_first_day(), mo.get_nine_star()) }
      20 => { let w = day().get_solar_week((e.rem_euclid(7)) as usize); format!("{}|{}|{}", w.get_first_day(), w.get_index(), w.get_index_in_year()) }
      21 => { let lm = day().get_lunar_day().get_lunar_month(); let w = tyme4rs::tyme::lunar::LunarWeek::from_ym(lm.get_year(), lm.get_month_with_leap(), (e.rem_euclid(4)) as usize, (e.rem_euclid(7)) as usize); format!("{}|{}", w.get_first_day(), w.next(1).get_first_day()) }
      22 => { let t = time(); let j = t.get_julian_day(); format!("{}|{}|{}", j.get_solar_time(), j.get_solar_day(), t.next((e * 977) as isize)) }
      23 => { let ly = LunarYear::from_year(y as isize); format!("{}|{}|{}", ly.get_nine_star(), ly.get_jupiter_direction(), ly.get_kitchen_god_steed()) }
      24 => { let t = tyme4rs::tyme::solar::SolarTerm::from_index(y as isize, e.rem_euclid(30) as isize - 3); format!("{}|{}|{}", t.get_julian_day().get_day(), t.get_cursory_julian_day(), t.next((e.rem_euclid(61) - 30) as isize).get_julian_day().get_day()) }
      25 => { let l = day().get_lunar_day(); let l2 = LunarDay::from_ymd(l.get_year(), l.get_month(), l.get_day()); format!("{}|{}|{}", l2.get_solar_day(), l2.get_sixty_cycle(), l2.next((e.rem_euclid(81) - 40) as isize)) }
      26 => { let lh = time().get_lunar_hour(); let g = lh.next((e.rem_euclid(25) - 12) as isize); format!("{}|{}|{}", g, g.get_solar_time(), g.get_sixty_cycle_hour()) }
      27 => { let l = day().get_lunar_day(); format!("{}|{:?}|{}|{}", l.get_fetus_day(), l.get_lunar_month().get_fetus().map(|x| x.to_string()), l.get_minor_ren(), l.get_phase()) }
      28 => { let sc = day().get_sixty_cycle_day().get_sixty_cycle(); let hs = sc.get_heaven_stem(); let eb = sc.get_earth_branch(); format!("{}|{}|{}|{}|{}", hs.get_terrain(eb.clone()), sc.get_sound(), sc.get_ten(), hs.get_ten_star(tyme4rs::tyme::sixtycycle::HeavenStem::from_index(e as isize)), eb.get_hide_heaven_stems().iter().map(|x| x.get_name()).collect::<Vec<_>>().join(",")) }
      _ => { let ec = time().get_lunar_hour().get_eight_char(); format!("{}|{}|{}|{}", ec.get_fetal_origin(), ec.get_fetal_breath(), ec.get_own_sign(), ec.get_body_sign()) }
    }
  });
  r.unwrap_or_else(|_| "REFUSED".to_string())
}

/// one step of background noise for the concurrent passes of the other properties: a cheap narrow query about a
/// pseudo-random date (the answer is dropped; refusals are fine)
pub fn noise_step(n: u64) {
  const CHEAP: [usize; 20] = [0, 1, 2, 3, 4, 5, 6, 7, 8, 10, 13, 16, 19, 20, 22, 23, 24, 25, 27, 28];
  let kind = CHEAP[(n % CHEAP.len() as u64) as usize];
  let i = 400 + (mix(n) % (NDAYS as u64 - 5000)) as i64;
  let e = (mix(n ^ 0x55) % 1000) as i64;
  let _ = light(kind, i, e);
}

fn light_desc(kind: usize) -> &'static str {
  ["day of year / day count / weekday", "civil -> lunar date", "sexagenary day", "term day", "Nines / Dog days / Plum rains", "pentad / commanding stem", "duty / twelve spirits / mansion / six star", "day nine star (both views)", "hour nine star (both views)", "hour twelve spirits / eight characters", "sexagenary hour (four pillars)", "child limit", "lunar festival by index / by date", "legal holiday / civil festival", "day spirits and taboos", "hour taboos", "lunar year (leap month, length, months)", "lunar month and stepping", "sexagenary year month list", "sexagenary month first day", "solar week", "lunar week", "Julian date <-> instant, second stepping", "year nine star / Jupiter / kitchen god", "solar term instant and stepping", "lunar date -> civil, stepping", "lunar hour stepping", "foetus spirits / minor Ren / phase", "stem-branch relations", "eight-character derived pillars"][kind.min(29)]
}

fn ops_of(case: &Case) -> Vec<Vec<i64>> {
  case.a.chunks(OPW).filter(|c| c.len() == OPW).map(|c| c.to_vec()).collect()
}

fn is_lunar_op(op: &[i64]) -> bool {
  matches!(op[0], 0..=23)
}

/// classify a history (non-trivial rule) and count generator classes
fn classify(out: &mut Out, ops: &[Vec<i64>], refs: &[String]) -> bool {
  let mut nt = false;
  // (a) two lunar-month requests with equal concatenated digits
  let mut seen: HashMap<String, (i64, i64)> = HashMap::new();
  for op in ops {
    if op[0] == 0 || op[0] == 8 {
      for (t, k) in concat_keys(op[1], op[2]).iter().enumerate() {
        let kk = format!("{}:{}", t, k);
        if let Some(prev) = seen.get(&kk) {
          if *prev != (op[1], op[2]) {
            nt = true;
            out.class("history_with_colliding_concatenation");
          }
        }
        seen.insert(kk, (op[1], op[2]));
      }
    }
  }
  // (b) a refusal followed by at least one valid lunar request
  let mut refused_seen = false;
  let mut refusal_then_valid = false;
  for (op, r) in ops.iter().zip(refs) {
    if r == "REFUSED" {
      refused_seen = true;
    } else if refused_seen && is_lunar_op(op) {
      refusal_then_valid = true;
    }
  }
  if refused_seen {
    out.class("history_with_refusal");
  }
  if refusal_then_valid {
    nt = true;
    out.class("history_with_refusal_then_valid");
  }
  // (c) same month requested twice (memo hit) or leap twin of an earlier request
  let mut months: Vec<(i64, i64)> = vec![];
  for op in ops {
    if op[0] == 0 {
      if months.iter().any(|&(y, m)| y == op[1] && m == -op[2]) {
        out.class("history_with_leap_twin_pair");
        nt = true;
      }
      months.push((op[1], op[2]));
    }
  }
  nt
}

impl C10 {
  /// in-process oracle: every answer inside the history equals the answer of the same request from a pristine state
  fn eval_history(&self, env: &Env, out: &mut Out, sub: &str, case: &Case) {
    let ops = ops_of(case);
    if ops.is_empty() {
      return;
    }
    if BLOCKED.load(Ordering::SeqCst) {
      out.skip("skipped_after_a_blocked_request");
      return;
    }
    out.eval(sub);
    let t_ref = std::time::Instant::now();
    let mut refs: Vec<String> = Vec::with_capacity(ops.len());
    let mut memo: BTreeMap<Vec<i64>, String> = BTreeMap::new();
    for op in &ops {
      if !memo.contains_key(op) {
        match pristine_answer(op) {
          Ok(a) => {
            memo.insert(op.clone(), a);
          }
          Err(limit) => {
            report_blocked_reference(env, out, sub, case, op, limit);
            return;
          }
        }
      }
      refs.push(memo[op].clone());
    }
    let t_ref = t_ref.elapsed();
    let nt = classify(out, &ops, &refs);
    if nt {
      out.nontrivial(sub, &case.a);
    }
    if out.wants_sample(sub, nt) {
      out.sample(sub, nt, || json!({"history": ops.iter().map(|o| op_desc(o)).collect::<Vec<_>>(), "cold_answers": refs}));
    }
    for (pos, r) in refs.iter().enumerate() {
      if r.starts_with("ORDER-DEPENDENT") {
        out.fail(env, Viol { sub: sub.into(), kind: "answer_depends_on_order_of_reads_on_one_value".into(), case: Case::ints(&ops[pos]), key: key(&[("op", ops[pos][0]), ("p1", ops[pos][1]), ("p2", ops[pos][2])]), desc: op_desc(&ops[pos]), expected: "the same answer whichever memoised view is read first".into(), got: r.clone() });
        return;
      }
    }
    clean_state();
    let ops_t = ops.clone();
    let (tx, rx) = std::sync::mpsc::channel::<String>();
    let handle = std::thread::spawn(move || {
      for o in ops_t.iter() {
        if tx.send(answer(o)).is_err() {
          break;
        }
      }
    });
    let limit = stall_limit(t_ref);
    let mut got_all: Vec<String> = Vec::with_capacity(ops.len());
    while got_all.len() < ops.len() {
      match rx.recv_timeout(limit) {
        Ok(a) => got_all.push(a),
        Err(std::sync::mpsc::RecvTimeoutError::Disconnected) => break,
        Err(std::sync::mpsc::RecvTimeoutError::Timeout) => {
          let pos = got_all.len();
          BLOCKED.store(true, Ordering::SeqCst);
          let hist: Vec<String> = ops[..=pos].iter().map(|o| op_desc(o)).collect();
          out.fail(env, Viol { sub: sub.into(), kind: "request_blocked_by_history".into(), case: case.clone(), key: key(&[("pos", pos as i64), ("op", ops[pos][0]), ("p1", ops[pos][1]), ("p2", ops[pos][2])]), desc: format!("history {:?}", hist), expected: format!("{} -> {} (answered in {:?} from a pristine state)", op_desc(&ops[pos]), refs[pos], t_ref), got: format!("no answer within {:?} after the earlier requests of the history", limit) });
          return;
        }
      }
    }
    let _ = handle.join();
    for (pos, op) in ops.iter().enumerate() {
      let got = got_all.get(pos).cloned().unwrap_or_else(|| "MISSING".to_string());
      if got != refs[pos] {
        let hist: Vec<String> = ops[..=pos].iter().map(|o| op_desc(o)).collect();
        let kind = if refs[pos] == "REFUSED" {
          "refused_request_answered"
        } else if got == "REFUSED" {
          "valid_request_broken_by_history"
        } else {
          "answer_depends_on_history"
        };
        out.fail(env, Viol { sub: sub.into(), kind: kind.into(), case: case.clone(), key: key(&[("pos", pos as i64), ("op", op[0]), ("p1", op[1]), ("p2", op[2])]), desc: format!("history {:?}", hist), expected: format!("{} -> {}", op_desc(op), refs[pos]), got });
        break;
      }
    }
    clean_state();
  }

  /// hook-free oracle: the history in one fresh process vs every request alone in its own fresh process
  fn eval_fresh(&self, env: &Env, out: &mut Out, case: &Case) {
    let ops = ops_of(case);
    if ops.is_empty() {
      return;
    }
    out.eval("fresh");
    if BLOCKED.load(Ordering::SeqCst) {
      out.skip("skipped_after_a_blocked_request");
      return;
    }
    let single_limit = stall_limit(std::time::Duration::from_secs(0));
    thread_local! {
      static ALONE: std::cell::RefCell<HashMap<Vec<i64>, String>> = std::cell::RefCell::new(HashMap::new());
    }
    let mut alone: Vec<String> = vec![];
    let t_alone = std::time::Instant::now();
    for op in &ops {
      if let Some(a) = ALONE.with(|m| m.borrow().get(op).cloned()) {
        alone.push(a);
        continue;
      }
      match run_fresh(op, single_limit) {
        Fresh::Answered(v) if v.len() == 1 => {
          ALONE.with(|m| m.borrow_mut().insert(op.clone(), v[0].clone()));
          alone.push(v[0].clone())
        }
        Fresh::TimedOut => {
          out.skip("request_never_returns_even_in_a_fresh_process");
          out.note(format!("INCONCLUSIVE: {} does not return within {:?} alone in a fresh process", op_desc(op), single_limit));
          return;
        }
        _ => {
          out.skip("fresh_process_failed");
          return;
        }
      }
    }
    // the whole history in one fresh process: a deadline of 1 min + 300x what its requests took in processes of their own
    let whole_limit = stall_limit(t_alone.elapsed());
    let whole = match run_fresh(&case.a, whole_limit) {
      Fresh::Answered(v) => Some(v),
      Fresh::Failed => None,
      Fresh::TimedOut => {
        // no shrinking of blocked histories: every shrink step would cost the whole deadline again
        BLOCKED.store(true, Ordering::SeqCst);
        let nt = classify(out, &ops, &alone);
        if nt {
          out.nontrivial("fresh", &case.a);
        }
        out.fail(env, Viol { sub: "fresh".into(), kind: "history_blocks_in_a_fresh_process".into(), case: case.clone(), key: key(&[("op", ops[0][0]), ("p1", ops[0][1]), ("p2", ops[0][2]), ("n", ops.len() as i64)]), desc: format!("history {:?} in one fresh process", ops.iter().map(|o| op_desc(o)).collect::<Vec<_>>()), expected: format!("{:?} (each alone in a fresh process)", alone), got: format!("the process did not finish within {:?}", whole_limit) });
        return;
      }
    };
    let nt = classify(out, &ops, &alone);
    if nt {
      out.nontrivial("fresh", &case.a);
    }
    out.sample("fresh", nt, || json!({"history": ops.iter().map(|o| op_desc(o)).collect::<Vec<_>>(), "fresh_process_answers": alone}));
    match whole {
      Some(w) if w.len() == ops.len() => {
        for pos in 0..ops.len() {
          if w[pos] != alone[pos] {
            out.fail(env, Viol { sub: "fresh".into(), kind: "differs_from_fresh_process".into(), case: case.clone(), key: key(&[("pos", pos as i64), ("op", ops[pos][0])]), desc: format!("history {:?}", ops[..=pos].iter().map(|o| op_desc(o)).collect::<Vec<_>>()), expected: format!("{} -> {} (alone in a fresh process)", op_desc(&ops[pos]), alone[pos]), got: w[pos].clone() });
            break;
          }
        }
      }
      _ => out.skip("fresh_process_failed"),
    }
  }


  /// a = [kind, loops, i1, e1, i2, e2, ...]: one light observer, its answers computed one by one on a single thread, then
  /// hammered by 8 threads at once (each starts at a different argument and loops over all of them `loops` times)
  fn eval_hammer(&self, env: &Env, out: &mut Out, case: &Case) {
    if case.a.len() < 4 || BLOCKED.load(Ordering::SeqCst) {
      return;
    }
    let kind = case.a[0].rem_euclid(LIGHT_KINDS as i64) as usize;
    let loops = case.a[1].clamp(1, 2000) as usize;
    let args: Vec<(i64, i64)> = case.a[2..].chunks(2).filter(|c| c.len() == 2).map(|c| (c[0], c[1])).collect();
    out.eval("hammer");
    out.nontrivial("hammer", &case.a);
    clean_state();
    // phase A (cold): 8 threads released together walk the dates in the SAME order, so each date is first asked for by
    // several threads at once; the truth is the same observer in a fresh single-threaded process
    let n = args.len();
    let cold: Vec<Vec<String>> = {
      let barrier = std::sync::Barrier::new(8);
      std::thread::scope(|sc| {
        let (args, barrier) = (&args, &barrier);
        let hs: Vec<_> = (0..8).map(|_| sc.spawn(move || { barrier.wait(); args.iter().map(|(i, e)| light(kind, *i, *e).replace('\n', " ")).collect::<Vec<String>>() })).collect();
        hs.into_iter().map(|h| h.join().unwrap_or_default()).collect()
      })
    };
    let mut flat: Vec<i64> = vec![kind as i64];
    for (i, e) in &args {
      flat.push(*i);
      flat.push(*e);
    }
    let fresh = match run_fresh_aux("light", &flat, stall_limit(std::time::Duration::from_secs(0))) {
      Fresh::Answered(v) if v.len() == n => Some(v),
      _ => {
        out.skip("hammer_fresh_process_reference_unavailable");
        None
      }
    };
    if let Some(fr) = &fresh {
      out.class_n("cold_concurrent_first_requests", (n * 8) as u64);
      'cold: for (t, ans) in cold.iter().enumerate() {
        for p in 0..n {
          if ans.get(p) != Some(&fr[p]) {
            let c = cal();
            let (i, e) = args[p];
            out.fail(env, Viol { sub: "hammer".into(), kind: "answer_differs_when_first_asked_concurrently".into(), case: case.clone(), key: key(&[("observer", kind as i64), ("jdn", c.jdn(i.clamp(0, NDAYS as i64 - 1) as usize)), ("e", e)]), desc: format!("{} of {} (extra argument {}), thread {} of 8 threads asking the same {} dates in the same order from a cold start", light_desc(kind), c.fmt(i.clamp(0, NDAYS as i64 - 1) as usize), e, t, n), expected: format!("{} (single-threaded in a fresh process)", fr[p]), got: ans.get(p).cloned().unwrap_or_else(|| "MISSING".into()) });
            break 'cold;
          }
        }
      }
    }
    clean_state();
    let a2 = args.clone();
    let refs: Vec<String> = std::thread::spawn(move || a2.iter().map(|(i, e)| light(kind, *i, *e)).collect()).join().unwrap_or_default();
    if refs.len() != args.len() {
      out.skip("hammer_reference_thread_failed");
      return;
    }
    // what the concurrent first requests left behind must not have changed later single-threaded answers either
    if let Some(fr) = &fresh {
      if let Some(p) = (0..n).find(|&p| refs[p].replace('\n', " ") != fr[p]) {
        let c = cal();
        let (i, e) = args[p];
        out.fail(env, Viol { sub: "hammer".into(), kind: "answer_changed_by_earlier_concurrent_requests".into(), case: case.clone(), key: key(&[("observer", kind as i64), ("jdn", c.jdn(i.clamp(0, NDAYS as i64 - 1) as usize)), ("e", e)]), desc: format!("{} of {} (extra argument {}) asked single-threaded after 8 threads had asked the same dates concurrently", light_desc(kind), c.fmt(i.clamp(0, NDAYS as i64 - 1) as usize), e), expected: format!("{} (single-threaded in a fresh process)", fr[p]), got: refs[p].clone() });
        return;
      }
    }
    clean_state();
    out.class_n("hammered_requests", (args.len() * loops * 8) as u64);
    if out.wants_sample("hammer", true) {
      out.sample("hammer", true, || json!({"observer": light_desc(kind), "arguments": args.len(), "threads": 8, "loops": loops, "first_answer": refs.first()}));
    }
    let bad: Vec<Option<(usize, String)>> = std::thread::scope(|sc| {
      let (args, refs) = (&args, &refs);
      let hs: Vec<_> = (0..8usize)
        .map(|t| {
          sc.spawn(move || {
            for l in 0..loops {
              for j in 0..n {
                let p = (j + t * n / 8 + l) % n;
                let g = light(kind, args[p].0, args[p].1);
                if g != refs[p] {
                  return Some((p, g));
                }
              }
            }
            None
          })
        })
        .collect();
      hs.into_iter().map(|h| h.join().unwrap_or(None)).collect()
    });
    if let Some((p, g)) = bad.into_iter().flatten().next() {
      let c = cal();
      let (i, e) = args[p];
      out.fail(env, Viol { sub: "hammer".into(), kind: "answer_differs_under_concurrent_use".into(), case: case.clone(), key: key(&[("observer", kind as i64), ("jdn", c.jdn(i.clamp(0, NDAYS as i64 - 1) as usize)), ("e", e)]), desc: format!("{} of {} (extra argument {}) while 8 threads ask the same observer about {} dates", light_desc(kind), c.fmt(i.clamp(0, NDAYS as i64 - 1) as usize), e, n), expected: format!("{} (one by one on a single thread)", refs[p]), got: g });
    }
    clean_state();
  }

  /// a = [last year]: answers about a fixed set of early and scattered months, then EVERY lunar month of the years up to
  /// `last year` once (tens of thousands of distinct requests in one process), then the fixed set again: a memo with a
  /// capacity, an eviction rule or a growing table must not change any answer
  fn eval_long(&self, env: &Env, out: &mut Out, case: &Case) {
    let last = case.a[0].clamp(100, 9999);
    out.eval("long");
    out.nontrivial("long", &case.a);
    clean_state();
    let mut probe: Vec<Vec<i64>> = vec![];
    for y in (0..=40i64).chain([236, 1582, 1999, 2000, 2033, last - 1, last]) {
      for m in valid_months(y) {
        probe.push(vec![0, y, m, 0, 0]);
      }
      probe.push(vec![7, y.clamp(0, 9998), 0, 0, 0]);
      probe.push(vec![2, y.clamp(1, 9998), 6, 15, 0]);
    }
    let before: Vec<String> = probe.iter().map(|o| answer(o)).collect();
    let mut n = 0u64;
    for y in 41..=last {
      for m in valid_months(y) {
        let _ = guard(|| LunarMonth::from_ym(y as isize, m as isize).get_day_count());
        n += 1;
      }
    }
    out.class_n("distinct_month_requests_in_one_long_history", n);
    out.sample("long", true, || json!({"probe_requests": probe.len(), "distinct_months_requested_in_between": n}));
    for (o, b) in probe.iter().zip(before.iter()) {
      let a = answer(o);
      if a != *b {
        out.fail(env, Viol { sub: "long".into(), kind: "answer_changed_after_a_long_history".into(), case: case.clone(), key: key(&[("op", o[0]), ("p1", o[1]), ("p2", o[2])]), desc: format!("{} before and after {} other distinct month requests in the same process", op_desc(o), n), expected: b.clone(), got: a });
        break;
      }
    }
    clean_state();
  }

  /// the same requests issued concurrently by 16 threads from a shared queue
  fn eval_threads(&self, env: &Env, out: &mut Out, case: &Case) {
    let ops = ops_of(case);
    if ops.is_empty() {
      return;
    }
    if BLOCKED.load(Ordering::SeqCst) {
      out.skip("skipped_after_a_blocked_request");
      return;
    }
    out.eval("threads");
    let t_ref = std::time::Instant::now();
    let mut memo: BTreeMap<Vec<i64>, String> = BTreeMap::new();
    let mut refs: Vec<String> = vec![];
    for op in &ops {
      if !memo.contains_key(op) {
        match pristine_answer(op) {
          Ok(a) => {
            memo.insert(op.clone(), a);
          }
          Err(limit) => {
            report_blocked_reference(env, out, "threads", case, op, limit);
            return;
          }
        }
      }
      refs.push(memo[op].clone());
    }
    // slowest plausible single request: the whole reference pass (an upper bound for any one of them)
    let t_ref = t_ref.elapsed();
    clean_state();
    out.nontrivial("threads", &case.a);
    out.class_n("threaded_requests", ops.len() as u64);
    out.sample("threads", true, || json!({"threads": 16, "requests": ops.len(), "first_requests": ops.iter().take(4).map(|o| op_desc(o)).collect::<Vec<_>>()}));
    let next = std::sync::Arc::new(AtomicUsize::new(0));
    let done = std::sync::Arc::new(AtomicUsize::new(0));
    let alive = std::sync::Arc::new(AtomicUsize::new(16));
    let got: std::sync::Arc<Mutex<Vec<Option<String>>>> = std::sync::Arc::new(Mutex::new(vec![None; ops.len()]));
    let shared_ops = std::sync::Arc::new(ops.clone());
    for _ in 0..16 {
      let (next, done, alive, got, shared_ops) = (next.clone(), done.clone(), alive.clone(), got.clone(), shared_ops.clone());
      std::thread::spawn(move || {
        loop {
          let i = next.fetch_add(1, Ordering::SeqCst);
          if i >= shared_ops.len() {
            break;
          }
          let a = answer(&shared_ops[i]);
          got.lock().unwrap_or_else(|e| e.into_inner())[i] = Some(a);
          done.fetch_add(1, Ordering::SeqCst);
        }
        alive.fetch_sub(1, Ordering::SeqCst);
      });
    }
    // wait for the 16 threads; "no request completed for stall_limit" means they block one another
    let limit = stall_limit(t_ref);
    let mut last = (done.load(Ordering::SeqCst), std::time::Instant::now());
    while alive.load(Ordering::SeqCst) > 0 {
      std::thread::sleep(std::time::Duration::from_millis(2));
      let d = done.load(Ordering::SeqCst);
      if d != last.0 {
        last = (d, std::time::Instant::now());
      } else if last.1.elapsed() > limit {
        BLOCKED.store(true, Ordering::SeqCst);
        let pending: Vec<usize> = got.lock().unwrap_or_else(|e| e.into_inner()).iter().enumerate().filter(|(i, g)| g.is_none() && *i < next.load(Ordering::SeqCst)).map(|(i, _)| i).take(16).collect();
        let first = pending.first().copied().unwrap_or(0).min(ops.len() - 1);
        out.fail(env, Viol { sub: "threads".into(), kind: "requests_block_one_another".into(), case: case.clone(), key: key(&[("op", ops[first][0]), ("p1", ops[first][1]), ("p2", ops[first][2])]), desc: format!("{} concurrent requests on 16 threads; in flight: {:?}", ops.len(), pending.iter().map(|&i| op_desc(&ops[i])).collect::<Vec<_>>()), expected: format!("all answered (one by one they took {:?} in total)", t_ref), got: format!("{} of {} answered, then none for {:?}", d, ops.len(), limit) });
        return;
      }
    }
    let got: Vec<Option<String>> = got.lock().unwrap_or_else(|e| e.into_inner()).clone();
    for (pos, g) in got.iter().enumerate() {
      let g = g.clone().unwrap_or_else(|| "MISSING".into());
      if g != refs[pos] {
        out.fail(env, Viol { sub: "threads".into(), kind: "answer_depends_on_interleaving".into(), case: case.clone(), key: key(&[("op", ops[pos][0]), ("p1", ops[pos][1]), ("p2", ops[pos][2])]), desc: format!("{} issued among {} concurrent requests on 16 threads", op_desc(&ops[pos]), ops.len()), expected: refs[pos].clone(), got: g });
        break;
      }
    }
    clean_state();
  }
}

impl Prop for C10 {
  fn id(&self) -> &'static str {
    "C10"
  }
  fn meta(&self, _env: &Env) -> Meta {
    Meta {
      rule: "Requests: LunarMonth::from_ym, LunarDay::new (+3 getter orders over the per-value memos), SolarDay->lunar, SixtyCycleDay, LunarFestival::from_index, eight characters, ChildLimit, LunarYear month list, LunarMonth::next; each answer is a canonical string of all observable fields, a refusal (Err or panic) is REFUSED. Generators: (1) `collide`: both orders of every pair of valid (year, month) requests whose undelimited concatenation year||month or month||year coincides (complete), and `collide_arith`: both orders of pairs that coincide under 25 arithmetic key functions (year*k+month, year*k+|month| for k in 10..64, leap twins, xor/shift packings), up to 400/4000 pairs per function; (2) `history`: proptest vec(op, 1..60), 40% of years from a 30-year pool of neighbouring/colliding years, ~22% injected refused requests (month 0/13/-13, leap month the year lacks, day 0/31/32, year -2/-1/10000, child limits ending outside the supported range or in the 1582 gap); (3) `threads`: proptest-generated request lists issued by 16 threads from a shared queue (a round in which no request completes for 1 min + 300x the one-by-one time is reported as blocked); (3b) `hammer`: 30 narrow observers (one getter family each: day of year, lunar date, pillars, term day, the term-anchored series, almanac cycles, nine stars of day and hour, taboos, child limit, festivals, holidays, weeks, lunar/sexagenary years and months, Julian dates, stepping, stem-branch relations), each asked about 48 proptest dates one by one and then by 8 threads at once in tight loops (dense contention inside one piece of library code); (3c) `long`: one history of every lunar month of 5,800 (quick) / 9,999 years (72k / 124k distinct requests) between two passes over a fixed probe set; (4) `fresh`: proptest histories executed in a fresh process and each request alone in its own fresh process (no hooks). A third of the histories are clusters (all requests moved into the three years around one base year) and a third are neighbourhoods (all date-carrying requests within 45 days of one base date, half of the time a date where the calendar is irregular; month-carrying requests in the lunar months around it). Requests also cover solar terms incl. year-carrying indices, day->term, Julian date -> day/instant/weekday, civil day arithmetic, civil month lists, sexagenary months, and single requests that internally compare 'views read first' with 'not read' (reported as ORDER-DEPENDENT). Oracle: answer inside the history (run in its own fresh thread) == answer of the same request from a pristine state (guarded hooks empty the memo and clear lock poison; a brand-new thread gives pristine thread-locals) == answer in a fresh process; a history whose next request does not return within 1 min + 300x its pristine time is reported as blocked. Non-trivial: the history contains two lunar-month requests with equal concatenated digits, a month and its leap twin, or a refusal followed by at least one valid request; every threaded round is non-trivial. Distinct = distinct op sequences.".into(),
      assumptions: vec![
        "The in-process oracle trusts the verif-hooks reset/clear_poison accessors to restore a pristine state; the `fresh` sub-check does not use them and cross-checks this on sampled histories".into(),
        "Thread interleavings are whatever the OS scheduler produces in this run (sampled, not enumerated); a threaded violation may not reproduce from its replay file".into(),
        "A refusal is Err or panic; refusals are compared as refusals, not by message".into(),
      ],
      level_text: String::new(),
    }
  }
  fn plan(&self, env: &Env) -> Vec<TaskSpec> {
    vec![task("collide", 4), task("history", 16), task("threads", env.tier.pick(4, 16)), task("hammer", env.tier.pick(5, 15)), task("long", 1), task("fresh", 16)]
  }
  fn run(&self, env: &Env, t: &str, shard: usize, nshards: usize, out: &mut Out) {
    let ev = |e: &Env, o: &mut Out, s: &str, cs: &Case| self.eval(e, o, s, cs);
    match t {
      "collide" => {
        let pairs = colliding_pairs();
        let (lo, hi) = shard_range(pairs.len(), shard, nshards);
        for p in &pairs[lo..hi] {
          let c = Case::ints(&[0, p[0], p[1], 0, 0, 0, p[2], p[3], 0, 0]);
          run_case(env, out, "collide", &c, &ev);
        }
        out.set_exhaustive("collide", true);
        // the same request twice, then day requests at the end of the month: a memo that stores a lossy copy answers the
        // second time differently (every month of the special years, and of every 97th year)
        if shard == 0 {
          for y in (0..=9999i64).filter(|y| SPECIAL_YEARS.contains(y) || y % 97 == 5) {
            for m in valid_months(y) {
              let dc = LunarMonth::from_ym(y as isize, m as isize).get_day_count() as i64;
              out.class("repeated_request_histories");
              run_case(env, out, "collide", &Case::ints(&[0, y, m, 0, 0, 0, y, m, 0, 0, 1, y, m, dc, 0, 1, y, m, dc + 1, 0, 7, y, 0, 0, 0]), &ev);
            }
          }
          clean_state();
        }
        // the same two-request histories for pairs that coincide under arithmetic keys (sampled)
        let ap = arithmetic_key_pairs(env.tier.pick(400, 4000));
        let (lo, hi) = shard_range(ap.len(), shard, nshards);
        for p in &ap[lo..hi] {
          let c = Case::ints(&[0, p[0], p[1], 0, 0, 0, p[2], p[3], 0, 0]);
          run_case(env, out, "collide_arith", &c, &ev);
        }
        out.set_exhaustive("collide_arith", false);
      }
      "history" => {
        // natural enumerations issued backwards: the months of a year descending, civil days walking back through a
        // leap month and through New Year, day by day, for the lunar, sexagenary-day and term views
        let c = cal();
        let ys = stratified_years(30, 9990, env.tier.pick(150, 12), &[2020, 2023, 2033, 2034, 1984, 3358], env.seed);
        for (k, y) in ys.iter().enumerate() {
          if k % nshards != shard {
            continue;
          }
          let mut ops: Vec<i64> = vec![];
          let mut ms = valid_months(*y);
          ms.sort_by_key(|m| (m.abs() * 2 + (*m < 0) as i64));
          for m in ms.iter().rev() {
            ops.extend_from_slice(&[0, *y, *m, 0, 0]);
          }
          run_case(env, out, "history", &Case::ints(&ops), &ev);
          for kind in [2i64, 3, 12] {
            // 70 days backwards from Feb 20 (through New Year) and from the middle of the year
            for (m0, d0) in [(2i64, 20i64), (7, 15)] {
              let i0 = c.index(*y, m0, d0).unwrap();
              let mut ops: Vec<i64> = vec![];
              for back in (0..70).step_by(if kind == 2 { 1 } else { 3 }) {
                let (yy, mm, dd) = c.ymd(i0 - back);
                ops.extend_from_slice(&[kind, yy, mm, dd, 0]);
              }
              run_case(env, out, "history", &Case::ints(&ops), &ev);
            }
          }
        }
        let total: u32 = env.tier.pick(4_000, 160_000);
        prop_run(env, out, "history", total / nshards as u32, shard as u64, history_strategy(60), &ev);
        out.set_exhaustive("history", false);
      }
      "threads" => {
        let rounds = env.tier.pick(4, 16);
        for r in 0..rounds {
          let strat = proptest::collection::vec(op_strategy(), 3000..4001).prop_map(|ops| Case::ints(&ops.concat()));
          let c = sample_strategy(&strat, mix(env.seed ^ ((shard * 1000 + r) as u64) ^ 0x7157));
          // every other round is concentrated on two request kinds (their requests repeated in a scrambled order), so that
          // the 16 threads are inside the same library code with different arguments at the same moment
          let c = if r % 2 == 1 {
            let (k1, k2) = sample_strategy(&(0i64..24, 0i64..24), mix(env.seed ^ ((shard * 1000 + r) as u64) ^ 0xc0c0));
            let ops: Vec<Vec<i64>> = ops_of(&c).into_iter().filter(|o| o[0] == k1 || o[0] == k2).collect();
            if ops.len() >= 20 {
              out.class("thread_rounds_concentrated_on_two_request_kinds");
              let n = ops.len();
              let mut flat: Vec<i64> = vec![];
              for j in 0..3000usize {
                flat.extend_from_slice(&ops[(j * 7919 + j / n) % n]);
              }
              Case::ints(&flat)
            } else {
              c
            }
          } else {
            c
          };
          run_case(env, out, "threads", &c, &ev);
        }
        out.set_exhaustive("threads", false);
      }
      "long" => {
        run_case(env, out, "long", &Case::ints(&[env.tier.pick(5800, 9999)]), &ev);
        out.set_exhaustive("long", false);
      }
      "hammer" => {
        // every light observer: 48 dates (proptest: half from 6 different years spread over the range, half within 60 days
        // of irregular dates), hammered by 8 threads
        for kind in (0..LIGHT_KINDS).filter(|k| k % nshards == shard) {
          let reps = env.tier.pick(2, 8);
          for rep in 0..reps {
            let strat = proptest::collection::vec((prop_oneof![3 => 400i64..(NDAYS as i64 - 4500), 1 => prop_oneof![Just(2914i64), Just(8436), Just(8813), Just(87334), Just(577736), Just(693595), Just(739000)].prop_flat_map(|b| (b - 60)..(b + 60))], 0i64..1000), 48).prop_map(move |v| {
              let mut a = vec![kind as i64, 0];
              for (i, e) in v {
                a.push(i);
                a.push(e);
              }
              Case::ints(&a)
            });
            let mut c = sample_strategy(&strat, mix(env.seed ^ ((kind * 100 + rep) as u64) ^ 0x4a11));
            // fixed work per observer: heavy observers loop less
            c.a[1] = match kind { 11 | 18 | 21 | 12 | 17 => env.tier.pick(6, 20), 14 | 15 | 9 | 26 | 29 => env.tier.pick(20, 60), _ => env.tier.pick(60, 200) };
            run_case(env, out, "hammer", &c, &ev);
          }
        }
        out.set_exhaustive("hammer", false);
      }
      "fresh" => {
        // two-request histories in fresh processes for requests whose year/month digits collide, for the lunar
        // month constructor and for civil dates (a memo added anywhere on the civil path would be keyed the same way)
        let pairs = colliding_pairs();
        let step = (pairs.len() / env.tier.pick(48, 600)).max(1);
        for (k, p) in pairs.iter().enumerate().filter(|(k, _)| k % step == 0) {
          if k / step % nshards != shard {
            continue;
          }
          run_case(env, out, "fresh", &Case::ints(&[0, p[0], p[1], 0, 0, 0, p[2], p[3], 0, 0]), &ev);
          if p[0] >= 1 && p[2] >= 1 && p[1] > 0 && p[3] > 0 {
            run_case(env, out, "fresh", &Case::ints(&[14, p[0], p[1], 5, 3, 14, p[2], p[3], 5, 3]), &ev);
            run_case(env, out, "fresh", &Case::ints(&[2, p[0], p[1], 5, 0, 12, p[2], p[3], 5, 0]), &ev);
          }
        }
        // cross-kind ordered pairs about one year: a request of kind k1 about the middle of the year, then a request of kind
        // k2 about a date where something turns inside the day or the year (Lichun, a solstice, lunar new year, a leap
        // month, the cut-over, a reform-era seam) - in one fresh process vs each alone in a fresh process. State shared between
        // two routes that the hooks do not know is invisible to the in-process oracle (the reference would share it).
        {
          let kinds: [i64; 16] = [0, 1, 2, 3, 4, 5, 6, 7, 11, 12, 18, 19, 20, 21, 22, 23];
          let bases: [(i64, i64, i64); 8] = [(2024, 2, 4), (1950, 2, 4), (2023, 12, 22), (2024, 2, 10), (2023, 3, 25), (1582, 10, 15), (25, 2, 17), (9997, 6, 1)];
          let mut idx = 0usize;
          for (bi, (by, bm, bd)) in bases.iter().enumerate() {
            for k1 in kinds {
              for k2 in kinds {
                idx += 1;
                if idx % nshards != shard || (env.tier == Tier::Quick && (idx / nshards + bi) % 3 != (env.seed % 3) as usize) {
                  continue;
                }
                let h = [0i64, 10, 16, 23][(idx / 7) % 4];
                out.class("cross_kind_pairs_about_one_year");
                run_case(env, out, "fresh", &Case::ints(&[k1, *by, 7, 1, 12, k2, *by, *bm, (*bd).min(28), h]), &ev);
              }
            }
          }
        }
        // requests half a year apart in neighbouring years (a key like year*12 + 2*month confuses exactly those), in both
        // orders, for the request kinds that have an inner month or term loop
        if shard == 1 % nshards {
          for y in [2023i64, 1984, 240, 5000] {
            for mo in 1..=12i64 {
              let mo2 = (mo + 5) % 12 + 1;
              for k in [22i64, 5, 16, 11] {
                let (a, b) = match k {
                  16 => (vec![16, y, mo - 1, 0, 0], vec![16, y + 1, mo2 - 1, 0, 0]),
                  11 => (vec![11, y, 2 * mo - 1, 0, 0], vec![11, y + 1, 2 * mo2 - 1, 0, 0]),
                  _ => (vec![k, y, mo, 15, 10], vec![k, y + 1, mo2, 15, 10]),
                };
                out.class("half_year_apart_pairs_in_neighbouring_years");
                run_case(env, out, "fresh", &Case::ints(&[a.clone(), b.clone()].concat()), &ev);
                run_case(env, out, "fresh", &Case::ints(&[b, a].concat()), &ev);
              }
            }
          }
        }
        // the term festivals of one lunar year asked for in both orders as the first festival questions of the process
        if shard == 2 % nshards {
          for y in (1900i64..=2100).step_by(env.tier.pick(20, 3)).chain([1645, 9000]) {
            if let Ok(Some((q, w))) = guard(|| {
              let q = LunarFestival::from_index(y as isize, 4)?.get_day();
              let w = LunarFestival::from_index(y as isize, 10)?.get_day();
              Some(((q.get_year() as i64, q.get_month() as i64, q.get_day() as i64), (w.get_year() as i64, w.get_month() as i64, w.get_day() as i64)))
            }) {
              let a = vec![23, q.0, q.1, q.2, 0];
              let b = vec![23, w.0, w.1, w.2, 0];
              out.class("term_festival_pairs_of_one_year");
              run_case(env, out, "fresh", &Case::ints(&[a.clone(), b.clone()].concat()), &ev);
              run_case(env, out, "fresh", &Case::ints(&[b, a].concat()), &ev);
            }
          }
          clean_state();
        }
        let total: u32 = env.tier.pick(480, 8000);
        prop_run(env, out, "fresh", total / nshards as u32, 100 + shard as u64, history_strategy(16), &ev);
        out.set_exhaustive("fresh", false);
      }
      _ => panic!("unknown task {}", t),
    }
  }
  fn eval(&self, env: &Env, out: &mut Out, sub: &str, case: &Case) {
    match sub {
      "collide" | "collide_arith" | "history" => self.eval_history(env, out, sub, case),
      "fresh" => self.eval_fresh(env, out, case),
      "threads" => self.eval_threads(env, out, case),
      "hammer" => self.eval_hammer(env, out, case),
      "long" => self.eval_long(env, out, case),
      _ => panic!("unknown sub-check {}", sub),
    }
  }
  fn aux(&self, _env: &Env, name: &str, arg: &str) -> i32 {
    if name == "light" {
      // kind, then (date index, extra) pairs: one narrow observation per line, single-threaded, in a process of its own
      let a: Vec<i64> = arg.split(',').filter_map(|x| x.parse().ok()).collect();
      if a.is_empty() {
        return 2;
      }
      for pr in a[1..].chunks(2) {
        if pr.len() == 2 {
          println!("{}", light(a[0].rem_euclid(LIGHT_KINDS as i64) as usize, pr[0], pr[1]).replace('\n', " "));
        }
      }
      return 0;
    }
    if name == "history" {
      let a: Vec<i64> = arg.split(',').filter_map(|x| x.parse().ok()).collect();
      for op in a.chunks(OPW) {
        if op.len() == OPW {
          println!("{}", answer(op));
        }
      }
      return 0;
    }
    2
  }
}

#[allow(dead_code)]
fn _unused() {
  let _ = NDAYS;
}
