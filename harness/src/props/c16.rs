//! C16 Child limit and fortunes follow from birth instant, gender and the next Jie

use crate::adapt::*;
use crate::engine::*;
use crate::model::*;
use crate::props::c08::ym_of_jie;
use crate::terms::*;
use proptest::prelude::*;
use serde_json::json;
use tyme4rs::tyme::eightchar::provider::{ChildLimitProvider, China95ChildLimitProvider, DefaultChildLimitProvider, LunarSect1ChildLimitProvider, LunarSect2ChildLimitProvider};
use tyme4rs::tyme::eightchar::{ChildLimit, ChildLimitInfo};
use tyme4rs::tyme::enums::Gender;
use tyme4rs::tyme::solar::{SolarTerm, SolarTime};
use tyme4rs::tyme::{Culture, Tyme};

pub struct C16;

fn viol(sub: &str, kind: &str, case: &Case, k: &[(&str, i64)], desc: String, expected: String, got: String) -> Viol {
  Viol { sub: sub.into(), kind: kind.into(), case: case.clone(), key: key(k), desc, expected, got }
}

type T6 = (i64, i64, i64, i64, i64, i64);

/// birth + (years, months, days, hours, minutes) by label arithmetic with carries; day overflow rolled over
/// nominal month lengths. Returns (label, passes through October 1582, day overflowed the month, end month shorter than birth day)
fn add_labels(b: T6, add: [i64; 5]) -> (T6, bool, bool, bool) {
  let (y, m, d, h, mi, s) = b;
  let mi2 = mi + add[4];
  let h2 = h + add[3] + mi2 / 60;
  let mut d2 = d + add[2] + h2 / 24;
  let mut m0 = m + add[1];
  let mut y0 = y + add[0] + (m0 - 1) / 12;
  m0 = (m0 - 1) % 12 + 1;
  let mut touches = y0 == 1582 && m0 == 10;
  let short = d > month_len_nominal(y0, m0);
  let mut overflow = false;
  while d2 > month_len_nominal(y0, m0) {
    d2 -= month_len_nominal(y0, m0);
    m0 += 1;
    if m0 > 12 {
      m0 = 1;
      y0 += 1;
    }
    overflow = true;
    if y0 == 1582 && m0 == 10 {
      touches = true;
    }
  }
  ((y0, m0, d2, h2 % 24, mi2 % 60, s), touches, overflow, short)
}

fn counts_default(secs: i64) -> [i64; 5] {
  // 3 days = 1 year, 1 day = 4 months, 1 hour = 5 days, 1 minute = 2 hours, 1 second = 2 minutes
  let mut s = secs;
  let y = s / (3 * 86400);
  s %= 3 * 86400;
  let mo = s / (86400 / 4);
  s %= 86400 / 4;
  let d = s / (3600 / 5);
  s %= 3600 / 5;
  let h = s / (60 / 2);
  s %= 60 / 2;
  [y, mo, d, h, s * 2]
}

fn counts_minutes(secs: i64, with_hours: bool) -> [i64; 5] {
  // whole minutes: 4320 min = 1 year, 360 min = 1 month, 12 min = 1 day, (1 min = 2 hours)
  let mut m = secs / 60;
  let y = m / 4320;
  m %= 4320;
  let mo = m / 360;
  m %= 360;
  let d = m / 12;
  m %= 12;
  [y, mo, d, if with_hours { m * 2 } else { 0 }, 0]
}

fn info_tuple(i: &ChildLimitInfo) -> ([i64; 5], T6, T6) {
  ([i.get_year_count() as i64, i.get_month_count() as i64, i.get_day_count() as i64, i.get_hour_count() as i64, i.get_minute_count() as i64], ymdhms(&i.get_start_time()), ymdhms(&i.get_end_time()))
}

impl C16 {
  /// a = [date index, second of day, gender (0 woman, 1 man)]
  fn eval_limit(&self, env: &Env, out: &mut Out, case: &Case) {
    let c = cal();
    let i = case.a[0] as usize;
    let s = case.a[1].clamp(0, 86399);
    let man = case.a[2] == 1;
    let (y, m, d) = c.ymd(i);
    let ts = ensure(y - 1, y + 1);
    let sec = i as i64 * 86400 + s;
    let birth: T6 = (y, m, d, s / 3600, s / 60 % 60, s % 60);
    // governing Jie by instant
    let p0 = match ts.latest_by_sec(sec) {
      Some(p) => p,
      None => {
        out.skip("birth_before_first_listed_term");
        return;
      }
    };
    let pj = if ts.list[p0].index % 2 == 1 { p0 } else if p0 > 0 { p0 - 1 } else { return };
    if pj + 2 >= ts.list.len() {
      out.skip("next_jie_not_listed");
      return;
    }
    let prev = ts.list[pj];
    let next = ts.list[pj + 2];
    if (prev.ambiguous_sec && (sec - prev.sec).abs() <= 1) || (next.ambiguous_sec && (next.sec - sec).abs() <= 1) {
      out.skip("jie_instant_rounds_at_half_second");
      return;
    }
    let (_, yp, _) = ym_of_jie(prev.year, prev.index);
    let yang = yp % 2 == 0;
    let forward = yang == man;
    let jie = if forward { next } else { prev };
    if jie.ambiguous_sec {
      // the seconds to the Jie (and with them the minute count) depend on how the half second is rounded
      out.skip("jie_instant_rounds_at_half_second");
      return;
    }
    out.eval("limit");
    let secs = (jie.sec - sec).abs();
    let k = [("jdn", c.jdn(i)), ("s", s), ("man", man as i64), ("y", y)];
    let desc = format!("birth {} {} ({})", fmt_time(birth), if man { "man" } else { "woman" }, if forward { "forward" } else { "backward" });
    let near_jie = (sec - prev.sec).abs() <= 86400 || (next.sec - sec).abs() <= 86400;
    let exp_counts = counts_default(secs);
    let (label, touches, overflow, short) = add_labels(birth, exp_counts);
    let nt = overflow || near_jie || !forward || short;
    if nt {
      out.nontrivial("limit", &case.a);
    }
    if overflow {
      out.class("day_count_overflows_the_month");
    }
    if !forward {
      out.class("backward_direction");
    }
    if near_jie {
      out.class("birth_within_a_day_of_a_jie");
    }
    if short {
      out.class("end_month_shorter_than_birth_day");
    }
    if touches {
      out.class("roll_over_passes_through_october_1582");
    }
    let bt = SolarTime::from_ymd_hms(y as isize, m as usize, d as usize, birth.3 as usize, birth.4 as usize, birth.5 as usize);
    let gender = if man { Gender::MAN } else { Gender::WOMAN };
    let label_exists = c.index(label.0, label.1, label.2).is_some();
    let r = guard(|| {
      let cl = ChildLimit::from_solar_time(bt, gender);
      (
        cl.is_forward(),
        [cl.get_year_count() as i64, cl.get_month_count() as i64, cl.get_day_count() as i64, cl.get_hour_count() as i64, cl.get_minute_count() as i64],
        ymdhms(&cl.get_start_time()),
        ymdhms(&cl.get_end_time()),
        cl.get_eight_char().get_month().get_index() as i64,
        cl.get_eight_char().get_hour().get_index() as i64,
        (0..3).filter(|j| cl.get_end_time().get_year() as i64 + 10 * (*j as i64) + 9 <= 9999).map(|j| { let df = cl.get_start_decade_fortune().next(j); (df.get_sixty_cycle().get_index() as i64, df.get_start_age() as i64, df.get_end_age() as i64, df.get_start_sixty_cycle_year().get_year() as i64, df.get_end_sixty_cycle_year().get_year() as i64, df.get_start_fortune().get_sixty_cycle().get_index() as i64) }).collect::<Vec<_>>(),
        (0..3).filter(|j| cl.get_end_time().get_year() as i64 + (*j as i64) <= 9999).map(|j| { let f = cl.get_start_fortune().next(j); (f.get_sixty_cycle().get_index() as i64, f.get_age() as i64, f.get_sixty_cycle_year().get_year() as i64) }).collect::<Vec<_>>(),
        cl.get_decade_fortune().get_sixty_cycle().get_index() as i64,
      )
    });
    let (gf, gc, gs, ge, mp, hp, decades, fortunes, pre_decade) = match r {
      Ok(x) => x,
      Err(e) => {
        let kind = if !label_exists { "end_label_does_not_exist_panics" } else if label.0 > 9999 { "end_after_9999" } else { "panics" };
        if label.0 > 9999 {
          out.skip("end_after_year_9999");
          return;
        }
        let kk = [("jdn", c.jdn(i)), ("s", s), ("man", man as i64), ("y", y), ("ly", label.0), ("lm", label.1), ("ld", label.2)];
        out.fail(env, viol("limit", kind, case, &kk, desc, format!("counts {:?} end {}", exp_counts, fmt_time(label)), e));
        return;
      }
    };
    if out.wants_sample("limit", nt) {
      out.sample("limit", nt, || json!({"birth": fmt_time(birth), "man": man, "forward": gf, "governing_jie": format!("{}#{}{}", jie.year, jie.index, TERM_NAMES[jie.index as usize]), "seconds_to_jie": secs, "counts_y_m_d_h_min": gc, "end": fmt_time(ge)}));
    }
    if gf != forward {
      out.fail(env, viol("limit", "direction", case, &k, desc.clone(), format!("forward={} (year stem {} , {})", forward, STEMS[(yp % 10) as usize], if man { "man" } else { "woman" }), format!("forward={}", gf)));
      return;
    }
    if gs != birth {
      out.fail(env, viol("limit", "start_time", case, &k, desc.clone(), fmt_time(birth), fmt_time(gs)));
    }
    if gc != exp_counts {
      out.fail(env, viol("limit", "counts", case, &k, format!("{}; {} s to {}#{}", desc, secs, jie.year, TERM_NAMES[jie.index as usize]), format!("{:?}", exp_counts), format!("{:?}", gc)));
      return;
    }
    // end instant
    let e_ord = c.index(ge.0, ge.1, ge.2).map(|ix| ix as i64 * 86400 + ge.3 * 3600 + ge.4 * 60 + ge.5);
    match e_ord {
      None => {
        out.fail(env, viol("limit", "end_is_not_a_valid_instant", case, &k, desc.clone(), fmt_time(label), fmt_time(ge)));
        return;
      }
      Some(eo) => {
        if eo < sec {
          out.fail(env, viol("limit", "end_before_birth", case, &k, desc.clone(), ">= birth".into(), fmt_time(ge)));
        }
        if eo - sec >= 11 * 366 * 86400 {
          out.fail(env, viol("limit", "end_more_than_11_years_after_birth", case, &k, desc.clone(), "< 11 years".into(), fmt_time(ge)));
        }
        if touches {
          // ambiguous by construction: only demand a valid instant within 10 days of the label result
          let lab_ord = {
            let mut l = label;
            if l.0 == 1582 && l.1 == 10 && l.2 > 4 && l.2 < 15 {
              l.2 = 15;
            }
            c.index(l.0, l.1, l.2).map(|ix| ix as i64 * 86400 + l.3 * 3600 + l.4 * 60 + l.5)
          };
          if let Some(lo) = lab_ord {
            if (eo - lo).abs() > 21 * 86400 {
              out.fail(env, viol("limit", "end_far_from_label_near_1582", case, &k, desc.clone(), format!("within 21 days of {}", fmt_time(label)), fmt_time(ge)));
            }
          }
        } else if ge != label {
          out.fail(env, viol("limit", "end_time", case, &k, format!("{} + {:?}", desc, exp_counts), fmt_time(label), fmt_time(ge)));
        }
      }
    }
    // decade fortunes and yearly fortunes
    let sign = if forward { 1 } else { -1 };
    let base_age = ge.0 - y + 1;
    for (j, dfv) in decades.iter().enumerate() {
      let j = j as i64;
      let exp = ((mp + sign * (j + 1)).rem_euclid(60), base_age + 10 * j, base_age + 10 * j + 9, ge.0 + 10 * j, ge.0 + 10 * j + 9, (hp + sign * (base_age + 10 * j)).rem_euclid(60));
      if *dfv != exp {
        out.fail(env, viol("limit", "decade_fortune", case, &k, format!("{} decade {}", desc, j), format!("{:?}", exp), format!("{:?}", dfv)));
      }
    }
    if pre_decade != mp {
      out.fail(env, viol("limit", "decade_fortune_before_start", case, &k, desc.clone(), pillar_name(mp), pillar_name(pre_decade)));
    }
    for (j, fv) in fortunes.iter().enumerate() {
      let j = j as i64;
      let exp = ((hp + sign * (base_age + j)).rem_euclid(60), base_age + j, ge.0 + j);
      if *fv != exp {
        out.fail(env, viol("limit", "yearly_fortune", case, &k, format!("{} fortune {}", desc, j), format!("{:?}", exp), format!("{:?}", fv)));
      }
    }
    // fortune objects reached by a chain of steps, every view of the source read before each step (a view memoised in
    // the value must not travel with it), equal the directly constructed ones
    if ge.0 + 95 <= 9999 {
      let steps: [isize; 6] = match (i as i64 + s) % 3 { 0 => [1, 1, -1, 3, 2, -4], 1 => [2, -1, 5, 1, -3, 1], _ => [1, 4, -2, 1, 1, 1] };
      let walked = guard(|| {
        let cl = ChildLimit::from_solar_time(bt, gender);
        let mut f = cl.get_start_fortune();
        let mut d = cl.get_start_decade_fortune();
        let mut v = vec![];
        let mut t = 0i64;
        for st in steps {
          let _ = (f.get_sixty_cycle(), f.get_name(), f.get_age(), f.get_sixty_cycle_year());
          let _ = (d.get_sixty_cycle(), d.get_name(), d.get_start_age(), d.get_end_age(), d.get_start_sixty_cycle_year(), d.get_end_sixty_cycle_year(), d.get_start_fortune().get_sixty_cycle());
          f = f.next(st);
          d = d.next(st);
          t += st as i64;
          v.push((t, (f.get_sixty_cycle().get_index() as i64, f.get_age() as i64, f.get_sixty_cycle_year().get_year() as i64, f.get_name()), (d.get_sixty_cycle().get_index() as i64, d.get_start_age() as i64, d.get_end_age() as i64, d.get_start_sixty_cycle_year().get_year() as i64, d.get_end_sixty_cycle_year().get_year() as i64, d.get_start_fortune().get_sixty_cycle().get_index() as i64, d.get_start_fortune().get_age() as i64, d.get_name())));
        }
        v
      });
      match walked {
        Err(e) => {
          out.fail(env, viol("limit", "stepped_fortunes_panic", case, &k, desc.clone(), "fortunes reached by stepping".into(), e));
        }
        Ok(v) => {
          out.class("fortune_walks");
          for (t, fv, dv) in v {
            let ef = ((hp + sign * (base_age + t)).rem_euclid(60), base_age + t, ge.0 + t, pillar_name((hp + sign * (base_age + t)).rem_euclid(60)));
            if fv != ef {
              out.fail(env, viol("limit", "stepped_yearly_fortune", case, &k, format!("{} fortune reached by steps {:?} (views read before each step), now at index {}", desc, steps, t), format!("{:?}", ef), format!("{:?}", fv)));
              break;
            }
            let ed = ((mp + sign * (t + 1)).rem_euclid(60), base_age + 10 * t, base_age + 10 * t + 9, ge.0 + 10 * t, ge.0 + 10 * t + 9, (hp + sign * (base_age + 10 * t)).rem_euclid(60), base_age + 10 * t, pillar_name((mp + sign * (t + 1)).rem_euclid(60)));
            if dv != ed {
              out.fail(env, viol("limit", "stepped_decade_fortune", case, &k, format!("{} decade reached by steps {:?} (views read before each step), now at index {}", desc, steps, t), format!("{:?}", ed), format!("{:?}", dv)));
              break;
            }
          }
        }
      }
    }
    // the lunar-year accessors count calendar years from the lunar year of the birth date in the same way
    if ge.0 + 29 <= 9998 {
      if let Ok((by, ey, dec, yf, lim_g, df_cl, f_cl)) = guard(|| {
        let cl = ChildLimit::from_solar_time(bt, gender);
        let df = cl.get_start_decade_fortune();
        let f = cl.get_start_fortune();
        (
          bt.get_lunar_hour().get_year() as i64,
          cl.get_end_lunar_year().get_year() as i64,
          (0..3).map(|j| { let d = df.next(j); (d.get_start_lunar_year().get_year() as i64, d.get_end_lunar_year().get_year() as i64) }).collect::<Vec<_>>(),
          (0..3).map(|j| f.next(j).get_lunar_year().get_year() as i64).collect::<Vec<_>>(),
          cl.get_gender() == gender,
          ymdhms(&df.get_child_limit().get_end_time()),
          ymdhms(&f.get_child_limit().get_end_time()),
        )
      }) {
        // the decade before the first one (index -1, the months before the limit ends) is ten years earlier as well, when
        // that is not before birth
        if base_age >= 10 {
          if let Ok((sa, ea, sa2)) = guard(|| { let cl = ChildLimit::from_solar_time(bt, gender); let d = cl.get_decade_fortune(); (d.get_start_age() as i64, d.get_end_age() as i64, cl.get_start_decade_fortune().next(-1).get_start_age() as i64) }) {
            if (sa, ea, sa2) != (base_age - 10, base_age - 1, base_age - 10) {
              out.fail(env, viol("limit", "decade_before_the_first", case, &k, desc.clone(), format!("ages {}..{}", base_age - 10, base_age - 1), format!("ages {}..{} (via next(-1): start {})", sa, ea, sa2)));
            }
          }
        }
        let e0 = by + ge.0 - y;
        let exp_dec: Vec<(i64, i64)> = (0..3).map(|j| (e0 + 10 * j, e0 + 10 * j + 9)).collect();
        let exp_yf: Vec<i64> = (0..3).map(|j| e0 + j).collect();
        if ey != e0 || dec != exp_dec || yf != exp_yf || !lim_g || df_cl != ge || f_cl != ge {
          out.fail(env, viol("limit", "lunar_year_accessors", case, &k, desc.clone(), format!("end lunar year {} decades {:?} fortunes {:?}, gender and child limit handed back unchanged", e0, exp_dec, exp_yf), format!("end lunar year {} decades {:?} fortunes {:?} gender kept {} limit end via decade {} via fortune {}", ey, dec, yf, lim_g, fmt_time(df_cl), fmt_time(f_cl))));
        }
      }
    }
  }

  /// a = [date index, second of day, forward (0/1), provider 0..3]: the four strategies called directly
  fn eval_provider(&self, env: &Env, out: &mut Out, case: &Case) {
    let c = cal();
    let i = case.a[0] as usize;
    let s = case.a[1].clamp(0, 86399);
    let forward = case.a[2] == 1;
    let pv = case.a[3].clamp(0, 3);
    let (y, m, d) = c.ymd(i);
    let ts = ensure(y - 1, y + 1);
    let sec = i as i64 * 86400 + s;
    let birth: T6 = (y, m, d, s / 3600, s / 60 % 60, s % 60);
    let p0 = match ts.latest_by_sec(sec) {
      Some(p) => p,
      None => return,
    };
    let pj = if ts.list[p0].index % 2 == 1 { p0 } else if p0 > 0 { p0 - 1 } else { return };
    if pj + 2 >= ts.list.len() {
      return;
    }
    let jie = if forward { ts.list[pj + 2] } else { ts.list[pj] };
    if jie.ambiguous_sec {
      out.skip("jie_instant_rounds_at_half_second");
      return;
    }
    out.eval("provider");
    let secs = (jie.sec - sec).abs();
    let name = ["Default", "China95", "LunarSect1", "LunarSect2"][pv as usize];
    let k = [("jdn", c.jdn(i)), ("s", s), ("fwd", forward as i64), ("provider", pv), ("y", y)];
    let desc = format!("{} provider, birth {}, Jie {}#{}{} ({} s {})", name, fmt_time(birth), jie.year, jie.index, TERM_NAMES[jie.index as usize], secs, if forward { "ahead" } else { "back" });
    let exp_counts = match pv {
      0 => counts_default(secs),
      1 => counts_minutes(secs, false),
      3 => counts_minutes(secs, true),
      _ => {
        // LunarSect1: 3 days = 1 year, 1 day = 4 months, 1 double-hour = 10 days; 23:00-23:59 counts as the last double-hour of its day
        let jt = (jie.sec.div_euclid(86400), jie.sec.rem_euclid(86400) / 3600);
        let bt = (sec.div_euclid(86400), s / 3600);
        let (st, en) = if sec > jie.sec { (jt, bt) } else { (bt, jt) };
        let zhi = |h: i64| if h == 23 { 11 } else { (h + 1) / 2 };
        let mut hd = zhi(en.1) - zhi(st.1);
        let mut dd = en.0 - st.0;
        if hd < 0 {
          hd += 12;
          dd -= 1;
        }
        let total_days = dd * 120 + hd * 10;
        [total_days / 360, total_days % 360 / 30, total_days % 30, 0, 0]
      }
    };
    let (label, touches, overflow, _) = add_labels(birth, exp_counts);
    if overflow || pv != 0 {
      out.nontrivial("provider", &case.a);
    }
    let bt = SolarTime::from_ymd_hms(y as isize, m as usize, d as usize, birth.3 as usize, birth.4 as usize, birth.5 as usize);
    let term = SolarTerm::from_index(jie.year as isize, jie.index as isize);
    let r = guard(|| {
      let info = match pv {
        0 => DefaultChildLimitProvider::new().get_info(bt, term.clone()),
        1 => China95ChildLimitProvider::new().get_info(bt, term.clone()),
        2 => LunarSect1ChildLimitProvider::new().get_info(bt, term.clone()),
        _ => LunarSect2ChildLimitProvider::new().get_info(bt, term.clone()),
      };
      info_tuple(&info)
    });
    let (gc, gs, ge) = match r {
      Ok(x) => x,
      Err(e) => {
        if label.0 > 9999 {
          out.skip("end_after_year_9999");
          return;
        }
        let exists = c.index(label.0, label.1, label.2).is_some();
        let kk = [("jdn", c.jdn(i)), ("s", s), ("fwd", forward as i64), ("provider", pv), ("y", y), ("ly", label.0), ("lm", label.1), ("ld", label.2), ("jie_jdn", JDN0 + jie.sec.div_euclid(86400))];
        out.fail(env, viol("provider", if exists { "panics" } else { "end_label_does_not_exist_panics" }, case, &kk, desc, format!("counts {:?} end {}", exp_counts, fmt_time(label)), e));
        return;
      }
    };
    if out.wants_sample("provider", pv != 0) {
      out.sample("provider", pv != 0, || json!({"provider": name, "birth": fmt_time(birth), "seconds_to_jie": secs, "counts": gc, "end": fmt_time(ge)}));
    }
    if gs != birth {
      out.fail(env, viol("provider", "start_time", case, &k, desc.clone(), fmt_time(birth), fmt_time(gs)));
    }
    if gc != exp_counts {
      out.fail(env, viol("provider", "counts", case, &k, desc.clone(), format!("{:?}", exp_counts), format!("{:?}", gc)));
      return;
    }
    if gc[1] >= 12 || gc[2] >= 30 || gc[3] >= 24 || gc[4] >= 60 {
      out.fail(env, viol("provider", "count_out_of_range", case, &k, desc.clone(), "months<12 days<30 hours<24 minutes<60".into(), format!("{:?}", gc)));
    }
    match c.index(ge.0, ge.1, ge.2) {
      None => {
        out.fail(env, viol("provider", "end_is_not_a_valid_instant", case, &k, desc.clone(), fmt_time(label), fmt_time(ge)));
      }
      Some(ix) => {
        let eo = ix as i64 * 86400 + ge.3 * 3600 + ge.4 * 60 + ge.5;
        if eo < sec || eo - sec >= 11 * 366 * 86400 {
          out.fail(env, viol("provider", "end_not_in_0_to_11_years", case, &k, desc.clone(), "birth <= end < birth + 11 years".into(), fmt_time(ge)));
        }
        if !touches && ge != label {
          out.fail(env, viol("provider", "end_time", case, &k, format!("{} + {:?}", desc, exp_counts), fmt_time(label), fmt_time(ge)));
        }
      }
    }
  }
}

#[allow(dead_code)]
fn _u(_: &dyn Culture) {}

/// boundary births: around Jie instants, month/year ends, Feb 29, 1571-1582, 23:00-23:59
fn birth_strategy() -> impl Strategy<Value = (i64, i64)> {
  let c = cal();
  let lo = c.year_start[2] as i64;
  let hi = c.year_start[9988] as i64;
  let a1571 = c.year_start[1571] as i64;
  let a1583 = c.year_start[1583] as i64;
  prop_oneof![
    7 => (lo..hi, 0i64..86400),
    1 => (lo..hi, 82800i64..86400),
    // births in the ten years before a century year, late in a month: limits that end around Feb 28/29/Mar 1 of century years
    // (leap under the Julian rule before 1582, by the 400-year rule after)
    1 => (1i64..=99, 1i64..=3660, 0i64..86400).prop_map(|(cc, back, s)| {
      let c = cal();
      ((c.year_start[(cc * 100) as usize] as i64 + 60 - back).max(c.year_start[2] as i64), s)
    }),
    1 => (a1571..a1583, 0i64..86400),
    // month/year ends and Feb 28/29
    1 => (2i64..9988, 1i64..=12, 0i64..3, 0i64..86400).prop_map(|(y, m, back, s)| {
      let c = cal();
      let last = if y == 1582 && m == 10 { 31 } else { c.month_len(y, m) };
      ((c.index(y, m, last).unwrap() as i64 - back).max(0), s)
    }),
  ]
}

impl Prop for C16 {
  fn id(&self) -> &'static str {
    "C16"
  }
  fn meta(&self, _env: &Env) -> Meta {
    Meta {
      rule: "Generators: `limit`: proptest births 0002..9987 x both genders; 70% uniform, 10% at 23:00-23:59, 10% in 1571..1582, 10% on the last three days of a month (incl. Feb 28/29), plus deterministic births 0/1/5/3600 s before and after every Jie instant of ~100 stratified years: direction (forward <=> Yang year stem == man, year stem by the Lichun instant), governing Jie (next/previous by instant), counts from the seconds difference at 3 d = 1 y, 1 d = 4 mo, 1 h = 5 d, 1 min = 2 h, 1 s = 2 min, end == birth + counts by label arithmetic with carries and day overflow rolled over month lengths, end >= birth, < 11 years, three decade fortunes (month pillar +-(k+1), ages 10 apart, end age = start+9, years from the end year) and three yearly fortunes (hour pillar +-age, age = end year - birth year + 1 + k); `provider`: the four strategies (Default, China95, LunarSect1, LunarSect2) called directly through get_info with the governing Jie: counts by each strategy's ratios, end by the same label arithmetic. Non-trivial: day count overflows the month, birth within a day of a Jie, backward direction, end month shorter than the birth day; every non-default provider case. Roll-overs that pass through October 1582 are compared leniently (valid instant near the label) and counted separately.".into(),
      assumptions: vec![
        "Jie instants are the library's own, rounded to the second as the library does; births within a second of a half-second-rounding Jie are skipped".into(),
        "Label arithmetic uses nominal month lengths; when the roll-over passes through October 1582 the exact end is ambiguous by construction".into(),
        "Ends after 9999-12-31 are out of range (skipped)".into(),
      ],
      level_text: String::new(),
    }
  }
  fn plan(&self, _env: &Env) -> Vec<TaskSpec> {
    vec![task("limit", 16), task("provider", 16)]
  }
  fn run(&self, env: &Env, t: &str, shard: usize, nshards: usize, out: &mut Out) {
    let ev = |e: &Env, o: &mut Out, s: &str, cs: &Case| self.eval(e, o, s, cs);
    let c = cal();
    match t {
      "limit" => {
        // strided walks on fresh threads (see engine::stride_walks)
        stride_walks(env, out, "limit", env.tier.pick(800, 24000) / nshards as u32, 7000 + shard as u64, 366, (crate::model::NDAYS as i64) - 4400, 800, &|x| vec![x, (x * 7919).rem_euclid(86400), x & 1], &ev);
        // deterministic: around Jie instants of stratified years
        let ys = stratified_years(2, 9987, 100, &SPECIAL_YEARS, env.seed);
        for (j, y) in ys.iter().enumerate() {
          if j % nshards != shard {
            continue;
          }
          let ts = ensure(*y - 1, *y + 1);
          for ti in (1..24).step_by(2) {
            let e = *ts.get(*y, ti);
            for ds in [-3600i64, -5, -1, 0, 1, 5, 3600] {
              let x = e.sec + ds;
              let di = x.div_euclid(86400);
              if di >= c.year_start[2] as i64 && di < c.year_start[9988] as i64 {
                for g in 0..2 {
                  run_case(env, out, "limit", &Case::ints(&[di, x.rem_euclid(86400), g]), &ev);
                }
              }
            }
          }
        }
        // births around the civil New Year and around Lichun (where the sexagenary year differs from the civil and lunar years)
        for (j, y) in ys.iter().enumerate() {
          if j % nshards != shard || *y < 3 {
            continue;
          }
          for (m, d) in [(12i64, 27i64), (12, 30), (12, 31), (1, 1), (1, 3), (2, 2), (2, 4), (2, 6)] {
            let yy = if m == 12 { *y - 1 } else { *y };
            if let Some(ix) = c.index(yy, m, d) {
              for g in 0..2 {
                run_case(env, out, "limit", &Case::ints(&[ix as i64, 43200, g]), &ev);
              }
            }
          }
        }
        if shard == 0 {
          // witnesses of the known findings (always re-observed)
          for (y, m, d, s) in [(24i64, 2i64, 6i64, 15479i64), (24, 1, 30, 0), (1575, 4, 4, 11945), (1574, 7, 4, 64210)] {
            let ix = c.index(y, m, d).unwrap() as i64;
            for g in 0..2 {
              run_case(env, out, "limit", &Case::ints(&[ix, s, g]), &ev);
            }
          }
        }
        let total: u32 = env.tier.pick(40_000, 2_000_000);
        prop_run(env, out, "limit", total / nshards as u32, shard as u64, (birth_strategy(), 0i64..2).prop_map(|((i, s), g)| Case::ints(&[i, s, g])), &ev);
        out.set_exhaustive("limit", false);
      }
      "provider" => {
        if shard == 0 {
          // witnesses of known findings: LunarSect1 with the Lichun of AD 24 (inside the hole), end labels in the 1582 gap
          for (y, m, d, s, f, p) in [(24i64, 1i64, 7i64, 38930i64, 1i64, 2i64), (24, 2, 10, 100, 1, 2), (1574, 7, 4, 64210, 1, 0)] {
            let ix = c.index(y, m, d).unwrap() as i64;
            run_case(env, out, "provider", &Case::ints(&[ix, s, f, p]), &ev);
          }
        }
        let total: u32 = env.tier.pick(40_000, 1_000_000);
        prop_run(env, out, "provider", total / nshards as u32, shard as u64, (birth_strategy(), 0i64..2, 0i64..4).prop_map(|((i, s), f, p)| Case::ints(&[i, s, f, p])), &ev);
        out.set_exhaustive("provider", false);
      }
      _ => panic!("unknown task {}", t),
    }
  }
  fn aux(&self, _env: &Env, name: &str, arg: &str) -> i32 {
    if name == "term" {
      let a: Vec<i64> = arg.split(',').filter_map(|x| x.trim().parse().ok()).collect();
      let ti = term_info(a[0], a[1]);
      let t = SolarTerm::from_index(a[0] as isize, a[1] as isize);
      let st = t.get_julian_day().get_solar_time();
      println!("jd {:.9} model sec {} -> {:?} ; library {}", ti.jd, ti.sec, (ti.sec.rem_euclid(86400) / 3600, ti.sec.rem_euclid(86400) / 60 % 60, ti.sec % 60), fmt_time(ymdhms(&st)));
      let f = (ti.jd + 0.5 - JDN0 as f64) * 86400.0;
      println!("secs float {:.6}", f);
      return 0;
    }
    2
  }
  fn cold_subs(&self) -> Vec<(&'static str, i64, i64, fn(i64) -> Vec<i64>)> {
    vec![("limit", 366, crate::model::NDAYS as i64 - 4400, |x| vec![x, (x * 7919).rem_euclid(86400), x & 1])]
  }
  fn eval(&self, env: &Env, out: &mut Out, sub: &str, case: &Case) {
    match sub {
      "limit" => self.eval_limit(env, out, case),
      "provider" => self.eval_provider(env, out, case),
      _ => panic!("unknown sub-check {}", sub),
    }
  }
}
