//! C09 Hour pillar, 23:00 day roll-over and the eight-character round trip

use crate::adapt::*;
use crate::engine::*;
use crate::model::*;
use crate::props::c08::ym_of_jie;
use crate::terms::*;
use proptest::prelude::*;
use serde_json::json;
use tyme4rs::tyme::eightchar::EightChar;
use tyme4rs::tyme::solar::SolarTime;
use tyme4rs::tyme::Culture;

pub struct C09;

fn viol(sub: &str, kind: &str, case: &Case, k: &[(&str, i64)], desc: String, expected: String, got: String) -> Viol {
  Viol { sub: sub.into(), kind: kind.into(), case: case.clone(), key: key(k), desc, expected, got }
}

fn stime(c: &Cal, i: usize, s: i64) -> SolarTime {
  let (y, m, d) = c.ymd(i);
  SolarTime::from_ymd_hms(y as isize, m as usize, d as usize, (s / 3600) as usize, (s / 60 % 60) as usize, (s % 60) as usize)
}

fn tfmt(c: &Cal, i: usize, s: i64) -> String {
  format!("{} {:02}:{:02}:{:02}", c.fmt(i), s / 3600, s / 60 % 60, s % 60)
}

/// expected (day pillar used for the hour, hour pillar) at hour h of a day whose pillar is dp
fn expected_hour(dp: i64, h: i64) -> (i64, i64) {
  let d = if h >= 23 { (dp + 1) % 60 } else { dp };
  let b = hour_branch(h);
  let stem = (five_rats_first_stem(d % 10) + b) % 10;
  (d, pillar_index(stem, b))
}

/// expected four pillars of an instant (None when before the first listed Jie)
fn expected_chars(ts: &Terms, i: usize, s: i64) -> Option<([i64; 4], bool)> {
  let c = cal();
  let sec = i as i64 * 86400 + s;
  let mut p = ts.latest_by_sec(sec)?;
  if ts.list[p].index % 2 == 0 {
    if p == 0 {
      return None;
    }
    p -= 1;
  }
  let e = ts.list[p];
  let amb = (e.ambiguous_sec && sec - e.sec <= 1) || (p + 2 < ts.list.len() && ts.list[p + 2].ambiguous_sec && ts.list[p + 2].sec - sec <= 1);
  let (_, yp, mp) = ym_of_jie(e.year, e.index);
  let (dp, hp) = expected_hour(day_pillar(c.jdn(i)), s / 3600);
  Some(([yp, mp, dp, hp], amb))
}

fn chars_name(p: &[i64; 4]) -> String {
  format!("{} {} {} {}", pillar_name(p[0]), pillar_name(p[1]), pillar_name(p[2]), pillar_name(p[3]))
}

thread_local! {
  static SECONDARY: std::cell::RefCell<(String, String, i64)> = std::cell::RefCell::new((String::new(), String::new(), 0));
}

impl C09 {
  /// a[0] = date index, a[1] = hour: hour pillar, day roll and index in day on both views
  fn eval_hour(&self, env: &Env, out: &mut Out, sub: &str, case: &Case) {
    let c = cal();
    let i = case.a[0] as usize;
    let h = case.a[1].clamp(0, 23);
    let mi = case.a.get(2).cloned().unwrap_or(0).clamp(0, 59);
    let se = case.a.get(3).cloned().unwrap_or(0).clamp(0, 59);
    out.eval(sub);
    let dp = day_pillar(c.jdn(i));
    let (ed, eh) = expected_hour(dp, h);
    let k = [("dp", dp), ("h", h), ("jdn", c.jdn(i))];
    let nt = h == 23 || h == 0 || h % 2 == 1;
    if nt {
      out.nontrivial(sub, &[dp, h, if sub == "hour" { 0 } else { i as i64 }]);
    }
    let t = stime(c, i, h * 3600 + mi * 60 + se);
    let r = guard(|| {
      let lh = t.get_lunar_hour();
      let sh = t.get_sixty_cycle_hour();
      let shown = sh.to_string();
      let parts = format!("{}年{}月{}日{}时", sh.get_year().get_name(), sh.get_month().get_name(), sh.get_day().get_name(), sh.get_sixty_cycle().get_name());
      let emb = sh.get_sixty_cycle_day().get_sixty_cycle().get_index() as i64;
      SECONDARY.with(|x| *x.borrow_mut() = (shown, parts, emb));
      (lh.get_sixty_cycle().get_index() as i64, lh.get_index_in_day() as i64, sh.get_sixty_cycle().get_index() as i64, sh.get_day().get_index() as i64, sh.get_index_in_day() as i64, lh.get_lunar_day().get_sixty_cycle().get_index() as i64)
    });
    let (lhp, lidx, shp, shd, sidx, ldp) = match r {
      Ok(x) => x,
      Err(e) => {
        out.fail(env, viol(sub, "panics", case, &k, tfmt(c, i, h * 3600), pillar_name(eh), e));
        return;
      }
    };
    if out.wants_sample(sub, nt) {
      out.sample(sub, nt, || json!({"instant": tfmt(c, i, h * 3600 + mi * 60 + se), "day_pillar": pillar_name(dp), "hour_pillar": pillar_name(shp), "day_pillar_of_instant_view": pillar_name(shd)}));
    }
    if lhp != eh {
      out.fail(env, viol(sub, "lunar_hour_pillar", case, &k, tfmt(c, i, h * 3600), pillar_name(eh), pillar_name(lhp)));
    }
    if shp != eh {
      out.fail(env, viol(sub, "instant_hour_pillar", case, &k, tfmt(c, i, h * 3600), pillar_name(eh), pillar_name(shp)));
    }
    if shd != ed {
      out.fail(env, viol(sub, "instant_day_roll", case, &k, tfmt(c, i, h * 3600), pillar_name(ed), pillar_name(shd)));
    }
    // the other surfaces of the instant-level view show the same four pillars: its text and its embedded day object
    let (shown, parts, emb) = SECONDARY.with(|x| x.borrow().clone());
    if shown != parts {
      out.fail(env, viol(sub, "instant_view_text_differs_from_its_pillars", case, &k, tfmt(c, i, h * 3600), parts, shown));
    }
    if emb != shd {
      out.fail(env, viol(sub, "instant_view_embedded_day_pillar", case, &k, format!("{} get_sixty_cycle_day().get_sixty_cycle() vs get_day()", tfmt(c, i, h * 3600)), pillar_name(shd), pillar_name(emb)));
    }
    if ldp != dp {
      out.fail(env, viol(sub, "lunar_day_pillar", case, &k, tfmt(c, i, h * 3600), pillar_name(dp), pillar_name(ldp)));
    }
    if lidx != (h + 1) / 2 || sidx != ((h + 1) / 2) % 12 {
      out.fail(env, viol(sub, "index_in_day", case, &k, tfmt(c, i, h * 3600), format!("lunar {} instant {}", (h + 1) / 2, ((h + 1) / 2) % 12), format!("lunar {} instant {}", lidx, sidx)));
    }
    // hour branch rule stated directly
    if eh % 12 != hour_branch(h) || shp % 12 != hour_branch(h) {
      out.fail(env, viol(sub, "hour_branch", case, &k, tfmt(c, i, h * 3600), BRANCHES[hour_branch(h) as usize].into(), pillar_name(shp)));
    }
  }

  fn eval_compose(&self, env: &Env, out: &mut Out, case: &Case) {
    let c = cal();
    let i = case.a[0] as usize;
    let s = case.a[1].clamp(0, 86399);
    let (y, _, _) = c.ymd(i);
    let ts = ensure(y - 1, y + 1);
    let (exp, amb) = match expected_chars(&ts, i, s) {
      Some(x) => x,
      None => {
        out.skip("instant_before_first_listed_jie");
        return;
      }
    };
    out.eval("compose");
    let h = s / 3600;
    let nt = h == 23 || exp[0] != year_pillar(y);
    if nt {
      out.nontrivial("compose", &[i as i64, s]);
    }
    if h == 23 {
      out.class("compose_hour_23");
    }
    let k = [("jdn", c.jdn(i)), ("s", s)];
    let t = stime(c, i, s);
    let r = guard(|| {
      let sh = t.get_sixty_cycle_hour();
      let e1 = sh.get_eight_char();
      let e2 = t.get_lunar_hour().get_eight_char();
      ([e1.get_year().get_index() as i64, e1.get_month().get_index() as i64, e1.get_day().get_index() as i64, e1.get_hour().get_index() as i64], [e2.get_year().get_index() as i64, e2.get_month().get_index() as i64, e2.get_day().get_index() as i64, e2.get_hour().get_index() as i64], [sh.get_year().get_index() as i64, sh.get_month().get_index() as i64, sh.get_day().get_index() as i64, sh.get_sixty_cycle().get_index() as i64], e1.get_name())
    });
    let (e1, e2, pil, name) = match r {
      Ok(x) => x,
      Err(e) => {
        out.fail(env, viol("compose", "panics", case, &k, tfmt(c, i, s), chars_name(&exp), e));
        return;
      }
    };
    if out.wants_sample("compose", nt) {
      out.sample("compose", nt, || json!({"instant": tfmt(c, i, s), "eight_characters": name}));
    }
    if e1 != pil {
      out.fail(env, viol("compose", "chars_vs_pillars", case, &k, tfmt(c, i, s), chars_name(&pil), chars_name(&e1)));
    }
    if e1 != e2 {
      out.fail(env, viol("compose", "lunar_hour_vs_instant_view", case, &k, tfmt(c, i, s), chars_name(&e1), chars_name(&e2)));
    }
    // the lunar hour's own pillar accessors (deprecated since 1.3.0 but public) are one more route to the same four pillars
    #[allow(deprecated)]
    let r3 = guard(|| {
      let lh = t.get_lunar_hour();
      [lh.get_year_sixty_cycle().get_index() as i64, lh.get_month_sixty_cycle().get_index() as i64, lh.get_day_sixty_cycle().get_index() as i64, lh.get_sixty_cycle().get_index() as i64]
    });
    match r3 {
      Ok(p3) => {
        if p3 != pil {
          out.fail(env, viol("compose", "lunar_hour_pillar_accessors_vs_instant_view", case, &k, tfmt(c, i, s), chars_name(&pil), chars_name(&p3)));
        }
      }
      Err(e) => {
        out.fail(env, viol("compose", "lunar_hour_pillar_accessors_panic", case, &k, tfmt(c, i, s), chars_name(&pil), e));
      }
    }
    if e1 != exp {
      if amb {
        out.skip("jie_instant_rounds_at_half_second");
      } else {
        out.fail(env, viol("compose", "chars_vs_oracle", case, &k, tfmt(c, i, s), chars_name(&exp), chars_name(&e1)));
      }
    }
    if name != chars_name(&e1) {
      out.fail(env, viol("compose", "name", case, &k, tfmt(c, i, s), chars_name(&e1), name));
    }
  }

  /// a = [date index, second of day, k, read_first]: a lunar hour reached by stepping (after its source hour's views were
  /// read) has exactly the pillars / eight characters of the instant 2k hours later
  fn eval_stepped(&self, env: &Env, out: &mut Out, case: &Case) {
    use tyme4rs::tyme::Tyme;
    let c = cal();
    let i = case.a[0] as usize;
    let s = case.a[1].clamp(0, 86399);
    let kk = case.a[2].clamp(-30, 30);
    let read_first = case.a[3] == 1;
    let target = i as i64 * 86400 + s + 7200 * kk;
    if target < 0 || target >= (c.year_start[9999] as i64) * 86400 {
      out.skip("stepped_hour_outside_range");
      return;
    }
    let (ti, tsec) = ((target / 86400) as usize, target % 86400);
    let (y, _, _) = c.ymd(ti);
    let ts = ensure(y - 1, y + 1);
    let (exp, amb) = match expected_chars(&ts, ti, tsec) {
      Some(x) => x,
      None => return,
    };
    out.eval("stepped");
    let same_day = ti == i;
    if same_day && kk != 0 && read_first {
      out.nontrivial("stepped", &case.a);
      out.class("stepped_within_the_same_day_after_reading_the_source");
    }
    let k = [("jdn", c.jdn(i)), ("s", s), ("k", kk), ("read_first", read_first as i64)];
    let t = stime(c, i, s);
    let r = guard(|| {
      let h = t.get_lunar_hour();
      if read_first {
        let _ = (h.get_sixty_cycle_hour(), h.get_twelve_star(), h.get_solar_time());
      }
      let g = h.next(kk as isize);
      let e = g.get_eight_char();
      let sh = g.get_sixty_cycle_hour();
      ([e.get_year().get_index() as i64, e.get_month().get_index() as i64, e.get_day().get_index() as i64, e.get_hour().get_index() as i64], [sh.get_year().get_index() as i64, sh.get_month().get_index() as i64, sh.get_day().get_index() as i64, sh.get_sixty_cycle().get_index() as i64], g.get_sixty_cycle().get_index() as i64, ymdhms(&g.get_solar_time()), ymdhms(&sh.get_solar_time()))
    });
    match r {
      Ok((e, p, lhp, gt, sht)) => {
        let texp = { let (yy, mm, dd) = c.ymd(ti); (yy, mm, dd, tsec / 3600, tsec / 60 % 60, tsec % 60) };
        if gt != texp || sht != texp {
          out.fail(env, viol("stepped", "stepped_hour_instant", case, &k, format!("lunar hour of {} .next({})", tfmt(c, i, s), kk), fmt_time(texp), format!("solar time {} / instant view {}", fmt_time(gt), fmt_time(sht))));
          return;
        }
        if (e != exp || p != exp || lhp != exp[3]) && !amb {
          out.fail(env, viol("stepped", "stepped_hour_pillars", case, &k, format!("lunar hour of {} {}.next({}) = {}", tfmt(c, i, s), if read_first { "(views read first) " } else { "" }, kk, fmt_time(texp)), chars_name(&exp), format!("eight chars {} / instant view {} / lunar hour pillar {}", chars_name(&e), chars_name(&p), pillar_name(lhp))));
        }
      }
      Err(e) => {
        out.fail(env, viol("stepped", "panics", case, &k, format!("lunar hour of {} .next({})", tfmt(c, i, s), kk), chars_name(&exp), e));
      }
    }
  }

  /// a = [date index, second of day, lo offset (years before year(t)), span]
  fn eval_inverse(&self, env: &Env, out: &mut Out, case: &Case) {
    let c = cal();
    let i = case.a[0] as usize;
    let s = case.a[1].clamp(0, 86399);
    let (y, _, _) = c.ymd(i);
    let lo = (y - case.a[2].clamp(0, 200)).max(1);
    let hi = (lo + case.a[3].clamp(0, 120)).max(y).min(9998);
    let ts = ensure(y - 1, y + 1);
    out.eval("inverse");
    let h = s / 3600;
    let k = [("jdn", c.jdn(i)), ("s", s), ("lo", lo), ("hi", hi), ("h", h)];
    let t = stime(c, i, s);
    let ec = match guard(|| t.get_sixty_cycle_hour().get_eight_char()) {
      Ok(e) => e,
      Err(_) => {
        out.skip("instant_has_no_eight_characters");
        return;
      }
    };
    let res = match guard(|| ec.get_solar_times(lo as isize, hi as isize)) {
      Ok(r) => r,
      Err(e) => {
        let kk = [("jdn", c.jdn(i)), ("s", s), ("lo", lo), ("hi", hi), ("h", h), ("yp", ec.get_year().get_index() as i64)];
        out.fail(env, viol("inverse", "search_panics", case, &kk, format!("{} in {}..{}", ec.get_name(), lo, hi), "a list of instants".into(), e));
        return;
      }
    };
    // soundness: every returned instant has exactly these eight characters
    for r in &res {
      let ok = guard(|| r.get_sixty_cycle_hour().get_eight_char() == ec).unwrap_or(false);
      if !ok {
        out.fail(env, viol("inverse", "unsound_result", case, &k, format!("{} in {}..{}", ec.get_name(), lo, hi), "only instants with these characters".into(), fmt_time(ymdhms(r))));
        return;
      }
    }
    // completeness on the double-hour of t
    let sec = i as i64 * 86400 + s;
    let start = if h == 23 { i as i64 * 86400 + 23 * 3600 } else if h % 2 == 1 { i as i64 * 86400 + h * 3600 } else { i as i64 * 86400 + h * 3600 - 3600 };
    let end = start + 7199;
    if start < 0 || end >= NDAYS as i64 * 86400 {
      out.skip("double_hour_outside_range");
      return;
    }
    let (si, ei) = ((start / 86400) as usize, (end / 86400) as usize);
    if c.ymd(si).0 < lo || c.ymd(ei).0 > hi {
      out.skip("double_hour_straddles_the_year_range");
      return;
    }
    // skip rule of the property: a Jie instant inside the double-hour, or the characters change inside it
    let jie_inside = ts.list.iter().any(|e| e.index % 2 == 1 && e.sec >= start - 1 && e.sec <= end + 1);
    let same_at = |x: i64| guard(|| stime(c, (x / 86400) as usize, x % 86400).get_sixty_cycle_hour().get_eight_char() == ec).unwrap_or(false);
    if jie_inside || !same_at(start) || !same_at(end) {
      out.skip("double_hour_contains_a_jie_or_changes_characters");
      return;
    }
    let zi = h == 23 || h == 0;
    let early = exp_before_lichun(&ts, i, s);
    let nt = !zi || early || lo == y;
    if nt {
      out.nontrivial("inverse", &case.a);
    }
    if !zi {
      out.class("inverse_non_zi_hour");
    }
    if early {
      out.class("inverse_before_lichun");
    }
    if lo == y {
      out.class("inverse_range_starts_in_year_of_t");
    }
    let found = res.iter().any(|r| {
      let (ry, rm, rd, rh, rmi, rs) = ymdhms(r);
      match c.index(ry, rm, rd) {
        Some(ix) => {
          let x = ix as i64 * 86400 + rh * 3600 + rmi * 60 + rs;
          x >= start && x <= end
        }
        None => false,
      }
    });
    if out.wants_sample("inverse", nt) {
      out.sample("inverse", nt, || json!({"t": tfmt(c, i, s), "eight_characters": ec.get_name(), "range": [lo, hi], "returned": res.iter().map(|r| fmt_time(ymdhms(r))).collect::<Vec<_>>()}));
    }
    if !found {
      let _ = sec;
      out.fail(env, viol("inverse", "incomplete", case, &k, format!("{} searched in {}..{} (characters of {})", ec.get_name(), lo, hi, tfmt(c, i, s)), format!("an instant inside {} .. {}", tfmt(c, si, start % 86400), tfmt(c, ei, end % 86400)), format!("{:?}", res.iter().map(|r| fmt_time(ymdhms(r))).collect::<Vec<_>>())));
    }
  }
}

fn exp_before_lichun(ts: &Terms, i: usize, s: i64) -> bool {
  let (y, _, _) = cal().ymd(i);
  match expected_chars(ts, i, s) {
    Some((e, _)) => e[0] != year_pillar(y),
    None => false,
  }
}

fn instant_strategy(hi_idx: i64) -> impl Strategy<Value = Case> {
  let sec = prop_oneof![
    5 => 0i64..86400,
    2 => (0i64..24, prop_oneof![Just(0i64), Just(1), Just(3599), Just(1800)]).prop_map(|(h, x)| h * 3600 + x),
    1 => prop_oneof![Just(82800i64), Just(82799), Just(86399), Just(0), Just(3599), Just(3600)],
  ];
  (0..hi_idx, sec).prop_map(|(i, s)| Case::ints(&[i, s]))
}

fn inverse_strategy(hi_idx: i64) -> impl Strategy<Value = Case> {
  let idx = prop_oneof![
    6 => 0..hi_idx,
    // January / early February dates (sexagenary year != civil year)
    3 => (1i64..=9998, 0i64..36).prop_map(|(y, k)| cal().year_start[y as usize] as i64 + k),
  ];
  (idx, 0i64..86400, prop_oneof![2 => Just(0i64), 3 => 0i64..=60, 2 => 60i64..=190], prop_oneof![1 => Just(0i64), 4 => 0i64..=120]).prop_map(|(i, s, a, b)| Case::ints(&[i, s, a, b]))
}

impl Prop for C09 {
  fn id(&self) -> &'static str {
    "C09"
  }
  fn meta(&self, _env: &Env) -> Meta {
    Meta {
      rule: "Generators: (a) `hour`: all 60 day pillars x 24 hours (exhaustive, on 60 consecutive dates from 2000-01-01) and `hour_rand`: proptest (date, hour, minute, second): hour branch floor((h+1)/2) mod 12, hour stem by Five Rats from the day stem, from 23:00 the next day's pillar, on LunarHour and SixtyCycleHour, index in day; (b) `compose`: proptest instants 0001..9998 (hour edges and 23:00 over-weighted): eight characters of both views == the four pillars == an oracle (year/month from the latest Jie instant, day (JDN+49) mod 60 with the 23:00 roll, hour by Five Rats); (b') `stepped`: proptest (instant from AD 25, k in -5..5 / -30..30, read-first flag): the LunarHour reached by next(k) — half of the time after the source hour's memoised views were read — has the instant, pillars and eight characters of the instant 2k hours later; (c) `inverse`: proptest (instant t, lo <= year(t) <= hi, hi-lo <= 120; 30% of t in January/early February, 40% with lo == year(t)): ec = chars(t); every instant returned by ec.get_solar_times(lo,hi) has ec (soundness); unless the double-hour of t contains a Jie instant, changes characters inside, or straddles the year range (skipped, counted), some returned instant lies inside that double-hour (completeness). Non-trivial: hours 23, 0 and odd hours; instants at hour 23 or before Lichun; inverse cases outside the Zi hour, before Lichun, or with lo == year(t). Distinct = distinct inputs.".into(),
      assumptions: vec![
        "Jie instants are the library's own; characters of t are the library's own (the property defines the inverse search relative to them)".into(),
        "The skip rule for double-hours containing a Jie is the one stated in the property's quantifier".into(),
      ],
      level_text: String::new(),
    }
  }
  fn plan(&self, _env: &Env) -> Vec<TaskSpec> {
    vec![task("hours", 4), task("compose", 16), task("inverse", 16)]
  }
  fn run(&self, env: &Env, t: &str, shard: usize, nshards: usize, out: &mut Out) {
    let ev = |e: &Env, o: &mut Out, s: &str, cs: &Case| self.eval(e, o, s, cs);
    let c = cal();
    let hi_idx = c.year_start[9999] as i64;
    match t {
      "hours" => {
        if shard == 0 {
          let base = c.index(2000, 1, 1).unwrap();
          for dd in 0..60 {
            for h in 0..24 {
              run_case(env, out, "hour", &Case::ints(&[(base + dd) as i64, h]), &ev);
            }
          }
          out.set_exhaustive("hour", true);
        }
        let total: u32 = env.tier.pick(40_000, 800_000);
        prop_run(env, out, "hour_rand", total / nshards as u32, shard as u64, (0..NDAYS as i64, 0i64..24, 0i64..60, 0i64..60).prop_map(|(i, h, m, s)| Case::ints(&[i, h, m, s])), &ev);
        out.set_exhaustive("hour_rand", false);
      }
      "compose" => {
        // route equivalence of the objects this property reads (see routes.rs)
        prop_run(env, out, "hroutes", env.tier.pick(1600, 64000) / nshards as u32, 8900 + shard as u64, crate::routes::hour_strategy(), &ev);
        out.set_exhaustive("hroutes", false);
        // strided walks on fresh threads (see engine::stride_walks)
        stride_walks(env, out, "compose", env.tier.pick(800, 24000) / nshards as u32, 7000 + shard as u64, 0, (crate::model::NDAYS as i64) - 366, 800, &|x| vec![x, (x * 7919).rem_euclid(86400)], &ev);
        let total: u32 = env.tier.pick(32_000, 640_000);
        prop_run(env, out, "compose", total / nshards as u32, shard as u64, instant_strategy(hi_idx), &ev);
        out.set_exhaustive("compose", false);
        let lo_idx = c.year_start[25] as i64;
        let strat = (lo_idx..hi_idx - 5, 0i64..86400, prop_oneof![3 => -5i64..=5, 1 => -30i64..=30], 0i64..2).prop_map(|(i, s, k, r)| Case::ints(&[i, s, k, r]));
        prop_run(env, out, "stepped", total / 2 / nshards as u32, 40 + shard as u64, strat, &ev);
        out.set_exhaustive("stepped", false);
      }
      "inverse" => {
        if shard == 0 {
          // boundary instants: the first 40 days (before/after Lichun) of the first and a few other years, range starting in that year
          // (all of the first 70 years: the search aligns its first candidate year with the 60-year cycle near its start)
          for y in (1i64..=70).chain([1582, 1583, 9998]) {
            for dd in (0..40).step_by(if y <= 3 || y >= 60 { 3 } else { 13 }).chain([150usize]) {
              let dd = dd as i64;
              for h in [1i64, 12, 23] {
                let ix = c.year_start[y as usize] as i64 + dd;
                run_case(env, out, "inverse", &Case::ints(&[ix, h * 3600 + 1800, 0, 0]), &ev);
                run_case(env, out, "inverse", &Case::ints(&[ix, h * 3600 + 1800, 1, 61]), &ev);
              }
            }
          }
        }
        if shard == 0 {
          // witness of KF-C09-inverse-hole-0024 (always re-observed): characters of 0084-01-15 00:00 searched in 24..84
          run_case(env, out, "inverse", &Case::ints(&[30329, 0, 60, 0]), &ev);
        }
        let total: u32 = env.tier.pick(6_400, 96_000);
        prop_run(env, out, "inverse", total / nshards as u32, shard as u64, inverse_strategy(hi_idx), &ev);
        out.set_exhaustive("inverse", false);
      }
      _ => panic!("unknown task {}", t),
    }
  }
  fn cold_subs(&self) -> Vec<(&'static str, i64, i64, fn(i64) -> Vec<i64>)> {
    vec![("compose", 0, crate::model::NDAYS as i64 - 366, |x| vec![x, (x * 7919).rem_euclid(86400)])]
  }
  fn eval(&self, env: &Env, out: &mut Out, sub: &str, case: &Case) {
    match sub {
      "hour" | "hour_rand" => self.eval_hour(env, out, sub, case),
      "compose" => self.eval_compose(env, out, case),
      "stepped" => self.eval_stepped(env, out, case),
      "inverse" => self.eval_inverse(env, out, case),
      "hroutes" => crate::routes::compare_hour_routes(env, out, "hroutes", case, (case.a[0].clamp(0, crate::model::NDAYS as i64 - 1)) as usize, case.a.get(1).cloned().unwrap_or(10), &crate::routes::hour_fields_c09),
      _ => panic!("unknown sub-check {}", sub),
    }
  }
}

#[allow(dead_code)]
fn _u(_: EightChar) {}
