//! C11 Stepping by n is a consistent group action on every time unit and cycle

use crate::adapt::*;
use crate::engine::*;
use crate::lunmodel::*;
use crate::model::*;
use proptest::prelude::*;
use serde_json::json;
use tyme4rs::tyme::culture as cu;
use tyme4rs::tyme::eightchar::{ChildLimit, DecadeFortune, Fortune};
use tyme4rs::tyme::enums::Gender;
use tyme4rs::tyme::jd::JulianDay;
use tyme4rs::tyme::lunar::{LunarMonth, LunarSeason, LunarYear, LUNAR_SEASON_NAMES};
use tyme4rs::tyme::sixtycycle::{EarthBranch, HeavenStem, SixtyCycle, SixtyCycleMonth, SixtyCycleYear, EARTH_BRANCH_NAMES, HEAVEN_STEM_NAMES, SIXTY_CYCLE_NAMES};
use tyme4rs::tyme::solar::{SolarHalfYear, SolarMonth, SolarSeason, SolarTerm, SolarTime, SolarYear};
use tyme4rs::tyme::{Culture, Tyme};

pub struct C11;

fn viol(sub: &str, kind: &str, case: &Case, k: &[(&str, i64)], desc: String, expected: String, got: String) -> Viol {
  Viol { sub: sub.into(), kind: kind.into(), case: case.clone(), key: key(k), desc, expected, got }
}

// ------------------------------------------------------------------ cyclic types

pub struct Cyc {
  pub name: &'static str,
  pub names: Vec<&'static str>,
  /// (index, name, size) of from_index(i)
  pub from_index: Box<dyn Fn(isize) -> (usize, String, usize) + Sync>,
  /// index of from_index(i).next(n)
  pub next: Box<dyn Fn(isize, isize) -> usize + Sync>,
  /// index of from_index(i).next(a).next(b)
  pub next2: Box<dyn Fn(isize, isize, isize) -> usize + Sync>,
  pub from_name: Option<Box<dyn Fn(&str) -> usize + Sync>>,
}

macro_rules! cyc {
  ($t:ty, $names:expr) => {
    Cyc {
      name: stringify!($t),
      names: $names.to_vec(),
      from_index: Box::new(|i| {
        let x = <$t>::from_index(i);
        (x.get_index(), x.get_name(), x.get_size())
      }),
      next: Box::new(|i, n| <$t>::from_index(i).next(n).get_index()),
      next2: Box::new(|i, a, b| <$t>::from_index(i).next(a).next(b).get_index()),
      from_name: Some(Box::new(|s| <$t>::from_name(s).get_index())),
    }
  };
  ($t:ty, $names:expr, noname) => {
    Cyc {
      name: stringify!($t),
      names: $names.to_vec(),
      from_index: Box::new(|i| {
        let x = <$t>::from_index(i);
        (x.get_index(), x.get_name(), x.get_size())
      }),
      next: Box::new(|i, n| <$t>::from_index(i).next(n).get_index()),
      next2: Box::new(|i, a, b| <$t>::from_index(i).next(a).next(b).get_index()),
      from_name: None,
    }
  };
}

pub fn cyclic_registry() -> Vec<Cyc> {
  use tyme4rs::tyme::culture::dog::{Dog, DOG_NAMES};
  use tyme4rs::tyme::culture::fetus::{FetusEarthBranch, FetusHeavenStem, FetusMonth, FETUS_EARTH_BRANCH_NAMES, FETUS_HEAVEN_STEM_NAMES, FETUS_MONTH_NAMES};
  use tyme4rs::tyme::culture::nine::{Nine, NINE_NAMES};
  use tyme4rs::tyme::culture::peng_zu::{PengZuEarthBranch, PengZuHeavenStem, PENG_ZU_EARTH_BRANCH_NAMES, PENG_ZU_HEAVEN_STEM_NAMES};
  use tyme4rs::tyme::culture::phenology::{Phenology, ThreePhenology, PHENOLOGY_NAMES, THREE_PHENOLOGY_NAMES};
  use tyme4rs::tyme::culture::plumrain::{PlumRain, PLUM_RAIN_NAMES};
  use tyme4rs::tyme::culture::ren::minor::{MinorRen, SIX_STAR_NAMES as MINOR_REN_NAMES};
  use tyme4rs::tyme::culture::star::nine::{Dipper, NineStar, DIPPER_NAMES, NINE_STAR_NAMES};
  use tyme4rs::tyme::culture::star::seven::{SevenStar, SEVEN_STAR_NAMES};
  use tyme4rs::tyme::culture::star::six::{SixStar, SIX_STAR_NAMES};
  use tyme4rs::tyme::culture::star::ten::{TenStar, TEN_STAR_NAMES};
  use tyme4rs::tyme::culture::star::twelve::{Ecliptic, TwelveStar, ECLIPTIC_NAMES, TWELVE_STAR_NAMES};
  use tyme4rs::tyme::culture::star::twenty_eight::{TwentyEightStar, TWENTY_EIGHT_STAR_NAMES};
  vec![
    cyc!(HeavenStem, HEAVEN_STEM_NAMES),
    cyc!(EarthBranch, EARTH_BRANCH_NAMES),
    cyc!(SixtyCycle, SIXTY_CYCLE_NAMES),
    cyc!(cu::Animal, cu::ANIMAL_NAMES),
    cyc!(cu::Beast, cu::BEAST_NAMES),
    cyc!(cu::Constellation, cu::CONSTELLATION_NAMES),
    cyc!(cu::Direction, cu::DIRECTION_NAMES),
    cyc!(cu::Duty, cu::DUTY_NAMES),
    cyc!(cu::Element, cu::ELEMENT_NAMES),
    cyc!(cu::God, cu::GOD_NAMES),
    cyc!(cu::Land, cu::LAND_NAMES),
    cyc!(cu::Luck, cu::LUCK_NAMES),
    cyc!(cu::Phase, cu::PHASE_NAMES),
    cyc!(cu::Sixty, cu::SIXTY_NAMES),
    cyc!(cu::Sound, cu::SOUND_NAMES),
    cyc!(cu::Taboo, cu::TABOO_NAMES),
    cyc!(cu::Ten, cu::TEN_NAMES),
    cyc!(cu::Terrain, cu::TERRAIN_NAMES),
    cyc!(cu::Twenty, cu::TWENTY_NAMES),
    cyc!(cu::Week, cu::WEEK_NAMES),
    cyc!(cu::Zodiac, cu::ZODIAC_NAMES),
    cyc!(cu::Zone, cu::ZONE_NAMES),
    cyc!(Dog, DOG_NAMES),
    cyc!(Nine, NINE_NAMES),
    cyc!(Phenology, PHENOLOGY_NAMES),
    cyc!(ThreePhenology, THREE_PHENOLOGY_NAMES),
    cyc!(PlumRain, PLUM_RAIN_NAMES),
    cyc!(FetusHeavenStem, FETUS_HEAVEN_STEM_NAMES, noname),
    cyc!(FetusEarthBranch, FETUS_EARTH_BRANCH_NAMES, noname),
    cyc!(FetusMonth, FETUS_MONTH_NAMES, noname),
    cyc!(PengZuHeavenStem, PENG_ZU_HEAVEN_STEM_NAMES),
    cyc!(PengZuEarthBranch, PENG_ZU_EARTH_BRANCH_NAMES),
    cyc!(Dipper, DIPPER_NAMES),
    cyc!(NineStar, NINE_STAR_NAMES),
    cyc!(SixStar, SIX_STAR_NAMES),
    cyc!(SevenStar, SEVEN_STAR_NAMES),
    cyc!(TenStar, TEN_STAR_NAMES),
    cyc!(Ecliptic, ECLIPTIC_NAMES),
    cyc!(TwelveStar, TWELVE_STAR_NAMES),
    cyc!(TwentyEightStar, TWENTY_EIGHT_STAR_NAMES),
    cyc!(MinorRen, MINOR_REN_NAMES),
    cyc!(LunarSeason, LUNAR_SEASON_NAMES),
  ]
}

// ------------------------------------------------------------------ linear units

pub struct Lin {
  pub name: &'static str,
  pub lo: i64,
  pub hi: i64,
  /// how many ordinal units one step moves
  pub unit: i64,
  /// (ord(next(0)), ord(next(a)), ord(next(a).next(b)), ord(next(a+b)), ord(next(a).next(-a)), next(0)==x, next(a).next(b)==next(a+b), next(a).next(-a)==x)
  pub laws: Box<dyn Fn(i64, isize, isize) -> (i64, i64, i64, i64, i64, bool, bool, bool) + Sync>,
  /// ordinals that must not be touched by any intermediate result (known holes), inclusive
  pub avoid: Option<(i64, i64)>,
}

macro_rules! lin {
  ($name:expr, $lo:expr, $hi:expr, $unit:expr, $avoid:expr, $mk:expr, $ord:expr) => {
    Lin {
      name: $name,
      lo: $lo,
      hi: $hi,
      unit: $unit,
      avoid: $avoid,
      laws: Box::new(|o, a, b| {
        let mk = $mk;
        let ord = $ord;
        let x = mk(o);
        let r0 = x.next(0);
        let r1 = x.next(a);
        let r2 = r1.next(b);
        let r3 = x.next(a + b);
        let r4 = r1.next(-a);
        // (the value as constructed must itself sit at the requested ordinal, not only the values stepped from it)
        let (ox, o0) = (ord(&x), ord(&r0));
        (if ox == o0 { o0 } else { i64::MIN + 9 }, ord(&r1), ord(&r2), ord(&r3), ord(&r4), r0 == x, r2 == r3, r4 == x)
      }),
    }
  };
}

fn time_of(o: i64) -> SolarTime {
  let c = cal();
  let (y, m, d) = c.ymd((o / 86400) as usize);
  let s = o % 86400;
  SolarTime::from_ymd_hms(y as isize, m as usize, d as usize, (s / 3600) as usize, (s / 60 % 60) as usize, (s % 60) as usize)
}

fn ord_time(t: &SolarTime) -> i64 {
  let (y, m, d, h, mi, s) = ymdhms(t);
  cal().index(y, m, d).map(|i| i as i64 * 86400 + h * 3600 + mi * 60 + s).unwrap_or(i64::MIN)
}

/// first Monday at least 40 days after 0001-01-01: Monday-based weeks are numbered from here
fn week_base() -> i64 {
  let mut b = JDN0 + 40;
  while weekday(b) != 1 {
    b += 1;
  }
  b
}

/// the Sunday-based lunar week that starts on civil day `jdn` (a Sunday), built through the lunar month of that day
fn lunar_week_at(jdn: i64) -> tyme4rs::tyme::lunar::LunarWeek {
  let c = cal();
  let l = sd_idx(c, (jdn - JDN0) as usize).get_lunar_day();
  let mo = l.get_lunar_month();
  let first = lm_first_jdn(&mo);
  let offset = weekday(first); // start weekday 0
  let index = (jdn - first + offset) / 7;
  tyme4rs::tyme::lunar::LunarWeek::from_ym(mo.get_year(), mo.get_month_with_leap(), index as usize, 0)
}

fn a_child_limit() -> ChildLimit {
  ChildLimit::from_solar_time(SolarTime::from_ymd_hms(1990, 3, 15, 10, 30, 0), Gender::MAN)
}

pub fn linear_registry() -> Vec<Lin> {
  let c = cal();
  let y25 = c.year_start[25] as i64;
  let hi_day = c.year_start[9999] as i64 - 1;
  let nlun = lunlist().len() as i64;
  vec![
    lin!("SolarYear", 1, 9999, 1, None, |o: i64| SolarYear::from_year(o as isize), |t: &SolarYear| t.get_year() as i64),
    lin!("SolarHalfYear", 2, 19999, 1, None, |o: i64| SolarHalfYear::from_index((o / 2) as isize, (o % 2) as usize), |t: &SolarHalfYear| t.get_year() as i64 * 2 + t.get_index() as i64),
    lin!("SolarSeason", 4, 39999, 1, None, |o: i64| SolarSeason::from_index((o / 4) as isize, (o % 4) as usize), |t: &SolarSeason| t.get_year() as i64 * 4 + t.get_index() as i64),
    lin!("SolarMonth", 12, 119999, 1, None, |o: i64| SolarMonth::from_ym((o / 12) as isize, (o % 12 + 1) as usize), |t: &SolarMonth| t.get_year() as i64 * 12 + t.get_month() as i64 - 1),
    lin!("SolarDay", 0, NDAYS as i64 - 1, 1, None, |o: i64| sd_idx(cal(), o as usize), |t: &tyme4rs::tyme::solar::SolarDay| idx_of(t).map(|i| i as i64).unwrap_or(i64::MIN)),
    lin!("SolarTime", 0, NDAYS as i64 * 86400 - 1, 1, None, |o: i64| time_of(o), |t: &SolarTime| ord_time(t)),
    // (odd ordinals are addressed through a negative index of the following year; the ordinal is only accepted if the
    // term's instant is where the (year, index) label says: terms are 15.2184 days apart on average, within +-4 days)
    lin!("SolarTerm", 24, 9999 * 24 + 23, 1, None, |o: i64| if o % 2 == 1 && o / 24 < 9999 { SolarTerm::from_index((o / 24 + 1) as isize, (o % 24 - 24) as isize) } else { SolarTerm::from_index((o / 24) as isize, (o % 24) as isize) }, |t: &SolarTerm| {
      let o = t.get_year() as i64 * 24 + t.get_index() as i64;
      let k = ((t.get_julian_day().get_day() - 1721414.6022) / 15.2184246).round() as i64 + 24;
      if k == o { o } else { i64::MIN + 7 }
    }),
    lin!("JulianDay", 1_000_000, 6_000_000, 1, None, |o: i64| JulianDay::from_julian_day(o as f64 + 0.25), |t: &JulianDay| (t.get_day() - 0.25) as i64),
    // a Julian date with a sub-second fraction (as term instants have): stepping by whole days keeps the fraction exactly
    // (the ordinal is scaled by 2^20 so that any change of the fraction shows)
    lin!("JulianDay (fractional)", 1_000_000 * 1048576 + 129_007, 6_000_000 * 1048576 + 129_007, 1048576, None, |o: i64| JulianDay::from_julian_day(o as f64 / 1048576.0), |t: &JulianDay| (t.get_day() * 1048576.0).round() as i64),
    lin!("LunarYear", -1, 9999, 1, None, |o: i64| LunarYear::from_year(o as isize), |t: &LunarYear| t.get_year() as i64),
    lin!("LunarMonth", 0, nlun - 1, 1, None, |o: i64| { let (y, m) = lunlist().at(o as usize); LunarMonth::from_ym(y as isize, m as isize) }, |t: &LunarMonth| lunlist().pos(t.get_year() as i64, t.get_month_with_leap() as i64).map(|p| p as i64).unwrap_or(i64::MIN)),
    lin!("LunarDay", y25, hi_day, 1, None, |o: i64| { let l = sd_idx(cal(), o as usize).get_lunar_day(); let _ = (l.get_solar_day(), l.get_sixty_cycle_day()); l }, |t: &tyme4rs::tyme::lunar::LunarDay| idx_of(&t.get_solar_day()).map(|i| i as i64).unwrap_or(i64::MIN)),
    lin!("LunarHour", y25 * 86400, hi_day * 86400 + 86399, 7200, None, |o: i64| { let h = time_of(o).get_lunar_hour(); let _ = (h.get_solar_time(), h.get_sixty_cycle_hour()); h }, |t: &tyme4rs::tyme::lunar::LunarHour| ord_time(&t.get_solar_time())),
    lin!("SixtyCycleYear", -1, 9999, 1, None, |o: i64| SixtyCycleYear::from_year(o as isize), |t: &SixtyCycleYear| t.get_year() as i64),
    lin!("SixtyCycleMonth", -12, 119999, 1, None, |o: i64| SixtyCycleMonth::from_index(o.div_euclid(12) as isize, o.rem_euclid(12) as isize), |t: &SixtyCycleMonth| t.get_sixty_cycle_year().get_year() as i64 * 12 + t.get_index_in_year() as i64),
    // the same month objects handed out by a day view and by an instant view inside the month (15 days after its Jie day)
    lin!("SixtyCycleMonth (handed out by a day view)", 30 * 12, 9990 * 12, 1, None, |o: i64| { let m = SixtyCycleMonth::from_index(o.div_euclid(12) as isize, o.rem_euclid(12) as isize); m.get_first_day().get_solar_day().next(15).get_sixty_cycle_day().get_sixty_cycle_month() }, |t: &SixtyCycleMonth| t.get_sixty_cycle_year().get_year() as i64 * 12 + t.get_index_in_year() as i64),
    lin!("SixtyCycleMonth (handed out by an instant view)", 30 * 12, 9990 * 12, 1, None, |o: i64| { let m = SixtyCycleMonth::from_index(o.div_euclid(12) as isize, o.rem_euclid(12) as isize); let d = m.get_first_day().get_solar_day().next(15); SolarTime::from_ymd_hms(d.get_year(), d.get_month(), d.get_day(), 12, 0, 0).get_sixty_cycle_hour().get_sixty_cycle_day().get_sixty_cycle_month() }, |t: &SixtyCycleMonth| t.get_sixty_cycle_year().get_year() as i64 * 12 + t.get_index_in_year() as i64),
    lin!("SixtyCycleDay", y25, hi_day, 1, None, |o: i64| sd_idx(cal(), o as usize).get_sixty_cycle_day(), |t: &tyme4rs::tyme::sixtycycle::SixtyCycleDay| idx_of(&t.get_solar_day()).map(|i| i as i64).unwrap_or(i64::MIN)),
    lin!("SixtyCycleHour", y25 * 86400, hi_day * 86400 + 86399, 1, None, |o: i64| time_of(o).get_sixty_cycle_hour(), |t: &tyme4rs::tyme::sixtycycle::SixtyCycleHour| ord_time(&t.get_solar_time())),
    lin!("SolarWeek", 0, (NDAYS as i64 - 120) / 7 - 1, 1, None, |o: i64| sd_idx(cal(), (week_base() + 7 * o - JDN0) as usize).get_solar_week(1), |t: &tyme4rs::tyme::solar::SolarWeek| idx_of(&t.get_first_day()).map(|i| (cal().jdn(i) - week_base()).div_euclid(7)).unwrap_or(i64::MIN)),
    lin!("LunarWeek", (cal().jdn(cal().year_start[245] as usize) - week_base()) / 7 + 1, (NDAYS as i64 - 500) / 7 - 1, 1, None, |o: i64| lunar_week_at(week_base() + 7 * o - 1), |t: &tyme4rs::tyme::lunar::LunarWeek| idx_of(&t.get_first_day().get_solar_day()).map(|i| (cal().jdn(i) - (week_base() - 1)).div_euclid(7)).unwrap_or(i64::MIN)),
    lin!("DecadeFortune", -1000, 1000, 1, None, |o: i64| DecadeFortune::from_child_limit(a_child_limit(), o as isize), |t: &DecadeFortune| t.get_index() as i64),
    lin!("Fortune", -1000, 1000, 1, None, |o: i64| Fortune::from_child_limit(a_child_limit(), o as isize), |t: &Fortune| t.get_index() as i64),
  ]
}

impl C11 {
  /// a = [type, element index, n]
  fn eval_cyc(&self, env: &Env, out: &mut Out, case: &Case) {
    let reg = cyclic_registry();
    let t = case.a[0] as usize;
    if t >= reg.len() {
      return;
    }
    let cy = &reg[t];
    let size = cy.names.len() as i64;
    let i = case.a[1].rem_euclid(size);
    let n = case.a[2];
    out.eval("cyc");
    let nt = n.abs() >= size || n < 0;
    if nt {
      out.nontrivial("cyc", &[t as i64, i, n]);
    }
    let k = [("type", t as i64), ("i", i), ("n", n)];
    let desc = format!("{}[{}={}].next({})", cy.name, i, cy.names[i as usize], n);
    let exp = (i + n).rem_euclid(size);
    match guard(|| ((cy.from_index)(i as isize), (cy.next)(i as isize, n as isize))) {
      Ok(((gi, gname, gsize), nx)) => {
        if out.wants_sample("cyc", nt) {
          out.sample("cyc", nt, || json!({"type": cy.name, "element": gname, "n": n, "result": cy.names[(nx as i64).rem_euclid(size) as usize]}));
        }
        if gi as i64 != i || gname != cy.names[i as usize] || gsize as i64 != size {
          out.fail(env, viol("cyc", "from_index", case, &k, format!("{}::from_index({})", cy.name, i), format!("#{} {} size {}", i, cy.names[i as usize], size), format!("#{} {} size {}", gi, gname, gsize)));
        }
        if nx as i64 != exp {
          out.fail(env, viol("cyc", "next_n", case, &k, desc, format!("#{}", exp), format!("#{}", nx)));
        }
      }
      Err(e) => {
        out.fail(env, viol("cyc", "panics", case, &k, desc, format!("#{}", exp), e));
      }
    }
  }

  /// a = [type, element index, a, b]: group laws on cycles
  fn eval_cyc_laws(&self, env: &Env, out: &mut Out, case: &Case) {
    let reg = cyclic_registry();
    let t = case.a[0] as usize;
    if t >= reg.len() {
      return;
    }
    let cy = &reg[t];
    let size = cy.names.len() as i64;
    let i = case.a[1].rem_euclid(size);
    let (a, b) = (case.a[2], case.a[3]);
    out.eval("cyc_laws");
    if (a < 0) != (b < 0) || a.abs() >= size {
      out.nontrivial("cyc_laws", &case.a);
    }
    let k = [("type", t as i64), ("i", i), ("a", a), ("b", b)];
    match guard(|| ((cy.next2)(i as isize, a as isize, b as isize), (cy.next)(i as isize, (a + b) as isize), (cy.next2)(i as isize, a as isize, -a as isize), (cy.next)(i as isize, 0))) {
      Ok((ab, sum, back, zero)) => {
        if ab != sum || ab as i64 != (i + a + b).rem_euclid(size) {
          out.fail(env, viol("cyc_laws", "a_then_b_vs_a_plus_b", case, &k, format!("{}[{}].next({}).next({})", cy.name, i, a, b), format!("#{}", (i + a + b).rem_euclid(size)), format!("#{} vs next(a+b) #{}", ab, sum)));
        }
        if back as i64 != i || zero as i64 != i {
          out.fail(env, viol("cyc_laws", "inverse_or_zero", case, &k, format!("{}[{}]", cy.name, i), format!("#{}", i), format!("next(a).next(-a) #{} next(0) #{}", back, zero)));
        }
      }
      Err(e) => {
        out.fail(env, viol("cyc_laws", "panics", case, &k, format!("{}[{}].next({}).next({})", cy.name, i, a, b), "an element".into(), e));
      }
    }
  }

  /// a = [type, k]: from_index wraps any integer
  fn eval_wrap(&self, env: &Env, out: &mut Out, case: &Case) {
    let reg = cyclic_registry();
    let t = case.a[0] as usize;
    if t >= reg.len() {
      return;
    }
    let cy = &reg[t];
    let size = cy.names.len() as i64;
    let kx = case.a[1];
    out.eval("wrap");
    if kx < 0 || kx >= size {
      out.nontrivial("wrap", &[t as i64, kx]);
    }
    let k = [("type", t as i64), ("k", kx)];
    match guard(|| (cy.from_index)(kx as isize)) {
      Ok((gi, gname, _)) => {
        let e = kx.rem_euclid(size);
        if gi as i64 != e || gname != cy.names[e as usize] {
          out.fail(env, viol("wrap", "from_index_wrap", case, &k, format!("{}::from_index({})", cy.name, kx), format!("#{} {}", e, cy.names[e as usize]), format!("#{} {}", gi, gname)));
        }
      }
      Err(e) => {
        out.fail(env, viol("wrap", "panics", case, &k, format!("{}::from_index({})", cy.name, kx), "wraps modulo size".into(), e));
      }
    }
  }

  /// a = [type], s = [candidate name]: names <-> indices
  fn eval_name(&self, env: &Env, out: &mut Out, case: &Case) {
    let reg = cyclic_registry();
    let t = case.a[0] as usize;
    if t >= reg.len() {
      return;
    }
    let cy = &reg[t];
    let f = match &cy.from_name {
      Some(f) => f,
      None => return,
    };
    let cand = case.s.get(0).cloned().unwrap_or_default();
    out.eval("name");
    let first = cy.names.iter().position(|x| *x == cand);
    let k = [("type", t as i64)];
    let r = guard(|| f(&cand));
    match first {
      Some(ix) => {
        let dup = cy.names.iter().filter(|x| **x == cand).count() > 1;
        if dup {
          out.nontrivial("name", &[t as i64, ix as i64]);
          out.class("name_listed_more_than_once");
        }
        if out.wants_sample("name", dup) {
          out.sample("name", dup, || json!({"type": cy.name, "name": cand, "expected_index": ix}));
        }
        match r {
          Ok(g) => {
            if g != ix {
              out.fail(env, viol("name", "from_name_index", case, &k, format!("{}::from_name({:?})", cy.name, cand), format!("#{}", ix), format!("#{}", g)));
            }
          }
          Err(e) => {
            out.fail(env, viol("name", "valid_name_refused", case, &k, format!("{}::from_name({:?})", cy.name, cand), format!("#{}", ix), e));
          }
        }
      }
      None => {
        out.nontrivial("name", &[t as i64, hash_str(&cand, &[]) as i64]);
        out.class("unknown_name_candidate");
        if let Ok(g) = r {
          out.fail(env, viol("name", "unknown_name_accepted", case, &k, format!("{}::from_name({:?})", cy.name, cand), "refused".into(), format!("#{} {}", g, cy.names.get(g).cloned().unwrap_or("?"))));
        }
      }
    }
  }

  /// a = [type, ordinal, a, b]: laws on linear units
  fn eval_lin(&self, env: &Env, out: &mut Out, case: &Case) {
    let reg = linear_registry();
    let t = case.a[0] as usize;
    if t >= reg.len() {
      return;
    }
    let li = &reg[t];
    let (o, a, b) = (case.a[1], case.a[2], case.a[3]);
    let u = li.unit;
    let inr = |x: i64| x >= li.lo && x <= li.hi;
    if !inr(o) || !inr(o + a * u) || !inr(o + a * u + b * u) || !inr(o + (a + b) * u) {
      out.skip("step_leaves_the_supported_range");
      return;
    }
    let sub = "lin";
    out.eval(sub);
    let opp = (a < 0) != (b < 0) && a != 0 && b != 0;
    let edge = o - li.lo < 40 || li.hi - o < 40 || o + a * u - li.lo < 40 || li.hi - (o + a * u) < 40;
    let nt = opp || edge || a.abs() > 400;
    if nt {
      out.nontrivial(sub, &case.a);
    }
    if opp {
      out.class("a_plus_b_has_opposite_signs");
    }
    if edge {
      out.class("near_range_edge");
    }
    out.class(&format!("type_{}", li.name));
    let k = [("type", t as i64), ("o", o), ("a", a), ("b", b), ("lo_edge", (o.min(o + a * u).min(o + (a + b) * u) - li.lo < 24) as i64)];
    let desc = format!("{}@{} a={} b={}", li.name, o, a, b);
    match guard(|| (li.laws)(o, a as isize, b as isize)) {
      Ok((o0, o1, o2, o3, o4, e0, e23, e4)) => {
        if out.wants_sample(sub, nt) {
          out.sample(sub, nt, || json!({"type": li.name, "ordinal": o, "a": a, "b": b, "ord_after_a": o1, "ord_after_a_b": o2}));
        }
        if o0 != o || !e0 {
          out.fail(env, viol(sub, "next0", case, &k, desc.clone(), format!("ord {} and == x", o), format!("ord {} eq {}", o0, e0)));
        }
        if o1 != o + a * u {
          out.fail(env, viol(sub, "moves_by_n_units", case, &k, format!("{}@{}.next({})", li.name, o, a), format!("ord {}", o + a * u), format!("ord {}", o1)));
        }
        if o2 != o + (a + b) * u || o3 != o + (a + b) * u || !e23 {
          out.fail(env, viol(sub, "a_then_b_vs_a_plus_b", case, &k, desc.clone(), format!("both ord {} and equal", o + (a + b) * u), format!("next(a).next(b) ord {} next(a+b) ord {} eq {}", o2, o3, e23)));
        }
        if o4 != o || !e4 {
          out.fail(env, viol(sub, "a_then_minus_a", case, &k, desc, format!("ord {} and == x", o), format!("ord {} eq {}", o4, e4)));
        }
      }
      Err(e) => {
        out.fail(env, viol(sub, "panics", case, &k, desc, "results inside the supported range".into(), e));
      }
    }
  }
}

fn lin_strategy(t: usize, lo: i64, hi: i64, unit: i64, name: &str) -> impl Strategy<Value = Case> {
  // LunarMonth::next walks year by year (each step clones the leap-month table): keep far steps moderate there
  let span = ((hi - lo) / unit).min(match name {
    "LunarMonth" => 3_000,
    // week stepping walks month by month (and the lunar one rebuilds every month on the way)
    "SolarWeek" => 20_000,
    "LunarWeek" => 600,
    _ => i64::MAX,
  });
  // origins near the October 1582 cut-over for the units that live on the civil time line (1582-10-04 is day 577,736)
  let cut_day: i64 = 577_736;
  let (c_lo, c_hi) = match name {
    "SolarDay" | "LunarDay" | "SixtyCycleDay" => (cut_day - 40, cut_day + 40),
    "SolarTime" | "SixtyCycleHour" | "LunarHour" => ((cut_day - 3) * 86400, (cut_day + 4) * 86400),
    "SolarMonth" => (1582 * 12 + 6, 1582 * 12 + 12),
    "SolarWeek" => ((cut_day + JDN0 - week_base()) / 7 - 6, (cut_day + JDN0 - week_base()) / 7 + 6),
    "JulianDay" => (2_299_160 - 40, 2_299_160 + 40),
    _ => (lo, hi),
  };
  let (c_lo, c_hi) = (c_lo.clamp(lo, hi), c_hi.clamp(lo, hi));
  // origins next to the reform-era seams of the lunar month table (0025-02-17 is day 8,813, 0240-02-10 day 87,334):
  // stepping a lunar day or hour through lunar months assumes that the months tile the day line
  let (s1, s2): ((i64, i64), (i64, i64)) = match name {
    "LunarDay" => ((8813 - 70, 8813 + 70), (87334 - 70, 87334 + 70)),
    "LunarHour" => (((8813 - 3) * 86400, (8813 + 3) * 86400), ((87334 - 3) * 86400, (87334 + 3) * 86400)),
    _ => ((lo, hi), (lo, hi)),
  };
  let (s1, s2) = ((s1.0.clamp(lo, hi), s1.1.clamp(lo, hi)), (s2.0.clamp(lo, hi), s2.1.clamp(lo, hi)));
  let o = prop_oneof![12 => lo..=hi, 4 => lo..=(lo + 40.min(hi - lo)), 4 => (hi - 40.min(hi - lo))..=hi, 2 => c_lo..=c_hi, 1 => s1.0..=s1.1, 1 => s2.0..=s2.1];
  // second-based units: steps of whole days +- a few seconds (the day carry of the clock arithmetic)
  let dayish = matches!(name, "SolarTime" | "SixtyCycleHour");
  // a few much longer steps for the slow steppers (a shortcut for big n is where a stepping bug would hide)
  let far = ((hi - lo) / unit).min(match name {
    "LunarMonth" => 30_000,
    "SolarWeek" => 120_000,
    "LunarWeek" => 6_000,
    _ => 2_000_000,
  });
  let step = move || prop_oneof![40 => -30i64..=30, 30 => -400i64..=400, 20 => -(span.min(2_000_000))..=span.min(2_000_000), 10 => Just(0i64), 3 => -far..=far, 12 => (-40i64..=40, -5i64..=5).prop_map(move |(d, x)| if dayish { d * 86400 + x } else { x })];
  (o, step(), step()).prop_map(move |(o, a, b)| {
    // keep the case inside the range by construction: clip a and b
    let maxf = (hi - o) / unit;
    let maxb = (o - lo) / unit;
    let a = a.clamp(-maxb, maxf);
    let o1 = o + a * unit;
    let b = b.clamp(-((o1 - lo) / unit), (hi - o1) / unit);
    let b = if o + (a + b) * unit > hi || o + (a + b) * unit < lo { 0 } else { b };
    Case::ints(&[t as i64, o, a, b])
  })
}

const CTOR_TYPES: [&str; 13] = ["SolarYear", "SolarHalfYear", "SolarSeason", "SolarMonth", "SolarWeek", "SolarDay", "SolarTime", "LunarYear", "LunarMonth", "LunarWeek", "LunarDay", "LunarHour", "SixtyCycleYear"];

impl C11 {
  /// a = [type, a1..a6]: the Result-returning constructor and its panicking sibling accept exactly the same arguments and
  /// build the same value; where validity is a plain range rule (years, indices, clock fields, existing civil dates,
  /// months of the label model, day <= month length) acceptance is also compared with that rule
  fn eval_ctor(&self, env: &Env, out: &mut Out, case: &Case) {
    use tyme4rs::tyme::lunar::{LunarDay, LunarHour, LunarWeek};
    use tyme4rs::tyme::solar::{SolarDay, SolarWeek};
    let t = case.a[0].rem_euclid(CTOR_TYPES.len() as i64) as usize;
    let g = |i: usize| case.a.get(i).cloned().unwrap_or(0);
    let (y, a2, a3, a4, a5, a6) = (g(1), g(2), g(3), g(4), g(5), g(6));
    if a3 < 0 || a4 < 0 || a5 < 0 || a6 < 0 || (a2 < 0 && !matches!(t, 8 | 9 | 10 | 11)) {
      return;
    }
    out.eval("ctor");
    let (yy, u2, u3, u4, u5, u6) = (y as isize, a2 as usize, a3 as usize, a4 as usize, a5 as usize, a6 as usize);
    let fl = |r: Result<Result<String, String>, String>| -> Option<String> { r.ok().and_then(|x| x.ok()) };
    let ok = |r: Result<String, String>| -> Option<String> { r.ok() };
    let civil = |y: i64, m: i64, d: i64| date_exists(y, m, d);
    let l = lunlist();
    let lunar_month_ok = |y: i64, m: i64| (0..=9999).contains(&y) && l.pos(y, m).is_some();
    let (a, b, rule): (Option<String>, Option<String>, Option<bool>) = match t {
      0 => (fl(guard(|| SolarYear::new(yy).map(|x| x.to_string()))), ok(guard(|| SolarYear::from_year(yy).to_string())), Some((1..=9999).contains(&y))),
      1 => (fl(guard(|| SolarHalfYear::new(yy, u2).map(|x| x.to_string()))), ok(guard(|| SolarHalfYear::from_index(yy, u2).to_string())), Some((1..=9999).contains(&y) && a2 < 2)),
      2 => (fl(guard(|| SolarSeason::new(yy, u2).map(|x| x.to_string()))), ok(guard(|| SolarSeason::from_index(yy, u2).to_string())), Some((1..=9999).contains(&y) && a2 < 4)),
      3 => (fl(guard(|| SolarMonth::new(yy, u2).map(|x| x.to_string()))), ok(guard(|| SolarMonth::from_ym(yy, u2).to_string())), Some((1..=9999).contains(&y) && (1..=12).contains(&a2))),
      4 => (fl(guard(|| SolarWeek::new(yy, u2, u3, u4).map(|x| format!("{} {}", x, guard(|| x.get_first_day().to_string()).unwrap_or_else(|_| "first day outside the range".into()))))), ok(guard(|| { let x = SolarWeek::from_ym(yy, u2, u3, u4); format!("{} {}", x, guard(|| x.get_first_day().to_string()).unwrap_or_else(|_| "first day outside the range".into())) })), if (1..=9999).contains(&y) && (1..=12).contains(&a2) {
        // weeks of a civil month: ceil((offset of the 1st from the start weekday + days) / 7), from the model calendar
        let c = cal();
        let first = c.index(y, a2, 1).unwrap();
        let off = (weekday(c.jdn(first)) - a4).rem_euclid(7);
        Some(a4 < 7 && a3 < (off + c.month_len(y, a2) + 6) / 7)
      } else {
        Some(false)
      }),
      5 => (fl(guard(|| SolarDay::new(yy, u2, u3).map(|x| x.to_string()))), ok(guard(|| SolarDay::from_ymd(yy, u2, u3).to_string())), Some(civil(y, a2, a3))),
      6 => (fl(guard(|| SolarTime::new(yy, u2, u3, u4, u5, u6).map(|x| x.to_string()))), ok(guard(|| SolarTime::from_ymd_hms(yy, u2, u3, u4, u5, u6).to_string())), Some(civil(y, a2, a3) && a4 < 24 && a5 < 60 && a6 < 60)),
      7 => (fl(guard(|| LunarYear::new(yy).map(|x| x.to_string()))), ok(guard(|| LunarYear::from_year(yy).to_string())), Some((-1..=9999).contains(&y))),
      8 => (fl(guard(|| LunarMonth::new(yy, a2 as isize).map(|x| x.to_string()))), ok(guard(|| LunarMonth::from_ym(yy, a2 as isize).to_string())), if (0..=9999).contains(&y) { Some(lunar_month_ok(y, a2)) } else { None }),
      9 => (fl(guard(|| LunarWeek::new(yy, a2 as isize, u3, u4).map(|x| format!("{} {}", x, guard(|| x.get_first_day().to_string()).unwrap_or_else(|_| "first day outside the range".into()))))), ok(guard(|| { let x = LunarWeek::from_ym(yy, a2 as isize, u3, u4); format!("{} {}", x, guard(|| x.get_first_day().to_string()).unwrap_or_else(|_| "first day outside the range".into())) })), if lunar_month_ok(y, a2) && y >= 1 && y <= 9998 {
        // weeks of a lunar month: the same count from the month's own first day and length
        let mo = LunarMonth::from_ym(yy, a2 as isize);
        let off = (weekday(lm_first_jdn(&mo)) - a4).rem_euclid(7);
        Some(a4 < 7 && a3 < (off + mo.get_day_count() as i64 + 6) / 7)
      } else if (0..=9999).contains(&y) && !lunar_month_ok(y, a2) {
        Some(false)
      } else {
        None
      }),
      10 => (fl(guard(|| LunarDay::new(yy, a2 as isize, u3).map(|x| x.to_string()))), ok(guard(|| LunarDay::from_ymd(yy, a2 as isize, u3).to_string())), if lunar_month_ok(y, a2) { Some(a3 >= 1 && a3 <= LunarMonth::from_ym(yy, a2 as isize).get_day_count() as i64) } else if (0..=9999).contains(&y) { Some(false) } else { None }),
      11 => (fl(guard(|| LunarHour::new(yy, a2 as isize, u3, u4, u5, u6).map(|x| x.to_string()))), ok(guard(|| LunarHour::from_ymd_hms(yy, a2 as isize, u3, u4, u5, u6).to_string())), if lunar_month_ok(y, a2) { Some(a3 >= 1 && a3 <= LunarMonth::from_ym(yy, a2 as isize).get_day_count() as i64 && a4 < 24 && a5 < 60 && a6 < 60) } else if (0..=9999).contains(&y) { Some(false) } else { None }),
      _ => (fl(guard(|| SixtyCycleYear::new(yy).map(|x| x.to_string()))), ok(guard(|| SixtyCycleYear::from_year(yy).to_string())), Some((-1..=9999).contains(&y))),
    };
    let k = [("type", t as i64), ("y", y), ("a2", a2), ("a3", a3)];
    let desc = format!("{}({:?})", CTOR_TYPES[t], &case.a[1..]);
    let invalid = a.is_none() || b.is_none() || rule == Some(false);
    if invalid {
      out.nontrivial("ctor", &case.a);
      out.class("constructor_arguments_that_must_be_refused");
    }
    if out.wants_sample("ctor", invalid) {
      out.sample("ctor", invalid, || json!({"constructor": desc, "new": a, "from": b, "valid_by_rule": rule}));
    }
    if a != b {
      out.fail(env, viol("ctor", "constructors_disagree", case, &k, desc.clone(), format!("::new -> {:?}", a), format!("panicking sibling -> {:?}", b)));
      return;
    }
    if let Some(v) = rule {
      if v != a.is_some() {
        out.fail(env, viol("ctor", if v { "valid_arguments_refused" } else { "invalid_arguments_accepted" }, case, &k, desc, if v { "accepted".into() } else { "refused".into() }, format!("{:?}", a)));
      }
    }
  }
}

impl Prop for C11 {
  fn id(&self) -> &'static str {
    "C11"
  }
  fn meta(&self, _env: &Env) -> Meta {
    Meta {
      rule: "Registry: 42 cyclic types (stems, branches, sixty-cycle, every named culture::*, star::*, ren::minor, foetus, Peng Zu, phenology, nine/dog/plum-rain, lunar season) and 20 linear units (SolarYear/HalfYear/Season/Month/Week/Day/Time, SolarTerm, JulianDay, LunarYear/Month/Week/Day/Hour, SixtyCycleYear/Month/Day/Hour, DecadeFortune, Fortune; festivals and holidays are stepped by C20, weeks also by C14). Cyclic: `cyc` every element x n in {0,+-1,+-size,+-(size+-1),+-10^6} plus proptest n up to +-2^40: next(n).index == (i+n) mod size, name == the public name list; `cyc_laws` proptest (element, a, b): next(a).next(b) == next(a+b), next(a).next(-a) == x, next(0) == x; `wrap` from_index(k) for k in -3size..3size and +-2^62 wraps; `name` every listed name -> first index carrying it, and generated non-names (empty, name+suffix, names of other cycles, proptest unicode) are refused. Linear `lin`: each type has an independent ordinal (y, y*12+m-1, CAL index, seconds, lunation-list position, y*24+i, ...); proptest (ordinal o, a, b) clipped into the type's accepted range by construction, 40% of o within 40 units of a range end: next(0)==x, ord(next(n)) == ord+n*unit, next(a).next(b) == next(a+b) (own == and ordinal), next(a).next(-a) == x. Non-trivial: |n| >= size or negative; a and b of opposite sign, near a range edge, |a| > 400; duplicate and unknown names.".into(),
      assumptions: vec![
        "Range of a linear type = what its own constructor accepts (SolarTerm restricted to years 1..9999; LunarDay/LunarHour/SixtyCycleDay/Hour start at AD 25 to stay clear of the AD 24 hole, which C02 records)".into(),
        "Equality is the type's own == plus the ordinal (several == compare names only)".into(),
      ],
      level_text: String::new(),
    }
  }
  fn plan(&self, _env: &Env) -> Vec<TaskSpec> {
    vec![task("cyclic", 6), task("linear", 20)]
  }
  fn run(&self, env: &Env, t: &str, shard: usize, nshards: usize, out: &mut Out) {
    let ev = |e: &Env, o: &mut Out, s: &str, cs: &Case| self.eval(e, o, s, cs);
    match t {
      "cyclic" => {
        let reg = cyclic_registry();
        // cross-type pass, first thing in every shard (a fresh process): the listed names of ALL cyclic types are looked up,
        // the types taken in a shard-specific order (rotated, every other shard reversed). Name tables that share a size
        // and a first name (Week / SevenStar) or any other fingerprint must not answer for each other, whichever type asks
        // first in the process.
        {
          let mut order: Vec<usize> = (0..reg.len()).collect();
          order.rotate_left((shard * 5) % reg.len());
          if shard % 2 == 1 {
            order.reverse();
          }
          for round in 0..2 {
            for &ti in &order {
              let cy = &reg[ti];
              let size = cy.names.len() as i64;
              for (k, nm) in cy.names.iter().enumerate() {
                out.class("cross_type_name_lookups");
                run_case(env, out, "name", &Case { a: vec![ti as i64], f: vec![], s: vec![nm.to_string()], pre: vec![] }, &ev);
                if round == 0 && (k == 0 || k as i64 == size - 1) {
                  run_case(env, out, "cyc", &Case::ints(&[ti as i64, k as i64, 1]), &ev);
                }
              }
            }
          }
        }
        for (ti, cy) in reg.iter().enumerate() {
          if ti % nshards != shard {
            continue;
          }
          let size = cy.names.len() as i64;
          for i in 0..size {
            for n in [0i64, 1, -1, size, -size, size + 1, -(size + 1), size - 1, -(size - 1), 1_000_000, -1_000_000, 2 * size + 3] {
              run_case(env, out, "cyc", &Case::ints(&[ti as i64, i, n]), &ev);
            }
          }
          for kx in (-3 * size..=3 * size).chain([1i64 << 62, -(1i64 << 62), i64::MAX / 2, i64::MIN / 2]) {
            run_case(env, out, "wrap", &Case::ints(&[ti as i64, kx]), &ev);
          }
          // names: every listed name, and constructed non-names
          for nm in &cy.names {
            run_case(env, out, "name", &Case { a: vec![ti as i64], f: vec![], s: vec![nm.to_string()], pre: vec![] }, &ev);
            run_case(env, out, "name", &Case { a: vec![ti as i64], f: vec![], s: vec![format!("{}x", nm)], pre: vec![] }, &ev);
            // a listed name with white space around it is not a listed name
            for pad in [format!("{} ", nm), format!(" {}", nm), format!("{}\n", nm), format!("\t{}", nm), format!("{}\u{3000}", nm), format!("{}\r\n", nm)] {
              out.class("padded_name_candidates");
              run_case(env, out, "name", &Case { a: vec![ti as i64], f: vec![], s: vec![pad], pre: vec![] }, &ev);
            }
          }
          // recombinations of the type's own name fragments (prefix of one name + suffix of another): they look like names
          // and must be refused unless they are listed (e.g. a stem with a branch of the other parity)
          {
            let names: Vec<Vec<char>> = cy.names.iter().map(|n| n.chars().collect()).collect();
            let mut seen: std::collections::BTreeSet<String> = std::collections::BTreeSet::new();
            let cap = env.tier.pick(400usize, 6000);
            'outer: for (ia, a) in names.iter().enumerate() {
              for (ib, b) in names.iter().enumerate() {
                if ia == ib || a.len() < 2 || b.len() < 2 {
                  continue;
                }
                for cut_a in 1..a.len() {
                  for cut_b in 1..b.len() {
                    let cand: String = a[..cut_a].iter().chain(b[cut_b..].iter()).collect();
                    if seen.insert(cand.clone()) {
                      out.class("recombined_name_candidates");
                      run_case(env, out, "name", &Case { a: vec![ti as i64], f: vec![], s: vec![cand], pre: vec![] }, &ev);
                      if seen.len() >= cap {
                        break 'outer;
                      }
                    }
                  }
                }
              }
            }
          }
          for other in ["", " ", "甲", "子", "建", "角", "一", "初伏", "日", "吉", "东", "木", "长生", "鼠", "甲子", "立春", "x"] {
            run_case(env, out, "name", &Case { a: vec![ti as i64], f: vec![], s: vec![other.to_string()], pre: vec![] }, &ev);
          }
          let per: u32 = env.tier.pick(400, 20_000);
          prop_run(env, out, "cyc", per, ti as u64, (0..size, prop_oneof![1 => -(1i64 << 40)..(1i64 << 40), 1 => -5000i64..5000]).prop_map(move |(i, n)| Case::ints(&[ti as i64, i, n])), &ev);
          prop_run(env, out, "cyc_laws", per, 1000 + ti as u64, (0..size, -100_000i64..100_000, -100_000i64..100_000).prop_map(move |(i, a, b)| Case::ints(&[ti as i64, i, a, b])), &ev);
          prop_run(env, out, "name", per / 4, 2000 + ti as u64, "\\PC{0,6}".prop_map(move |s| Case { a: vec![ti as i64], f: vec![], s: vec![s], pre: vec![] }), &ev);
        }
        out.set_exhaustive("cyc", false);
        out.set_exhaustive("wrap", true);
      }
      "linear" => {
        // constructors: boundary-heavy argument tuples for the 13 constructible units
        {
          let yr = prop_oneof![3 => 1i64..=9999, 2 => prop_oneof![Just(-2i64), Just(-1), Just(0), Just(1), Just(2), Just(1582), Just(9998), Just(9999), Just(10000), Just(10001)], 1 => -50i64..=10050];
          // (a few huge values too: an argument that is narrowed before it is validated wraps into the valid range)
          let small = |hi: i64| prop_oneof![12 => 0i64..=hi, 4 => Just(hi + 1), 4 => Just(hi + 2), 4 => Just(0i64), 1 => prop_oneof![Just(255i64), Just(256), Just(65535), Just(65536), Just(4294967296i64), Just(i64::MAX)], 2 => (1i64..=hi.max(1), prop_oneof![Just(256i64), Just(65536), Just(4294967296i64)]).prop_map(|(v, w)| v + w)];
          let strat = (0i64..13, yr, prop_oneof![4 => -13i64..=14, 1 => Just(10i64)], small(31), small(23), small(59), small(59)).prop_map(|(t, y, a2, a3, a4, a5, a6)| {
            // weeks: a3 = index 0..7, a4 = start 0..8
            let (a3, a4) = if t == 4 || t == 9 { (a3 % 8, a4 % 9) } else { (a3, a4) };
            let (y, a2) = if (t == 5 || t == 6) && y == 1582 { (y, 10) } else { (y, a2) };
            Case::ints(&[t, y, a2, a3, a4, a5, a6])
          });
          prop_run(env, out, "ctor", env.tier.pick(48_000, 1_600_000) / nshards as u32, 900 + shard as u64, strat, &ev);
          out.set_exhaustive("ctor", false);
        }
        let reg = linear_registry();
        for (ti, li) in reg.iter().enumerate() {
          if ti % nshards != shard {
            continue;
          }
          let heavy = matches!(li.name, "SixtyCycleDay" | "SixtyCycleHour" | "LunarHour" | "SolarTerm" | "LunarWeek");
          let per: u32 = env.tier.pick(if heavy { 2_500 } else { 12_000 }, if heavy { 60_000 } else { 400_000 });
          // deterministic edge cases
          for o in [li.lo, li.lo + li.unit, li.hi, li.hi - li.unit] {
            for (a, b) in [(0i64, 0i64), (1, -1), (-1, 1), (1, 1), (-1, -1), (12, -13), (13, -12)] {
              run_case(env, out, "lin", &Case::ints(&[ti as i64, o, a, b]), &ev);
            }
          }
          prop_run(env, out, "lin", per, ti as u64, lin_strategy(ti, li.lo, li.hi, li.unit, li.name), &ev);
        }
        out.set_exhaustive("lin", false);
      }
      _ => panic!("unknown task {}", t),
    }
  }
  fn eval(&self, env: &Env, out: &mut Out, sub: &str, case: &Case) {
    match sub {
      "cyc" => self.eval_cyc(env, out, case),
      "cyc_laws" => self.eval_cyc_laws(env, out, case),
      "wrap" => self.eval_wrap(env, out, case),
      "name" => self.eval_name(env, out, case),
      "lin" => self.eval_lin(env, out, case),
      "ctor" => self.eval_ctor(env, out, case),
      _ => panic!("unknown sub-check {}", sub),
    }
  }
}
