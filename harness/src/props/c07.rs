//! C07 Day pillar and weekday advance one step per civil day from fixed anchors

use crate::adapt::*;
use crate::engine::*;
use crate::lunmodel::*;
use crate::model::*;
use proptest::prelude::*;
use serde_json::json;
use tyme4rs::tyme::jd::JulianDay;
use tyme4rs::tyme::lunar::{LunarDay, LunarMonth};

pub struct C07;

fn viol(sub: &str, kind: &str, case: &Case, k: &[(&str, i64)], desc: String, expected: String, got: String) -> Viol {
  Viol { sub: sub.into(), kind: kind.into(), case: case.clone(), key: key(k), desc, expected, got }
}

fn date_class(c: &Cal, i: usize) -> bool {
  let (y, m, d) = c.ymd(i);
  let last = if y == 1582 && m == 10 { 31 } else { c.month_len(y, m) };
  d == 1 || d == last || (c.index(1582, 9, 20).unwrap()..=c.index(1582, 11, 10).unwrap()).contains(&i)
}

impl C07 {
  /// lunar route + weekdays for one civil date; a[1] == 1 additionally takes the sexagenary-day route
  fn eval_date(&self, env: &Env, out: &mut Out, sub: &str, case: &Case) {
    let c = cal();
    let i = case.a[0] as usize;
    let with_scd = case.a.get(1).cloned().unwrap_or(0) == 1;
    let (y, m, d) = c.ymd(i);
    let jdn = c.jdn(i);
    out.eval(sub);
    let k = [("y", y), ("m", m), ("d", d), ("jdn", jdn)];
    let ep = day_pillar(jdn);
    let ew = weekday(jdn);
    let s = sd_idx(c, i);
    // weekday routes that do not need a lunar date
    let w1 = s.get_week().get_index() as i64;
    let w2 = JulianDay::from_julian_day(jdn as f64 - 0.5).get_week().get_index() as i64;
    if w1 != ew || w2 != ew {
      out.fail(env, viol(sub, "weekday", case, &k, c.fmt(i), ew.to_string(), format!("SolarDay {} JulianDay {}", w1, w2)));
    }
    let r = guard(|| {
      let l = s.get_lunar_day();
      (l.get_sixty_cycle().get_index() as i64, l.get_week().get_index() as i64, l.get_day() as i64, l.get_lunar_month().get_day_count() as i64)
    });
    let (lp, lw, ld, dc) = match r {
      Ok(x) => x,
      Err(e) => {
        out.fail(env, viol(sub, "lunar_route_panics", case, &k, c.fmt(i), pillar_name(ep), e));
        return;
      }
    };
    let nt = ld == 1 || ld == dc || date_class(c, i);
    if nt {
      out.nontrivial("date", &[i as i64]);
    }
    if out.wants_sample(sub, nt) {
      out.sample(sub, nt, || json!({"date": c.fmt(i), "jdn": jdn, "pillar": pillar_name(ep), "weekday": ew, "lunar_day": ld}));
    }
    if lp != ep {
      out.fail(env, viol(sub, "pillar_lunar_route", case, &k, c.fmt(i), pillar_name(ep), pillar_name(lp)));
    }
    if lw != ew {
      out.fail(env, viol(sub, "weekday_lunar_route", case, &k, c.fmt(i), ew.to_string(), lw.to_string()));
    }
    if with_scd {
      out.class("sexagenary_day_route");
      match guard(|| {
        let sc = s.get_sixty_cycle_day();
        (sc.get_sixty_cycle().get_index() as i64, ymd(&sc.get_solar_day()))
      }) {
        Ok((sp, sday)) => {
          if sp != ep || sday != (y, m, d) {
            out.fail(env, viol(sub, "pillar_sexagenary_day_route", case, &k, c.fmt(i), pillar_name(ep), format!("{} for {}", pillar_name(sp), fmt_ymd(sday))));
          }
        }
        Err(e) => {
          out.fail(env, viol(sub, "sexagenary_day_route_panics", case, &k, c.fmt(i), pillar_name(ep), e));
        }
      }
    }
  }

  /// pillar of a lunar date constructed directly: first day of its month + day - 1
  fn eval_lunar(&self, env: &Env, out: &mut Out, case: &Case) {
    let (y, m, d) = (case.a[0], case.a[1], case.a[2]);
    out.eval("lunar");
    let k = [("ly", y), ("lm", m), ("ld", d)];
    let mo = LunarMonth::from_ym(y as isize, m as isize);
    let jdn = lm_first_jdn(&mo) + d - 1;
    let l = LunarDay::from_ymd(y as isize, m as isize, d as usize);
    let p = l.get_sixty_cycle().get_index() as i64;
    if d == 1 || d == mo.get_day_count() as i64 {
      out.nontrivial("lunar", &[y, m, d]);
    }
    if p != day_pillar(jdn) {
      out.fail(env, viol("lunar", "pillar_of_lunar_date", case, &k, format!("L({},{},{})", y, m, d), pillar_name(day_pillar(jdn)), pillar_name(p)));
    }
  }
}

impl Prop for C07 {
  fn id(&self) -> &'static str {
    "C07"
  }
  fn meta(&self, env: &Env) -> Meta {
    Meta {
      rule: format!("Generators: (a) `date`: every civil date 0001-01-01..9999-12-31 (exhaustive): pillar via SolarDay->LunarDay::get_sixty_cycle == (JDN+49) mod 60, weekday via SolarDay::get_week, JulianDay::get_week and LunarDay::get_week == (JDN+1) mod 7, with JDN from the independent model calendar; (b) the sexagenary-day route (SolarDay::get_sixty_cycle_day().get_sixty_cycle()) on {}; (c) `lunar`: every lunar date constructed directly (first and last day of every month, all days of {}): pillar == (first day of the month + day - 1 + 49) mod 60. Non-trivial: first/last day of a lunar month, first/last day of a civil month, 1582-09-20..11-10. Distinct = distinct dates.", env.tier.pick("every date of 1582, of years 1..30 and 236..241, every month end/start of ~360 boundary years and 150k proptest dates", "every civil date (exhaustive)"), env.tier.pick("every 8th month", "every month")),
      assumptions: vec![
        "Anchors (JDN+49) mod 60 and (JDN+1) mod 7 are those quoted in the property statement; JDN comes from the model calendar CAL, not from jd.rs".into(),
      ],
      level_text: String::new(),
    }
  }
  fn plan(&self, _env: &Env) -> Vec<TaskSpec> {
    vec![task("dates", 16), task("scd", 16), task("lunar", 16)]
  }
  fn run(&self, env: &Env, t: &str, shard: usize, nshards: usize, out: &mut Out) {
    let ev = |e: &Env, o: &mut Out, s: &str, cs: &Case| self.eval(e, o, s, cs);
    let c = cal();
    match t {
      "dates" => {
        let (lo, hi) = shard_range(NDAYS, shard, nshards);
        for i in lo..hi {
          run_case(env, out, "date", &Case::ints(&[i as i64, 0]), &ev);
        }
        out.set_exhaustive("date", true);
      }
      "scd" => {
        if env.tier == Tier::Thorough {
          let (lo, hi) = shard_range(NDAYS, shard, nshards);
          for i in lo..hi {
            run_case(env, out, "scd", &Case::ints(&[i as i64, 1]), &ev);
          }
          out.set_exhaustive("scd", true);
        } else {
          let mut v: Vec<usize> = crate::props::c01::boundary_indices();
          for y in (1..=30).chain(236..=241).chain(1582..=1582) {
            for i in c.year_start[y] as usize..c.year_start[y + 1] as usize {
              v.push(i);
            }
          }
          v.sort();
          v.dedup();
          let (lo, hi) = shard_range(v.len(), shard, nshards);
          for &i in &v[lo..hi] {
            run_case(env, out, "scd", &Case::ints(&[i as i64, 1]), &ev);
          }
          prop_run(env, out, "scd", 150_000 / nshards as u32, shard as u64, (0..NDAYS as i64).prop_map(|i| Case::ints(&[i, 1])), &ev);
          out.set_exhaustive("scd", false);
        }
      }
      "lunar" => {
        let l = lunlist();
        let (lo, hi) = shard_range(l.len(), shard, nshards);
        for p in lo..hi {
          let (y, m) = l.at(p);
          let dc = LunarMonth::from_ym(y as isize, m as isize).get_day_count() as i64;
          let all = env.tier == Tier::Thorough || p % 8 == (env.seed % 8) as usize;
          for d in 1..=dc {
            if all || d == 1 || d == dc {
              run_case(env, out, "lunar", &Case::ints(&[y, m, d]), &ev);
            }
          }
        }
        out.set_exhaustive("lunar", env.tier == Tier::Thorough);
      }
      _ => panic!("unknown task {}", t),
    }
  }
  fn eval(&self, env: &Env, out: &mut Out, sub: &str, case: &Case) {
    match sub {
      "date" | "scd" => self.eval_date(env, out, sub, case),
      "lunar" => self.eval_lunar(env, out, case),
      _ => panic!("unknown sub-check {}", sub),
    }
  }
}
