//! C07 Day pillar and weekday advance one step per civil day from fixed anchors

use crate::adapt::*;
use crate::engine::*;
use crate::lunmodel::*;
use crate::model::*;
use proptest::prelude::*;
use serde_json::json;
use tyme4rs::tyme::jd::JulianDay;
use tyme4rs::tyme::lunar::{LunarDay, LunarMonth};

pub struct C07;

fn viol(sub: &str, kind: &str, case: &Case, k: &[(&str, i64)], desc: String, expected: String, got: String) -> Viol {
  Viol { sub: sub.into(), kind: kind.into(), case: case.clone(), key: key(k), desc, expected, got }
}

fn date_class(c: &Cal, i: usize) -> bool {
  let (y, m, d) = c.ymd(i);
  let last = if y == 1582 && m == 10 { 31 } else { c.month_len(y, m) };
  d == 1 || d == last || (c.index(1582, 9, 20).unwrap()..=c.index(1582, 11, 10).unwrap()).contains(&i)
}

impl C07 {
  /// lunar route + weekdays for one civil date; a[1] == 1 additionally takes the sexagenary-day route
  fn eval_date(&self, env: &Env, out: &mut Out, sub: &str, case: &Case) {
    let c = cal();
    let i = case.a[0] as usize;
    let with_scd = case.a.get(1).cloned().unwrap_or(0) == 1;
    let (y, m, d) = c.ymd(i);
    let jdn = c.jdn(i);
    out.eval(sub);
    let k = [("y", y), ("m", m), ("d", d), ("jdn", jdn)];
    let ep = day_pillar(jdn);
    let ew = weekday(jdn);
    let s = sd_idx(c, i);
    // weekday routes that do not need a lunar date
    let w1 = s.get_week().get_index() as i64;
    let w2 = JulianDay::from_julian_day(jdn as f64 - 0.5).get_week().get_index() as i64;
    if w1 != ew || w2 != ew {
      out.fail(env, viol(sub, "weekday", case, &k, c.fmt(i), ew.to_string(), format!("SolarDay {} JulianDay {}", w1, w2)));
    }
    // a Julian date carrying a time of day belongs to the civil day that contains it
    for f in [0.25f64, 0.5, 0.75, 0.999, 0.9997, 0.99999, 0.00001] {
      let w = JulianDay::from_julian_day(jdn as f64 - 0.5 + f).get_week().get_index() as i64;
      if w != ew {
        out.fail(env, viol(sub, "weekday_of_julian_date_with_time", case, &k, format!("{} + {} day", c.fmt(i), f), ew.to_string(), w.to_string()));
        break;
      }
    }
    let r = guard(|| {
      let l = s.get_lunar_day();
      (l.get_sixty_cycle().get_index() as i64, l.get_week().get_index() as i64, l.get_day() as i64, l.get_lunar_month().get_day_count() as i64)
    });
    // a sexagenary-day view stepped by n is the view of the civil date n days on, with that date's pillar - also when the
    // source view was taken from an hour view of the 23:00 hour (which carries the next day's pillar by convention)
    if with_scd && jdn % 16 == 1 && i + 3 < NDAYS && i >= 60 && !(1729820..=1729900).contains(&jdn) {
      out.class("day_view_taken_from_an_hour_view_then_stepped");
      for (hh, n) in [(23usize, 1isize), (23, 2), (10, 1), (23, -1)] {
        use tyme4rs::tyme::Tyme;
        let r = guard(|| {
          let t = tyme4rs::tyme::solar::SolarTime::from_ymd_hms(y as isize, m as usize, d as usize, hh, 30, 0);
          let g = t.get_sixty_cycle_hour().get_sixty_cycle_day().next(n);
          (ymd(&g.get_solar_day()), g.get_sixty_cycle().get_index() as i64)
        });
        let ti = (i as i64 + n as i64) as usize;
        match r {
          Ok((gd, gp)) if gd == c.ymd(ti) && gp == day_pillar(c.jdn(ti)) => {}
          Ok((gd, gp)) => {
            out.fail(env, viol(sub, "stepped_day_view_of_an_hour_view", case, &k, format!("{} {}:30 -> hour view -> day view -> next({})", c.fmt(i), hh, n), format!("{} {}", c.fmt(ti), pillar_name(day_pillar(c.jdn(ti)))), format!("{} {}", fmt_ymd(gd), pillar_name(gp))));
            break;
          }
          Err(e) => {
            out.fail(env, viol(sub, "stepped_day_view_of_an_hour_view_panics", case, &k, c.fmt(i), pillar_name(day_pillar(c.jdn(ti))), e));
            break;
          }
        }
      }
    }
    // the sexagenary-day objects a sexagenary month lists carry the same pillar (sampled: the list costs 30 conversions)
    if with_scd && (jdn % 16 == 0 || d == 1) && (i < 60 || (1729820..=1729900).contains(&jdn)) {
      out.skip("sexagenary_month_starts_before_0001-01-01_or_overlaps_the_AD_24_hole");
    } else if with_scd && (jdn % 16 == 0 || d == 1) {
      out.class("pillar_of_the_item_listed_by_its_sexagenary_month");
      match guard(|| {
        let mo = s.get_sixty_cycle_day().get_sixty_cycle_month();
        mo.get_days().iter().find(|x| ymd(&x.get_solar_day()) == (y, m, d)).map(|x| x.get_sixty_cycle().get_index() as i64)
      }) {
        Ok(Some(p)) if p == ep => {}
        Ok(g) => {
          out.fail(env, viol(sub, "pillar_of_listed_sexagenary_day", case, &k, format!("{} as listed by its sexagenary month's get_days()", c.fmt(i)), pillar_name(ep), match g { Some(p) => pillar_name(p), None => "not listed".into() }));
        }
        Err(e) => {
          out.fail(env, viol(sub, "listed_sexagenary_day_panics", case, &k, c.fmt(i), pillar_name(ep), e));
        }
      }
    }
    let (lp, lw, ld, dc) = match r {
      Ok(x) => x,
      Err(e) => {
        out.fail(env, viol(sub, "lunar_route_panics", case, &k, c.fmt(i), pillar_name(ep), e));
        return;
      }
    };
    let nt = ld == 1 || ld == dc || date_class(c, i);
    if nt {
      out.nontrivial("date", &[i as i64]);
    }
    if out.wants_sample(sub, nt) {
      out.sample(sub, nt, || json!({"date": c.fmt(i), "jdn": jdn, "pillar": pillar_name(ep), "weekday": ew, "lunar_day": ld}));
    }
    if lp != ep {
      out.fail(env, viol(sub, "pillar_lunar_route", case, &k, c.fmt(i), pillar_name(ep), pillar_name(lp)));
    }
    if lw != ew {
      out.fail(env, viol(sub, "weekday_lunar_route", case, &k, c.fmt(i), ew.to_string(), lw.to_string()));
    }
    if with_scd || i % 16 == 0 {
      // route through a late-Zi hour: after hour-level queries on the LunarHour, its day must still report this day's pillar
      let hr = guard(|| {
        let h = tyme4rs::tyme::solar::SolarTime::from_ymd_hms(y as isize, m as usize, d as usize, 23, 30, 0).get_lunar_hour();
        let _ = (h.get_sixty_cycle_hour(), h.get_twelve_star());
        let ld = h.get_lunar_day();
        (ld.get_sixty_cycle().get_index() as i64, ld.get_sixty_cycle_day().get_sixty_cycle().get_index() as i64)
      });
      if let Ok((a, b)) = hr {
        if a != ep || b != ep {
          out.fail(env, viol(sub, "pillar_via_late_zi_hour", case, &k, format!("{} 23:30 -> lunar hour -> its lunar day", c.fmt(i)), pillar_name(ep), format!("lunar-date route {} sexagenary-day route {}", pillar_name(a), pillar_name(b))));
        }
      }
    }
    if with_scd {
      out.class("sexagenary_day_route");
      match guard(|| {
        let sc = s.get_sixty_cycle_day();
        (sc.get_sixty_cycle().get_index() as i64, ymd(&sc.get_solar_day()))
      }) {
        Ok((sp, sday)) => {
          if sp != ep || sday != (y, m, d) {
            out.fail(env, viol(sub, "pillar_sexagenary_day_route", case, &k, c.fmt(i), pillar_name(ep), format!("{} for {}", pillar_name(sp), fmt_ymd(sday))));
          }
        }
        Err(e) => {
          out.fail(env, viol(sub, "sexagenary_day_route_panics", case, &k, c.fmt(i), pillar_name(ep), e));
        }
      }
    }
  }

  /// a = [start date index, length, mode]: walk day by day through LunarDay::next(1) (mode 0) or SixtyCycleDay::next(1)
  /// (mode 1), reading every view of each value before stepping on: all routes must advance one step per civil day
  fn eval_walk(&self, env: &Env, out: &mut Out, case: &Case) {
    use tyme4rs::tyme::Tyme;
    let c = cal();
    let i0 = case.a[0] as usize;
    let len = case.a[1].clamp(1, 400) as usize;
    let mode = case.a[2];
    if i0 + len >= NDAYS {
      return;
    }
    out.eval("walk");
    out.nontrivial("walk", &case.a);
    let (y, m, d) = c.ymd(i0);
    let k = [("y", y), ("m", m), ("d", d), ("jdn", c.jdn(i0)), ("len", len as i64), ("mode", mode), ("end_jdn", c.jdn(i0 + len))];
    let r = guard(|| {
      let mut bad: Option<(usize, String)> = None;
      if mode == 0 {
        let mut l = sd_idx(c, i0).get_lunar_day();
        for j in 0..len {
          let jdn = c.jdn(i0 + j);
          let got = (l.get_sixty_cycle().get_index() as i64, l.get_sixty_cycle_day().get_sixty_cycle().get_index() as i64, l.get_week().get_index() as i64, ymd(&l.get_solar_day()));
          let exp = (day_pillar(jdn), day_pillar(jdn), weekday(jdn), c.ymd(i0 + j));
          if got != exp {
            bad = Some((j, format!("expected {:?} got {:?}", exp, got)));
            break;
          }
          l = l.next(1);
        }
      } else {
        let mut s = sd_idx(c, i0).get_sixty_cycle_day();
        for j in 0..len {
          let jdn = c.jdn(i0 + j);
          let got = (s.get_sixty_cycle().get_index() as i64, s.get_solar_day().get_week().get_index() as i64, ymd(&s.get_solar_day()));
          let exp = (day_pillar(jdn), weekday(jdn), c.ymd(i0 + j));
          if got != exp {
            bad = Some((j, format!("expected {:?} got {:?}", exp, got)));
            break;
          }
          s = s.next(1);
        }
      }
      bad
    });
    match r {
      Ok(None) => {
        if out.wants_sample("walk", true) {
          out.sample("walk", true, || json!({"start": c.fmt(i0), "days_walked": len, "via": if mode == 0 { "LunarDay::next(1)" } else { "SixtyCycleDay::next(1)" }}));
        }
      }
      Ok(Some((j, msg))) => {
        out.fail(env, viol("walk", "walk_breaks", case, &k, format!("{} walking {} days from {}: step {} ({})", if mode == 0 { "LunarDay::next(1)" } else { "SixtyCycleDay::next(1)" }, len, c.fmt(i0), j, c.fmt(i0 + j)), "pillar (lunar route), pillar (sexagenary-day route), weekday and civil date advance one step per day".into(), msg));
      }
      Err(e) => {
        out.fail(env, viol("walk", "walk_panics", case, &k, format!("walking {} days from {}", len, c.fmt(i0)), "no panic".into(), e));
      }
    }
  }

  /// pillar of a lunar date constructed directly: first day of its month + day - 1
  fn eval_lunar(&self, env: &Env, out: &mut Out, case: &Case) {
    let (y, m, d) = (case.a[0], case.a[1], case.a[2]);
    out.eval("lunar");
    let k = [("ly", y), ("lm", m), ("ld", d)];
    let mo = LunarMonth::from_ym(y as isize, m as isize);
    let jdn = lm_first_jdn(&mo) + d - 1;
    let l = LunarDay::from_ymd(y as isize, m as isize, d as usize);
    let p = l.get_sixty_cycle().get_index() as i64;
    if d == 1 || d == mo.get_day_count() as i64 {
      out.nontrivial("lunar", &[y, m, d]);
    }
    if p != day_pillar(jdn) {
      out.fail(env, viol("lunar", "pillar_of_lunar_date", case, &k, format!("L({},{},{})", y, m, d), pillar_name(day_pillar(jdn)), pillar_name(p)));
    }
    // the same lunar date as its month lists it: pillar, sexagenary-day view, weekday and civil day of the listed item
    if (d == 1 || d == 15 || d == mo.get_day_count() as i64) && cal().index_of_jdn(jdn).is_some() && !(1729820..=1729900).contains(&jdn) {
      match guard(|| {
        let it = mo.get_days()[(d - 1) as usize].clone();
        (it.get_sixty_cycle().get_index() as i64, it.get_sixty_cycle_day().get_sixty_cycle().get_index() as i64, it.get_week().get_index() as i64, ymd(&it.get_solar_day()))
      }) {
        Ok((a, b, w, sdv)) => {
          let ix = cal().index_of_jdn(jdn).unwrap();
          if a != day_pillar(jdn) || b != day_pillar(jdn) || w != weekday(jdn) || sdv != cal().ymd(ix) {
            out.fail(env, viol("lunar", "listed_lunar_day_views", case, &k, format!("item {} of LunarMonth({},{}).get_days()", d - 1, y, m), format!("{} weekday {} on {}", pillar_name(day_pillar(jdn)), weekday(jdn), cal().fmt(ix)), format!("lunar route {} sexagenary-day route {} weekday {} on {}", pillar_name(a), pillar_name(b), w, fmt_ymd(sdv))));
          }
        }
        Err(e) => {
          if (1..=9998).contains(&y) {
            out.fail(env, viol("lunar", "listed_lunar_day_panics", case, &k, format!("item {} of LunarMonth({},{}).get_days()", d - 1, y, m), pillar_name(day_pillar(jdn)), e));
          }
        }
      }
    }
  }
}

impl Prop for C07 {
  fn id(&self) -> &'static str {
    "C07"
  }
  fn meta(&self, env: &Env) -> Meta {
    Meta {
      rule: format!("Generators: (a) `date`: every civil date 0001-01-01..9999-12-31 (exhaustive): pillar via SolarDay->LunarDay::get_sixty_cycle == (JDN+49) mod 60, weekday via SolarDay::get_week, JulianDay::get_week and LunarDay::get_week == (JDN+1) mod 7, with JDN from the independent model calendar; (b) the sexagenary-day route (SolarDay::get_sixty_cycle_day().get_sixty_cycle()) on {}; (c) `lunar`: every lunar date constructed directly (first and last day of every month, all days of {}): pillar == (first day of the month + day - 1 + 49) mod 60. (d) `walk`: proptest (start date from AD 25, 20..120 days, route): walk day by day through LunarDay::next(1) or SixtyCycleDay::next(1), reading pillar (both routes), weekday and civil date of every value before stepping on. Non-trivial: every walk; first/last day of a lunar month, first/last day of a civil month, 1582-09-20..11-10. Distinct = distinct dates.", env.tier.pick("every date of 1582, of years 1..30 and 236..241, every month end/start of ~360 boundary years and 150k proptest dates", "every civil date (exhaustive)"), env.tier.pick("every 8th month", "every month")),
      assumptions: vec![
        "Anchors (JDN+49) mod 60 and (JDN+1) mod 7 are those quoted in the property statement; JDN comes from the model calendar CAL, not from jd.rs".into(),
      ],
      level_text: String::new(),
    }
  }
  fn plan(&self, _env: &Env) -> Vec<TaskSpec> {
    vec![task("dates", 16), task("scd", 16), task("lunar", 16)]
  }
  fn run(&self, env: &Env, t: &str, shard: usize, nshards: usize, out: &mut Out) {
    let ev = |e: &Env, o: &mut Out, s: &str, cs: &Case| self.eval(e, o, s, cs);
    let c = cal();
    match t {
      "dates" => {
        // route equivalence of the objects this property reads (see routes.rs)
        prop_run(env, out, "routes", env.tier.pick(1600, 64000) / nshards as u32, 8800 + shard as u64, crate::routes::date_strategy(), &ev);
        out.set_exhaustive("routes", false);
        // strided walks on fresh threads (see engine::stride_walks)
        stride_walks(env, out, "scd", env.tier.pick(1600, 48000) / nshards as u32, 7000 + shard as u64, 0, (crate::model::NDAYS as i64), 800, &|x| vec![x, 1], &ev);
        let (lo, hi) = shard_range(NDAYS, shard, nshards);
        let mut rev = Reverse::new(40);
        for i in lo..hi {
          run_case(env, out, "date", &Case::ints(&[i as i64, 0]), &ev);
          rev.note("date", &Case::ints(&[i as i64, 0]));
        }
        rev.run(env, out, &ev);
        out.set_exhaustive("date", true);
      }
      "scd" => {
        if env.tier == Tier::Thorough {
          let (lo, hi) = shard_range(NDAYS, shard, nshards);
          for i in lo..hi {
            run_case(env, out, "scd", &Case::ints(&[i as i64, 1]), &ev);
          }
          out.set_exhaustive("scd", true);
        } else {
          let mut v: Vec<usize> = crate::props::c01::boundary_indices();
          for y in (1..=30).chain(236..=241).chain(1582..=1582) {
            for i in c.year_start[y] as usize..c.year_start[y + 1] as usize {
              v.push(i);
            }
          }
          v.sort();
          v.dedup();
          let (lo, hi) = shard_range(v.len(), shard, nshards);
          for &i in &v[lo..hi] {
            run_case(env, out, "scd", &Case::ints(&[i as i64, 1]), &ev);
          }
          prop_run(env, out, "scd", 150_000 / nshards as u32, shard as u64, (0..NDAYS as i64).prop_map(|i| Case::ints(&[i, 1])), &ev);
          out.set_exhaustive("scd", false);
        }
      }
      "lunar" => {
        let l = lunlist();
        let (lo, hi) = shard_range(l.len(), shard, nshards);
        for p in lo..hi {
          let (y, m) = l.at(p);
          let dc = LunarMonth::from_ym(y as isize, m as isize).get_day_count() as i64;
          let all = env.tier == Tier::Thorough || p % 8 == (env.seed % 8) as usize;
          for d in 1..=dc {
            if all || d == 1 || d == dc {
              run_case(env, out, "lunar", &Case::ints(&[y, m, d]), &ev);
            }
          }
        }
        out.set_exhaustive("lunar", env.tier == Tier::Thorough);
        // day-by-day walks through next(1), reading every view before each step
        let walks: u32 = env.tier.pick(400, 12_000);
        let hi = c.year_start[9999] as i64 - 400;
        let lo = c.year_start[25] as i64;
        prop_run(env, out, "walk", walks / nshards as u32, 50 + shard as u64, (lo..hi, 20i64..=120, 0i64..2).prop_map(|(i, n, md)| Case::ints(&[i, n, md])), &ev);
        if shard == 0 {
          for (yy, mm, dd) in [(1582i64, 9i64, 20i64), (2020, 4, 20), (2023, 2, 15), (1, 1, 6), (9998, 9, 1)] {
            for md in 0..2 {
              run_case(env, out, "walk", &Case::ints(&[c.index(yy, mm, dd).unwrap() as i64, 120, md]), &ev);
            }
          }
        }
        out.set_exhaustive("walk", false);
      }
      _ => panic!("unknown task {}", t),
    }
  }
  fn cold_subs(&self) -> Vec<(&'static str, i64, i64, fn(i64) -> Vec<i64>)> {
    vec![("scd", 0, crate::model::NDAYS as i64, |x| vec![x, 1])]
  }
  fn eval(&self, env: &Env, out: &mut Out, sub: &str, case: &Case) {
    match sub {
      "date" | "scd" => self.eval_date(env, out, sub, case),
      "lunar" => self.eval_lunar(env, out, case),
      "walk" => self.eval_walk(env, out, case),
      "routes" => crate::routes::compare_day_routes(env, out, "routes", case, (case.a[0].clamp(0, crate::model::NDAYS as i64 - 1)) as usize, &crate::routes::fields_c07),
      _ => panic!("unknown sub-check {}", sub),
    }
  }
}
