//! C01 Civil calendar and day count agree for every date 0001-9999

use crate::adapt::*;
use crate::engine::*;
use crate::model::*;
use proptest::prelude::*;
use serde_json::json;
use tyme4rs::tyme::jd::JulianDay;
use tyme4rs::tyme::solar::{SolarDay, SolarMonth, SolarYear};
use tyme4rs::tyme::Tyme;

pub struct C01;

fn viol(sub: &str, kind: &str, case: &Case, k: &[(&str, i64)], desc: String, expected: String, got: String) -> Viol {
  Viol { sub: sub.into(), kind: kind.into(), case: case.clone(), key: key(k), desc, expected, got }
}

/// date is a month end, Feb 28/29, or in the cut-over window
fn date_nontrivial(c: &Cal, i: usize) -> bool {
  let (y, m, d) = c.ymd(i);
  if d == c.month_len(y, m).max(if y == 1582 && m == 10 { 31 } else { 0 }) || (m == 2 && d >= 28) {
    return true;
  }
  let lo = c.index(1582, 9, 20).unwrap();
  let hi = c.index(1582, 11, 10).unwrap();
  i >= lo && i <= hi
}

/// all boundary dates used to bias the random pair generator
pub fn boundary_indices() -> Vec<usize> {
  let c = cal();
  let mut ys: Vec<i64> = SPECIAL_YEARS.to_vec();
  for cy in (100..=9900).step_by(100) {
    ys.extend_from_slice(&[cy - 1, cy, cy + 1]);
  }
  ys.sort();
  ys.dedup();
  let mut v = vec![];
  for y in ys {
    for m in 1..=12 {
      v.push(c.index(y, m, 1).unwrap());
      let last = if y == 1582 && m == 10 { 31 } else { c.month_len(y, m) };
      v.push(c.index(y, m, last).unwrap());
      if m == 2 {
        v.push(c.index(y, 2, 28).unwrap());
      }
    }
  }
  for i in c.index(1582, 9, 20).unwrap()..=c.index(1582, 11, 10).unwrap() {
    v.push(i);
  }
  v.push(0);
  v.push(NDAYS - 1);
  v.sort();
  v.dedup();
  v
}

impl C01 {
  fn eval_roundtrip(&self, env: &Env, out: &mut Out, case: &Case) {
    let c = cal();
    let i = case.a[0] as usize;
    let (y, m, d) = c.ymd(i);
    let jdn = c.jdn(i);
    out.eval("roundtrip");
    let nt = date_nontrivial(c, i);
    if nt {
      out.nontrivial("date", &[i as i64]);
    }
    if out.wants_sample("roundtrip", nt) {
      out.sample("roundtrip", nt, || json!({"date": c.fmt(i), "model_jdn": jdn}));
    }
    let k = [("y", y), ("m", m), ("d", d), ("jdn", jdn)];
    let s = match solar_day_new(y, m, d) {
      Ok(s) => s,
      Err(e) => {
        out.fail(env, viol("roundtrip", "valid_date_refused", case, &k, c.fmt(i), "accepted".into(), e));
        return;
      }
    };
    let jd = s.get_julian_day().get_day();
    if jd != jdn as f64 - 0.5 {
      out.fail(env, viol("roundtrip", "day_count", case, &k, c.fmt(i), format!("JD {}", jdn as f64 - 0.5), format!("JD {}", jd)));
    }
    let back = ymd(&JulianDay::from_julian_day(jd).get_solar_day());
    if back != (y, m, d) {
      out.fail(env, viol("roundtrip", "back", case, &k, c.fmt(i), c.fmt(i), fmt_ymd(back)));
    }
    // day count -> date from the model's day count (independent of the forward conversion)
    let back2 = ymd(&JulianDay::from_julian_day(jdn as f64 - 0.5).get_solar_day());
    if back2 != (y, m, d) {
      out.fail(env, viol("roundtrip", "jd_to_date", case, &k, format!("JD {}", jdn as f64 - 0.5), c.fmt(i), fmt_ymd(back2)));
    }
    let ys = c.year_start[y as usize] as usize;
    let ioy = s.get_index_in_year() as i64;
    if ioy != (i - ys) as i64 {
      out.fail(env, viol("roundtrip", "index_in_year", case, &k, c.fmt(i), format!("{}", i - ys), format!("{}", ioy)));
    }
    if i + 1 < NDAYS {
      let nx = ymd(&s.next(1));
      if nx != c.ymd(i + 1) {
        out.fail(env, viol("roundtrip", "next1", case, &k, c.fmt(i), c.fmt(i + 1), fmt_ymd(nx)));
      }
    }
    if i > 0 {
      let pv = ymd(&s.next(-1));
      if pv != c.ymd(i - 1) {
        out.fail(env, viol("roundtrip", "prev1", case, &k, c.fmt(i), c.fmt(i - 1), fmt_ymd(pv)));
      }
    }
  }

  fn eval_accept(&self, env: &Env, out: &mut Out, case: &Case) {
    let (y, m, d) = (case.a[0], case.a[1], case.a[2]);
    out.eval("accept");
    let exists = date_exists(y, m, d);
    let r = solar_day_new(y, m, d);
    let nt = !exists && (1..=9999).contains(&y) && (1..=12).contains(&m) && (d == month_len_nominal(y, m) + 1 || (y == 1582 && m == 10));
    if nt {
      out.nontrivial("accept", &[y, m, d]);
    }
    if out.wants_sample("accept", nt) {
      out.sample("accept", nt, || json!({"candidate": [y, m, d], "exists_in_model": exists, "library_accepts": r.is_ok()}));
    }
    let k = [("y", y), ("m", m), ("d", d)];
    match (&r, exists) {
      (Ok(s), true) => {
        if ymd(s) != (y, m, d) {
          out.fail(env, viol("accept", "fields", case, &k, format!("{}-{}-{}", y, m, d), format!("{}-{}-{}", y, m, d), fmt_ymd(ymd(s))));
        }
      }
      (Err(e), true) => {
        out.fail(env, viol("accept", "valid_date_refused", case, &k, format!("{}-{}-{}", y, m, d), "accepted".into(), e.clone()));
      }
      (Ok(s), false) => {
        out.fail(env, viol("accept", "nonexistent_date_accepted", case, &k, format!("{}-{}-{}", y, m, d), "refused (date does not exist)".into(), format!("accepted as {}", fmt_ymd(ymd(s)))));
      }
      (Err(_), false) => {}
    }
    // the panicking constructor accepts exactly the same triples
    if m >= 0 && d >= 0 {
      let r2 = guard(|| tyme4rs::tyme::solar::SolarDay::from_ymd(y as isize, m as usize, d as usize)).map(|s| ymd(&s));
      match (r2, exists) {
        (Ok(g), true) if g != (y, m, d) => {
          out.fail(env, viol("accept", "from_ymd_fields", case, &k, format!("SolarDay::from_ymd({},{},{})", y, m, d), format!("{}-{}-{}", y, m, d), fmt_ymd(g)));
        }
        (Err(e), true) => {
          out.fail(env, viol("accept", "from_ymd_refuses_valid_date", case, &k, format!("SolarDay::from_ymd({},{},{})", y, m, d), "accepted".into(), e));
        }
        (Ok(g), false) => {
          out.fail(env, viol("accept", "from_ymd_accepts_nonexistent_date", case, &k, format!("SolarDay::from_ymd({},{},{})", y, m, d), "refused (date does not exist)".into(), format!("accepted as {}", fmt_ymd(g))));
        }
        _ => {}
      }
    }
  }

  fn eval_month(&self, env: &Env, out: &mut Out, case: &Case) {
    let c = cal();
    let (y, m) = (case.a[0], case.a[1]);
    out.eval("month");
    let got = SolarMonth::from_ym(y as isize, m as usize).get_day_count() as i64;
    let exp = c.month_len(y, m);
    if m == 2 || (y == 1582 && m == 10) {
      out.nontrivial("month", &[y, m]);
    }
    if got != exp {
      out.fail(env, viol("month", "day_count", case, &[("y", y), ("m", m)], format!("{:04}-{:02}", y, m), exp.to_string(), got.to_string()));
    }
    // the same month obtained in other ways (stepped from neighbours whose views were read first, handed out by a day,
    // listed by its year) has the same length and labels
    let ord = (y - 1) * 12 + (m - 1);
    let mut routes: Vec<(String, Result<(i64, i64, i64, i64), String>)> = vec![];
    let view = |mo: &SolarMonth| (mo.get_year() as i64, mo.get_month() as i64, mo.get_day_count() as i64, mo.get_index_in_year() as i64);
    for n in [1i64, -1, 2, -11, 12, -13, 25, -1200] {
      let src = ord - n;
      if src < 0 || src >= 9999 * 12 {
        continue;
      }
      let (sy, sm) = (src / 12 + 1, src % 12 + 1);
      routes.push((format!("{:04}-{:02} stepped by {}", sy, sm, n), guard(|| { let a = SolarMonth::from_ym(sy as isize, sm as usize); let _ = (a.get_day_count(), a.get_week_count(0), a.get_solar_year().is_leap(), a.to_string()); view(&a.next(n as isize)) })));
    }
    routes.push(("handed out by its first existing day".into(), guard(|| view(&SolarDay::from_ymd(y as isize, m as usize, 1).get_solar_month()))));
    routes.push(("handed out by its last day".into(), guard(|| view(&SolarDay::from_ymd(y as isize, m as usize, if y == 1582 && m == 10 { 31 } else { exp } as usize).get_solar_month()))));
    routes.push(("listed by its year".into(), guard(|| view(&SolarYear::from_year(y as isize).get_months()[(m - 1) as usize]))));
    for (name, r) in routes {
      let want = (y, m, exp, m - 1);
      match r {
        Ok(v) if v == want => {}
        Ok(v) => {
          out.fail(env, viol("month", "month_obtained_differently", case, &[("y", y), ("m", m)], format!("{:04}-{:02} {}", y, m, name), format!("{:?} (year, month, days, index in year)", want), format!("{:?}", v)));
          break;
        }
        Err(e) => {
          out.fail(env, viol("month", "month_obtained_differently_panics", case, &[("y", y), ("m", m)], format!("{:04}-{:02} {}", y, m, name), format!("{:?}", want), e));
          break;
        }
      }
    }
  }

  fn eval_year(&self, env: &Env, out: &mut Out, case: &Case) {
    let c = cal();
    let y = case.a[0];
    out.eval("year");
    let sy = SolarYear::from_year(y as isize);
    let got = sy.get_day_count() as i64;
    let exp = c.year_len(y);
    if y % 100 == 0 || y == 1582 {
      out.nontrivial("year", &[y]);
    }
    if got != exp {
      out.fail(env, viol("year", "day_count", case, &[("y", y)], format!("{:04}", y), exp.to_string(), got.to_string()));
    }
    // leap <=> February has 29 days in the model calendar
    let leap = month_len_nominal(y, 2) == 29;
    if sy.is_leap() != leap {
      out.fail(env, viol("year", "is_leap", case, &[("y", y)], format!("{:04}", y), leap.to_string(), sy.is_leap().to_string()));
    }
    // the same year obtained in other ways: stepped from other years (views read first), handed out by a month, a day, a
    // half-year, a season
    let view = |x: &SolarYear| (x.get_year() as i64, x.get_day_count() as i64, x.is_leap(), x.get_months()[1].get_day_count() as i64);
    let want = (y, exp, leap, month_len_nominal(y, 2));
    let mut routes: Vec<(String, Result<(i64, i64, bool, i64), String>)> = vec![];
    for n in [1i64, -1, 3, -4, 100, -400, 1582 - y, y - 2000] {
      let src = y - n;
      if n == 0 || src < 1 || src > 9999 {
        continue;
      }
      routes.push((format!("{:04} stepped by {}", src, n), guard(|| { let a = SolarYear::from_year(src as isize); let _ = (a.is_leap(), a.get_day_count(), a.to_string()); view(&a.next(n as isize)) })));
    }
    routes.push(("handed out by its February".into(), guard(|| view(&SolarMonth::from_ym(y as isize, 2).get_solar_year()))));
    routes.push(("handed out by a month stepped from the previous December".into(), guard(|| if y > 1 { view(&SolarMonth::from_ym(y as isize - 1, 12).next(3).get_solar_year()) } else { want })));
    routes.push(("handed out by the month of its 1 March".into(), guard(|| view(&SolarDay::from_ymd(y as isize, 3, 1).get_solar_month().get_solar_year()))));
    routes.push(("handed out by its second half-year / fourth season".into(), guard(|| { let a = view(&tyme4rs::tyme::solar::SolarHalfYear::from_index(y as isize, 1).get_solar_year()); let b = view(&tyme4rs::tyme::solar::SolarSeason::from_index(y as isize, 3).get_solar_year()); if a == b { a } else { (0, 0, false, 0) } })));
    for (name, r) in routes {
      match r {
        Ok(v) if v == want => {}
        Ok(v) => {
          out.fail(env, viol("year", "year_obtained_differently", case, &[("y", y)], format!("{:04} {}", y, name), format!("{:?} (year, days, leap, days of February)", want), format!("{:?}", v)));
          break;
        }
        Err(e) => {
          out.fail(env, viol("year", "year_obtained_differently_panics", case, &[("y", y)], format!("{:04} {}", y, name), format!("{:?}", want), e));
          break;
        }
      }
    }
  }

  fn eval_pair(&self, env: &Env, out: &mut Out, case: &Case) {
    let c = cal();
    let i = case.a[0] as usize;
    let j = case.a[1] as usize;
    let n = j as i64 - i as i64;
    out.eval("pair");
    let cut = c.index(1582, 10, 4).unwrap();
    let (lo, hi) = (i.min(j), i.max(j));
    let crosses_cut = lo <= cut && hi > cut;
    let (y1, _, _) = c.ymd(lo);
    let (y2, _, _) = c.ymd(hi);
    let crosses_century = y1 / 100 != y2 / 100 || date_nontrivial(c, i) || date_nontrivial(c, j);
    let nt = crosses_cut || crosses_century;
    if nt {
      out.nontrivial("pair", &[i as i64, j as i64]);
    }
    if crosses_cut {
      out.class("pair_crosses_cutover");
    }
    if out.wants_sample("pair", nt) {
      out.sample("pair", nt, || json!({"from": c.fmt(i), "n": n, "expected": c.fmt(j)}));
    }
    let k = [("i", i as i64), ("n", n)];
    let a = sd_idx(c, i);
    let b = sd_idx(c, j);
    let nx = ymd(&a.next(n as isize));
    if nx != c.ymd(j) {
      out.fail(env, viol("pair", "next_n", case, &k, format!("{} + {} days", c.fmt(i), n), c.fmt(j), fmt_ymd(nx)));
    }
    let diff = b.subtract(a) as i64;
    if diff != n {
      out.fail(env, viol("pair", "subtract", case, &k, format!("{} - {}", c.fmt(j), c.fmt(i)), n.to_string(), diff.to_string()));
    }
    if a.is_before(b) != (i < j) || a.is_after(b) != (i > j) || b.is_before(a) != (j < i) || b.is_after(a) != (j > i) {
      out.fail(env, viol("pair", "order", case, &k, format!("{} vs {}", c.fmt(i), c.fmt(j)), format!("before={} after={}", i < j, i > j), format!("before={} after={}", a.is_before(b), a.is_after(b))));
    }
    if (a == b) != (i == j) {
      out.fail(env, viol("pair", "eq", case, &k, format!("{} vs {}", c.fmt(i), c.fmt(j)), (i == j).to_string(), (a == b).to_string()));
    }
  }
}

fn pair_strategy(boundary: Vec<usize>) -> impl Strategy<Value = Case> {
  let b1 = boundary.clone();
  let b2 = boundary;
  let nb = b1.len();
  let idx = prop_oneof![
    6 => (0..NDAYS as i64),
    4 => (0..nb).prop_map(move |k| b1[k] as i64),
  ];
  let second = prop_oneof![
    3 => (0..NDAYS as i64).prop_map(|x| (0i64, x)),
    2 => (0..nb).prop_map(move |k| (0i64, b2[k] as i64)),
    // relative: small steps and year-sized steps
    3 => (-400i64..=400).prop_map(|n| (1i64, n)),
    2 => prop_oneof![Just(365i64), Just(-365), Just(366), Just(-366), Just(10), Just(-10), Just(11), Just(-11), Just(1), Just(-1), Just(0)].prop_map(|n| (1i64, n)),
  ];
  (idx, second).prop_map(|(i, (rel, x))| {
    let j = if rel == 1 { (i + x).clamp(0, NDAYS as i64 - 1) } else { x };
    Case::ints(&[i, j])
  })
}

impl Prop for C01 {
  fn id(&self) -> &'static str {
    "C01"
  }
  fn meta(&self, _env: &Env) -> Meta {
    Meta {
      rule: "Generators: (a) every one of the 3,652,061 civil dates of an independent day-by-day model calendar CAL (roundtrip: acceptance, date->JD == JDN-0.5, JD->date, day-of-year, next(+-1)); (b) every candidate triple (year 1..9999 and 0,-1,10000; month 0..13; day 0..32) for acceptance <=> existence; (c) every (year, month) and every year for lengths/leap; (d) proptest pairs (date index i, target index j) with 40% of indices drawn from a constructed boundary set (month ends, Feb 28/29, century years +-1, 1582-09-20..11-10, range ends) and relative steps 0,+-1,+-10,+-11,+-365,+-366,+-400 window, for next(n)/subtract/is_before/is_after/==. Non-trivial: the date is a month end, Feb 28/29 or inside 1582-09-20..1582-11-10; a refused candidate that is one past a month end or inside October 1582; February / October 1582 month lengths; century years; pairs that cross the 1582 cut-over or a century boundary or touch a non-trivial date. Distinct = distinct canonical input tuples.".into(),
      assumptions: vec![
        "Oracle CAL: integer month lengths, leap = y%4==0 before 1583 and Gregorian rule from 1583, 1582-10-05..14 absent, anchored at JDN 1721424 = 0001-01-01 (standard value); shares no code or constants with jd.rs".into(),
        "A refusal is Err from SolarDay::new or a panic of the constructor; both are accepted as refusal".into(),
        "month and day are usize in the API, so negative months/days are not representable and not generated".into(),
      ],
      level_text: String::new(),
    }
  }
  fn plan(&self, _env: &Env) -> Vec<TaskSpec> {
    vec![task("sweep", 16), task("accept", 16), task("pairs", 16)]
  }
  fn run(&self, env: &Env, t: &str, shard: usize, nshards: usize, out: &mut Out) {
    let c = cal();
    let ev = |e: &Env, o: &mut Out, s: &str, cs: &Case| self.eval(e, o, s, cs);
    match t {
      "sweep" => {
        // strided walks on fresh threads (see engine::stride_walks)
        stride_walks(env, out, "roundtrip", env.tier.pick(1600, 48000) / nshards as u32, 7000 + shard as u64, 0, (crate::model::NDAYS as i64), 800, &|x| vec![x], &ev);
        let (lo, hi) = shard_range(NDAYS, shard, nshards);
        let mut rev = Reverse::new(50);
        for i in lo..hi {
          run_case(env, out, "roundtrip", &Case::ints(&[i as i64]), &ev);
          rev.note("roundtrip", &Case::ints(&[i as i64]));
        }
        rev.run(env, out, &ev);
        let (ylo, yhi) = shard_range(9999, shard, nshards);
        for y in (ylo as i64 + 1)..=(yhi as i64) {
          run_case(env, out, "year", &Case::ints(&[y]), &ev);
          for m in 1..=12 {
            run_case(env, out, "month", &Case::ints(&[y, m]), &ev);
          }
        }
        out.set_exhaustive("roundtrip", true);
        out.set_exhaustive("year", true);
        out.set_exhaustive("month", true);
      }
      "accept" => {
        let (ylo, yhi) = shard_range(9999, shard, nshards);
        let mut years: Vec<i64> = ((ylo as i64 + 1)..=(yhi as i64)).collect();
        if shard == 0 {
          years.extend_from_slice(&[0, -1, 10000, 10001]);
        }
        for y in years {
          for m in 0..=13 {
            for d in 0..=32 {
              run_case(env, out, "accept", &Case::ints(&[y, m, d]), &ev);
            }
          }
        }
        out.set_exhaustive("accept", true);
      }
      "pairs" => {
        let b = boundary_indices();
        // deterministic boundary pairs: every boundary date x fixed steps and both range ends
        if shard == 0 {
          for &i in &b {
            for n in [1i64, -1, 10, -10, 11, -11, 365, -365, 366, -366] {
              let j = i as i64 + n;
              if j >= 0 && (j as usize) < NDAYS {
                run_case(env, out, "pair", &Case::ints(&[i as i64, j]), &ev);
              }
            }
            run_case(env, out, "pair", &Case::ints(&[i as i64, 0]), &ev);
            run_case(env, out, "pair", &Case::ints(&[i as i64, NDAYS as i64 - 1]), &ev);
          }
        }
        let total: u32 = env.tier.pick(320_000, 8_000_000);
        prop_run(env, out, "pair", total / nshards as u32, shard as u64, pair_strategy(b), &ev);
        out.set_exhaustive("pair", false);
        let _ = c;
      }
      _ => panic!("unknown task {}", t),
    }
  }
  fn cold_subs(&self) -> Vec<(&'static str, i64, i64, fn(i64) -> Vec<i64>)> {
    vec![("roundtrip", 0, crate::model::NDAYS as i64, |x| vec![x])]
  }
  fn eval(&self, env: &Env, out: &mut Out, sub: &str, case: &Case) {
    match sub {
      "roundtrip" => self.eval_roundtrip(env, out, case),
      "accept" => self.eval_accept(env, out, case),
      "month" => self.eval_month(env, out, case),
      "year" => self.eval_year(env, out, case),
      "pair" => self.eval_pair(env, out, case),
      _ => panic!("unknown sub-check {}", sub),
    }
  }
}

#[allow(dead_code)]
fn _unused(_: SolarDay) {}
