//! C20 Festival and legal-holiday lookups are consistent in both directions

use crate::adapt::*;
use crate::engine::*;
use crate::lunmodel::*;
use crate::model::*;
use crate::terms::*;
use serde_json::json;
use tyme4rs::tyme::festival::{LunarFestival, SolarFestival};
use tyme4rs::tyme::holiday::{LegalHoliday, LEGAL_HOLIDAY_DATA, LEGAL_HOLIDAY_NAMES};
use tyme4rs::tyme::lunar::{LunarDay, LunarMonth};
use tyme4rs::tyme::Culture;

pub struct C20;

fn viol(sub: &str, kind: &str, case: &Case, k: &[(&str, i64)], desc: String, expected: String, got: String) -> Viol {
  Viol { sub: sub.into(), kind: kind.into(), case: case.clone(), key: key(k), desc, expected, got }
}

/// civil festivals: (name, month, day, founding year) in list order
const SOLAR_FEST: [(&str, i64, i64, i64); 10] = [("元旦", 1, 1, 1950), ("三八妇女节", 3, 8, 1950), ("植树节", 3, 12, 1979), ("五一劳动节", 5, 1, 1950), ("五四青年节", 5, 4, 1950), ("六一儿童节", 6, 1, 1950), ("建党节", 7, 1, 1941), ("八一建军节", 8, 1, 1933), ("教师节", 9, 10, 1985), ("国庆节", 10, 1, 1950)];

#[derive(Clone, Copy, PartialEq)]
enum LF {
  Fixed(i64, i64),
  Term(i64), // term index counted from this year's list (24 = the December solstice)
  Eve,
}
const LUNAR_FEST: [(&str, LF); 13] = [("春节", LF::Fixed(1, 1)), ("元宵节", LF::Fixed(1, 15)), ("龙头节", LF::Fixed(2, 2)), ("上巳节", LF::Fixed(3, 3)), ("清明节", LF::Term(7)), ("端午节", LF::Fixed(5, 5)), ("七夕节", LF::Fixed(7, 7)), ("中元节", LF::Fixed(7, 15)), ("中秋节", LF::Fixed(8, 15)), ("重阳节", LF::Fixed(9, 9)), ("冬至节", LF::Term(24)), ("腊八节", LF::Fixed(12, 8)), ("除夕", LF::Eve)];

struct Rec {
  y: i64,
  m: i64,
  d: i64,
  work: bool,
  name: usize,
  offset: i64,
}

fn holiday_records() -> Result<Vec<Rec>, String> {
  let s = LEGAL_HOLIDAY_DATA;
  if s.len() % 13 != 0 {
    return Err(format!("table length {} is not a multiple of 13", s.len()));
  }
  let mut v = vec![];
  for k in 0..s.len() / 13 {
    let r = &s[k * 13..k * 13 + 13];
    let num = |a: usize, b: usize| r[a..b].parse::<i64>().map_err(|_| format!("record {} {:?}: non-numeric field", k, r));
    let sign = match &r[10..11] {
      "+" => 1,
      "-" => -1,
      _ => return Err(format!("record {} {:?}: bad sign", k, r)),
    };
    v.push(Rec { y: num(0, 4)?, m: num(4, 6)?, d: num(6, 8)?, work: &r[8..9] == "0", name: num(9, 10)? as usize, offset: sign * num(11, 13)? });
    if &r[8..9] != "0" && &r[8..9] != "1" {
      return Err(format!("record {} {:?}: bad work flag", k, r));
    }
  }
  Ok(v)
}

impl C20 {
  /// a = [date index]: civil festival lookup for a date
  fn eval_sdate(&self, env: &Env, out: &mut Out, case: &Case) {
    let c = cal();
    let i = case.a[0] as usize;
    let (y, m, d) = c.ymd(i);
    out.eval("sdate");
    let exp = SOLAR_FEST.iter().position(|f| f.1 == m && f.2 == d && y >= f.3);
    let on_day = SOLAR_FEST.iter().any(|f| f.1 == m && f.2 == d);
    if on_day {
      out.nontrivial("sdate", &[i as i64]);
    }
    let k = [("y", y), ("m", m), ("d", d)];
    let g = SolarFestival::from_ymd(y as isize, m as usize, d as usize);
    let g2 = sd(y, m, d).get_festival();
    let gi = g.as_ref().map(|f| f.get_index());
    if out.wants_sample("sdate", on_day) {
      out.sample("sdate", on_day, || json!({"date": c.fmt(i), "festival": g.as_ref().map(|f| f.get_name())}));
    }
    if gi != exp || g2.as_ref().map(|f| f.get_index()) != exp {
      out.fail(env, viol("sdate", "festival_of_date", case, &k, c.fmt(i), format!("{:?}", exp.map(|x| SOLAR_FEST[x].0)), format!("{:?}", g.as_ref().map(|f| f.get_name()))));
      return;
    }
    if let (Some(f), Some(x)) = (g, exp) {
      if f.get_name() != SOLAR_FEST[x].0 || ymd(&f.get_day()) != (y, m, d) || f.get_start_year() as i64 != SOLAR_FEST[x].3 {
        out.fail(env, viol("sdate", "festival_fields", case, &k, c.fmt(i), format!("{} on {} since {}", SOLAR_FEST[x].0, c.fmt(i), SOLAR_FEST[x].3), format!("{} on {} since {}", f.get_name(), fmt_ymd(ymd(&f.get_day())), f.get_start_year())));
      }
    }
  }

  /// a = [year, index, n]: civil festival by index and stepping
  fn eval_sindex(&self, env: &Env, out: &mut Out, case: &Case) {
    let (y, ix, n) = (case.a[0], case.a[1], case.a[2]);
    out.eval("sindex");
    let k = [("y", y), ("i", ix), ("n", n)];
    let f = SolarFestival::from_index(y as isize, ix as usize);
    let exp = ix < 10 && y >= SOLAR_FEST[ix as usize].3;
    if (1930..=1990).contains(&y) {
      out.nontrivial("sindex", &[y, ix, n]);
    }
    if f.is_some() != exp {
      out.fail(env, viol("sindex", "from_index_existence", case, &k, format!("SolarFestival::from_index({},{})", y, ix), format!("{}", if exp { "a festival" } else { "None (before the founding year)" }), format!("{:?}", f.as_ref().map(|x| x.to_string()))));
      return;
    }
    let f = match f {
      Some(f) => f,
      None => return,
    };
    let e = SOLAR_FEST[ix as usize];
    if ymd(&f.get_day()) != (y, e.1, e.2) || f.get_index() as i64 != ix || f.get_name() != e.0 {
      out.fail(env, viol("sindex", "from_index_fields", case, &k, format!("SolarFestival::from_index({},{})", y, ix), format!("{} {}-{}-{}", e.0, y, e.1, e.2), f.to_string()));
    }
    // from_index <-> from_ymd
    let back = SolarFestival::from_ymd(y as isize, e.1 as usize, e.2 as usize).map(|x| x.get_index() as i64);
    if back != Some(ix) {
      out.fail(env, viol("sindex", "index_date_roundtrip", case, &k, format!("{} {}", y, e.0), format!("{:?}", Some(ix)), format!("{:?}", back)));
    }
    // stepping: n places along the (year, index) list
    let g = y * 10 + ix + n;
    let (ty, ti) = (g.div_euclid(10), g.rem_euclid(10));
    if !(1..=9999).contains(&ty) {
      return;
    }
    let texp = ty >= SOLAR_FEST[ti as usize].3;
    let nx = f.next(n as isize);
    let got = nx.as_ref().map(|x| (x.get_day().get_year() as i64, x.get_index() as i64));
    let want = if texp { Some((ty, ti)) } else { None };
    if got != want {
      out.fail(env, viol("sindex", "next_n", case, &k, format!("{} {} .next({})", y, e.0, n), format!("{:?}", want), format!("{:?}", got)));
    }
  }

  /// the lunar day on which festival `ix` of lunar year y falls, computed from the model
  fn lunar_fest_day(ts: &Terms, y: i64, ix: usize) -> Option<(i64, i64, i64, bool)> {
    thread_local! {
      static MEMO: std::cell::RefCell<std::collections::HashMap<(i64, usize), Option<(i64, i64, i64, bool)>>> = std::cell::RefCell::new(std::collections::HashMap::new());
    }
    if let Some(v) = MEMO.with(|m| m.borrow().get(&(y, ix)).cloned()) {
      return v;
    }
    let v = Self::lunar_fest_day_uncached(ts, y, ix);
    MEMO.with(|m| m.borrow_mut().insert((y, ix), v));
    v
  }

  fn lunar_fest_day_uncached(ts: &Terms, y: i64, ix: usize) -> Option<(i64, i64, i64, bool)> {
    match LUNAR_FEST[ix].1 {
      LF::Fixed(m, d) => Some((y, m, d, false)),
      LF::Term(t) => {
        let ti = if t >= 24 { *ts.get(y + 1, t - 24) } else { *ts.get(y, t) };
        let c = cal();
        let i = c.index_of_jdn(ti.day)?;
        let r = guard(|| lymd(&sd_idx(c, i).get_lunar_day())).ok()?;
        Some((r.0, r.1, r.2, ti.ambiguous_day))
      }
      LF::Eve => {
        let l = lunlist();
        let p = l.pos(y + 1, 1)?;
        if p == 0 {
          return None;
        }
        let (ly, lm) = l.at(p - 1);
        let dc = LunarMonth::from_ym(ly as isize, lm as isize).get_day_count() as i64;
        Some((ly, lm, dc, false))
      }
    }
  }

  /// a = [year, index, n]: lunar festival by index, its day's own lookup, stepping
  fn eval_lindex(&self, env: &Env, out: &mut Out, case: &Case) {
    let (y, ix, n) = (case.a[0], case.a[1], case.a[2]);
    let ts = ensure(y, y + 1);
    out.eval("lindex");
    let k = [("ly", y), ("i", ix), ("n", n)];
    let name = LUNAR_FEST[ix as usize].0;
    let special = !matches!(LUNAR_FEST[ix as usize].1, LF::Fixed(_, _));
    if special {
      out.nontrivial("lindex", &[y, ix, n]);
    }
    let f = match guard(|| LunarFestival::from_index(y as isize, ix as usize)) {
      Ok(Some(f)) => f,
      Ok(None) => {
        out.fail(env, viol("lindex", "from_index_none", case, &k, format!("LunarFestival::from_index({},{})", y, ix), name.into(), "None".into()));
        return;
      }
      Err(e) => {
        out.fail(env, viol("lindex", "from_index_panics", case, &k, format!("LunarFestival::from_index({},{})", y, ix), name.into(), e));
        return;
      }
    };
    let day = lymd(&f.get_day());
    if out.wants_sample("lindex", special) {
      out.sample("lindex", special, || json!({"lunar_year": y, "festival": f.get_name(), "lunar_day": [day.0, day.1, day.2], "civil": f.get_day().get_solar_day().to_string()}));
    }
    if f.get_index() as i64 != ix || f.get_name() != name {
      out.fail(env, viol("lindex", "from_index_fields", case, &k, format!("LunarFestival::from_index({},{})", y, ix), name.into(), f.get_name()));
    }
    match Self::lunar_fest_day(&ts, y, ix as usize) {
      Some((ey, em, ed, amb)) => {
        if day != (ey, em, ed) {
          if amb {
            out.skip("term_instant_within_0.6s_of_midnight");
          } else {
            out.fail(env, viol("lindex", "festival_day", case, &k, format!("{} of lunar year {}", name, y), format!("L({},{},{})", ey, em, ed), format!("L({},{},{})", day.0, day.1, day.2)));
          }
        }
        if LUNAR_FEST[ix as usize].1 == LF::Eve && !(ed == 29 || ed == 30) {
          out.fail(env, viol("lindex", "eve_not_day_29_or_30", case, &k, format!("{} of lunar year {}", name, y), "29 or 30".into(), ed.to_string()));
        }
      }
      None => out.skip("festival_day_not_computable_by_the_model"),
    }
    // the day's own lookup returns this festival or an earlier-listed one sharing the day
    match guard(|| (f.get_day().get_festival().map(|x| x.get_index() as i64), LunarFestival::from_ymd(day.0 as isize, day.1 as isize, day.2 as usize).map(|x| x.get_index() as i64))) {
      Ok((a, b)) => {
        let ok = |r: Option<i64>| match r {
          Some(j) => j == ix || (j < ix && {
            // the earlier festival must really fall on the same day
            let o = Self::lunar_fest_day(&ts, y, j as usize);
            o.map(|x| (x.0, x.1, x.2) == day).unwrap_or(false)
          }),
          None => false,
        };
        if !ok(a) || !ok(b) {
          out.fail(env, viol("lindex", "day_lookup_does_not_return_festival", case, &k, format!("{} of lunar year {} = L({},{},{})", name, y, day.0, day.1, day.2), format!("lookup of that day returns {} (or an earlier festival on the same day)", name), format!("get_festival {:?}, from_ymd {:?}", a.map(|j| LUNAR_FEST[j as usize].0), b.map(|j| LUNAR_FEST[j as usize].0))));
        }
      }
      Err(e) => {
        out.fail(env, viol("lindex", "day_lookup_panics", case, &k, format!("{} of lunar year {}", name, y), name.into(), e));
      }
    }
    // stepping
    let g = y * 13 + ix + n;
    let (ty, ti) = (g.div_euclid(13), g.rem_euclid(13));
    if !(1..=9998).contains(&ty) {
      return;
    }
    let k = [("ly", y), ("i", ix), ("n", n), ("ty", ty), ("ti", ti)];
    match guard(|| f.next(n as isize).map(|x| (x.get_index() as i64, lymd(&x.get_day())))) {
      Ok(Some((gi, gd))) => {
        let e = guard(|| LunarFestival::from_index(ty as isize, ti as usize).map(|x| lymd(&x.get_day()))).ok().flatten();
        if gi != ti || Some(gd) != e {
          out.fail(env, viol("lindex", "next_n", case, &k, format!("{} of lunar year {} .next({})", name, y, n), format!("{} of lunar year {} = {:?}", LUNAR_FEST[ti as usize].0, ty, e), format!("{} on {:?}", LUNAR_FEST[gi as usize].0, gd)));
        }
      }
      Ok(None) => {
        out.fail(env, viol("lindex", "next_n_none", case, &k, format!("{} of lunar year {} .next({})", name, y, n), format!("{} of lunar year {}", LUNAR_FEST[ti as usize].0, ty), "None".into()));
      }
      Err(e) => {
        out.fail(env, viol("lindex", "next_n_panics", case, &k, format!("{} of lunar year {} .next({})", name, y, n), format!("{} of lunar year {}", LUNAR_FEST[ti as usize].0, ty), e));
      }
    }
  }

  /// a = [ly, lm, ld]: lookup of a lunar date is Some exactly on festival days
  fn eval_ldate(&self, env: &Env, out: &mut Out, case: &Case) {
    let (y, m, d) = (case.a[0], case.a[1], case.a[2]);
    let ts = ensure(y, y + 1);
    out.eval("ldate");
    let k = [("ly", y), ("lm", m), ("ld", d)];
    let mut exp: Option<usize> = None;
    let mut amb = false;
    for ix in 0..13 {
      if let Some((ey, em, ed, a)) = Self::lunar_fest_day(&ts, y, ix) {
        if a {
          amb = true;
        }
        if (ey, em, ed) == (y, m, d) {
          exp = Some(ix);
          break;
        }
      }
    }
    if exp.is_some() {
      out.nontrivial("ldate", &[y, m, d]);
    }
    match guard(|| LunarFestival::from_ymd(y as isize, m as isize, d as usize).map(|x| x.get_index())) {
      Ok(g) => {
        let g2 = guard(|| LunarDay::from_ymd(y as isize, m as isize, d as usize).get_festival().map(|x| x.get_index())).unwrap_or(None);
        if out.wants_sample("ldate", exp.is_some()) {
          out.sample("ldate", exp.is_some(), || json!({"lunar": [y, m, d], "festival": g.map(|j| LUNAR_FEST[j].0)}));
        }
        if g != exp || g2 != exp {
          if amb {
            out.skip("term_instant_within_0.6s_of_midnight");
          } else {
            out.fail(env, viol("ldate", "festival_of_lunar_date", case, &k, format!("L({},{},{})", y, m, d), format!("{:?}", exp.map(|j| LUNAR_FEST[j].0)), format!("from_ymd {:?} get_festival {:?}", g.map(|j| LUNAR_FEST[j].0), g2.map(|j| LUNAR_FEST[j].0))));
          }
        }
      }
      Err(e) => {
        out.fail(env, viol("ldate", "lookup_panics", case, &k, format!("L({},{},{})", y, m, d), format!("{:?}", exp.map(|j| LUNAR_FEST[j].0)), e));
      }
    }
  }

  /// a = [record position, n]: legal holiday records
  fn eval_holiday(&self, env: &Env, out: &mut Out, case: &Case) {
    let c = cal();
    let recs = match holiday_records() {
      Ok(r) => r,
      Err(e) => {
        out.eval("holiday");
        out.fail(env, viol("holiday", "table_malformed", case, &[], "LEGAL_HOLIDAY_DATA".into(), "13-character records".into(), e));
        return;
      }
    };
    let p = case.a[0] as usize;
    let n = case.a[1];
    if p >= recs.len() {
      return;
    }
    out.eval("holiday");
    out.nontrivial("holiday", &[p as i64, n]);
    let r = &recs[p];
    let k = [("pos", p as i64), ("n", n), ("y", r.y), ("m", r.m), ("d", r.d)];
    let desc = format!("record {} = {:04}-{:02}-{:02}", p, r.y, r.m, r.d);
    let ix = match c.index(r.y, r.m, r.d) {
      Some(i) => i,
      None => {
        out.fail(env, viol("holiday", "record_is_not_a_real_date", case, &k, desc, "an existing civil date".into(), format!("{}-{}-{}", r.y, r.m, r.d)));
        return;
      }
    };
    if p > 0 {
      let q = &recs[p - 1];
      if (q.y, q.m, q.d) >= (r.y, r.m, r.d) {
        out.fail(env, viol("holiday", "records_not_strictly_increasing", case, &k, desc.clone(), format!("after {:04}-{:02}-{:02}", q.y, q.m, q.d), format!("{:04}-{:02}-{:02}", r.y, r.m, r.d)));
      }
    }
    if r.name >= LEGAL_HOLIDAY_NAMES.len() {
      out.fail(env, viol("holiday", "name_index_out_of_range", case, &k, desc.clone(), format!("< {}", LEGAL_HOLIDAY_NAMES.len()), r.name.to_string()));
      return;
    }
    // three out of four cases: an unrelated look-up comes first on this thread - a date after the last record, a date before
    // the first record, a date between two records - (a record is returned for its date whatever was looked up before)
    {
      let (first, last) = (&recs[0], &recs[recs.len() - 1]);
      let pre: Option<(i64, i64, i64)> = match (p as i64 + n).rem_euclid(4) {
        1 => c.index(last.y, last.m, last.d).map(|i| c.ymd((i + 1 + (p * 37) % 2000).min(NDAYS - 1))),
        2 => c.index(first.y, first.m, first.d).map(|i| c.ymd(i - 1 - (p * 53) % 3000)),
        3 => Some((r.y, ((r.m + 4) % 12) + 1, 17)),
        _ => None,
      };
      if let Some((py, pm, pd)) = pre {
        out.class("holiday_lookup_after_an_unrelated_lookup");
        let _ = guard(|| LegalHoliday::from_ymd(py as isize, pm as usize, pd as usize).map(|h| h.to_string()));
      }
    }
    let h = match guard(|| LegalHoliday::from_ymd(r.y as isize, r.m as usize, r.d as usize)) {
      Ok(Some(h)) => h,
      Ok(None) => {
        out.fail(env, viol("holiday", "record_not_returned_for_its_date", case, &k, desc, "the record".into(), "None".into()));
        return;
      }
      Err(e) => {
        out.fail(env, viol("holiday", "lookup_panics", case, &k, desc, "the record".into(), e));
        return;
      }
    };
    if out.wants_sample("holiday", true) {
      out.sample("holiday", true, || json!({"record": p, "date": c.fmt(ix), "name": h.get_name(), "work": h.is_work(), "offset_days": r.offset}));
    }
    if ymd(&h.get_day()) != (r.y, r.m, r.d) || h.is_work() != r.work || h.get_name() != LEGAL_HOLIDAY_NAMES[r.name] {
      out.fail(env, viol("holiday", "record_fields", case, &k, desc.clone(), format!("{} work={}", LEGAL_HOLIDAY_NAMES[r.name], r.work), format!("{} {} work={}", fmt_ymd(ymd(&h.get_day())), h.get_name(), h.is_work())));
    }
    let via_day = sd(r.y, r.m, r.d).get_legal_holiday();
    if via_day.map(|x| x.to_string()) != Some(h.to_string()) {
      out.fail(env, viol("holiday", "get_legal_holiday", case, &k, desc.clone(), h.to_string(), "differs".into()));
    }
    // the compensated-festival offset points at a rest day of the table
    let t = ix as i64 + r.offset;
    let target = if t >= 0 && (t as usize) < NDAYS { Some(c.ymd(t as usize)) } else { None };
    let ok = target.map(|d| recs.iter().any(|x| (x.y, x.m, x.d) == d && !x.work)).unwrap_or(false);
    if !ok {
      out.fail(env, viol("holiday", "offset_does_not_point_at_a_rest_day", case, &k, desc.clone(), "a rest-day record".into(), format!("{:?}", target.map(fmt_ymd))));
    }
    // stepping walks the record list
    let q = p as i64 + n;
    let exp = if q >= 0 && (q as usize) < recs.len() { Some((recs[q as usize].y, recs[q as usize].m, recs[q as usize].d)) } else { None };
    // ... and the record reached by stepping is the record itself (name, work flag, text), not just its date
    if let (Some(_), Ok(Some((txt, work, name)))) = (exp, guard(|| h.next(n as isize).map(|x| (x.to_string(), x.is_work(), x.get_name())))) {
      let rq = &recs[q as usize];
      let by_date = guard(|| tyme4rs::tyme::holiday::LegalHoliday::from_ymd(rq.y as isize, rq.m as usize, rq.d as usize).map(|x| x.to_string())).ok().flatten();
      if work != rq.work || name != LEGAL_HOLIDAY_NAMES[rq.name] || Some(txt.clone()) != by_date {
        out.fail(env, viol("holiday", "stepped_record_fields", case, &k, format!("{} .next({})", desc, n), format!("{:?} work={} {}", by_date, rq.work, LEGAL_HOLIDAY_NAMES[rq.name]), format!("{} work={} {}", txt, work, name)));
      }
    }
    match guard(|| h.next(n as isize).map(|x| ymd(&x.get_day()))) {
      Ok(g) => {
        if g != exp {
          out.fail(env, viol("holiday", "next_n", case, &k, format!("{} .next({})", desc, n), format!("{:?}", exp.map(fmt_ymd)), format!("{:?}", g.map(fmt_ymd))));
        }
      }
      Err(e) => {
        out.fail(env, viol("holiday", "next_n_panics", case, &k, format!("{} .next({})", desc, n), format!("{:?}", exp.map(fmt_ymd)), e));
      }
    }
  }

  /// a = [date index]: a date that is not in the table returns None
  fn eval_hdate(&self, env: &Env, out: &mut Out, case: &Case) {
    let c = cal();
    let i = case.a[0] as usize;
    let (y, m, d) = c.ymd(i);
    out.eval("hdate");
    let recs = holiday_records().unwrap_or_default();
    let inn = recs.iter().any(|x| (x.y, x.m, x.d) == (y, m, d));
    // dates whose digits also occur across a record boundary of the packed table are the interesting ones
    let digits = format!("{:04}{:02}{:02}", y, m, d);
    let straddle = LEGAL_HOLIDAY_DATA.match_indices(&digits).any(|(p, _)| p % 13 != 0);
    if straddle {
      out.nontrivial("hdate", &[i as i64]);
      out.class("date_digits_occur_across_a_record_boundary");
    }
    let g = guard(|| LegalHoliday::from_ymd(y as isize, m as usize, d as usize).is_some());
    match g {
      Ok(b) => {
        if b != inn {
          out.fail(env, viol("hdate", "membership", case, &[("y", y), ("m", m), ("d", d)], c.fmt(i), format!("{}", if inn { "a record" } else { "None (not in the table)" }), format!("{}", if b { "a record" } else { "None" })));
        }
      }
      Err(e) => {
        out.fail(env, viol("hdate", "lookup_panics", case, &[("y", y), ("m", m), ("d", d)], c.fmt(i), format!("{}", inn), e));
      }
    }
  }
}

impl Prop for C20 {
  fn id(&self) -> &'static str {
    "C20"
  }
  fn meta(&self, env: &Env) -> Meta {
    Meta {
      rule: format!("Generators: `sdate` every civil date 1900..2100 against an own 10-row (name, month, day, founding year) table; `sindex` every (year 1900..2100, index 0..9, n in -40..40 step grid): from_index existence/fields, index<->date round trip, next(n) == n places along the (year, index) list (None before the founding year); `lindex` every (lunar year {}, index 0..12) x n in {{-14,-13,-1,0,1,12,13,27}}: festival day == fixed date / lunar date of the Qingming resp. December-solstice term day / last day (29 or 30) of the lunar year, the day's own lookup returns it or an earlier-listed festival on the same day, next(n) carries years; `ldate` every lunar date of lunar years {}: lookup is Some exactly on those days and returns the earliest-listed festival; `holiday` all 821 records of the public packed table x n in {{0,+-1,+-2,+-7,+-30,+-400,to both ends and one past}}: real date, strictly increasing, returned for its date with the right name/work flag, offset points at a rest-day record, next(n) walks the record list; `hdate` every civil date 2000..2030: Some <=> the date is a record. Non-trivial: festival days; term/eve festivals; records; dates whose digits also occur across a record boundary of the packed table.", env.tier.pick("1..9998 step 7 plus 1850..2150", "1..9998"), env.tier.pick("1900..2100", "1900..2100 and every 25th other year")),
      assumptions: vec![
        "Civil and lunar festival lists are second transcriptions (names, dates, founding years); term days are the library's own".into(),
        "Legal holidays: the oracle parses the public LEGAL_HOLIDAY_DATA into 13-character records itself; 'rest day' = a record with work flag 1".into(),
      ],
      level_text: String::new(),
    }
  }
  fn plan(&self, _env: &Env) -> Vec<TaskSpec> {
    vec![task("solar", 4), task("lunar", 16), task("ldate", 8), task("holiday", 4)]
  }
  fn run(&self, env: &Env, t: &str, shard: usize, nshards: usize, out: &mut Out) {
    let ev = |e: &Env, o: &mut Out, s: &str, cs: &Case| self.eval(e, o, s, cs);
    let c = cal();
    match t {
      "solar" => {
        // route equivalence of the objects this property reads (see routes.rs)
        prop_run(env, out, "routes", env.tier.pick(1600, 64000) / nshards as u32, 8800 + shard as u64, crate::routes::date_strategy(), &ev);
        out.set_exhaustive("routes", false);
        let lo = c.year_start[1900] as usize;
        let hi = c.year_start[2101] as usize;
        let (a, b) = shard_range(hi - lo, shard, nshards);
        for i in lo + a..lo + b {
          run_case(env, out, "sdate", &Case::ints(&[i as i64]), &ev);
        }
        for y in 1900..=2100i64 {
          if y as usize % nshards != shard {
            continue;
          }
          for ix in 0..10 {
            for n in [-40i64, -21, -11, -10, -9, -1, 0, 1, 3, 9, 10, 11, 25, 40] {
              run_case(env, out, "sindex", &Case::ints(&[y, ix, n]), &ev);
            }
          }
          run_case(env, out, "sindex", &Case::ints(&[y, 10, 0]), &ev);
        }
        out.set_exhaustive("sdate", true);
        out.set_exhaustive("sindex", true);
      }
      "lunar" => {
        let (ylo, yhi) = shard_range(9998, shard, nshards);
        ensure(ylo as i64, yhi as i64 + 2);
        for y in ylo as i64 + 1..=yhi as i64 {
          if !(env.tier == Tier::Thorough || y % 7 == (env.seed % 7) as i64 || (1850..=2150).contains(&y) || SPECIAL_YEARS.contains(&y)) {
            continue;
          }
          for ix in 0..13 {
            for n in [0i64, 1, -1, 12, 13, -13, -14, 27] {
              if n != 0 && n != 1 && !(y % 3 == 0) {
                continue;
              }
              run_case(env, out, "lindex", &Case::ints(&[y, ix, n]), &ev);
            }
          }
        }
        out.set_exhaustive("lindex", env.tier == Tier::Thorough);
      }
      "ldate" => {
        let l = lunlist();
        let mut years: Vec<i64> = (1900..=2100).collect();
        if env.tier == Tier::Thorough {
          years.extend((1..=9998).filter(|y| y % 25 == 0 && !(1900..=2100).contains(y)));
        }
        years.extend([8, 9, 19, 23, 24, 25, 236, 237, 239, 240].iter());
        let mut rev = Reverse::new(3);
        for (j, y) in years.iter().enumerate() {
          if j % nshards != shard {
            continue;
          }
          for m in l.months_of(*y) {
            let dc = LunarMonth::from_ym(*y as isize, m as isize).get_day_count() as i64;
            for d in 1..=dc {
              run_case(env, out, "ldate", &Case::ints(&[*y, m, d]), &ev);
              rev.note("ldate", &Case::ints(&[*y, m, d]));
            }
          }
        }
        rev.run(env, out, &ev);
        out.set_exhaustive("ldate", false);
      }
      "holiday" => {
        let nrec = holiday_records().map(|r| r.len()).unwrap_or(1);
        for p in 0..nrec {
          if p % nshards != shard {
            continue;
          }
          for n in [0i64, 1, -1, 2, -2, 7, -7, 30, -30, 400, -400, (nrec - 1 - p) as i64, (nrec - p) as i64, -(p as i64), -(p as i64) - 1] {
            run_case(env, out, "holiday", &Case::ints(&[p as i64, n]), &ev);
          }
        }
        let lo = c.year_start[2000] as usize;
        let hi = c.year_start[2031] as usize;
        let (a, b) = shard_range(hi - lo, shard, nshards);
        for i in lo + a..lo + b {
          run_case(env, out, "hdate", &Case::ints(&[i as i64]), &ev);
        }
        out.set_exhaustive("holiday", true);
        out.set_exhaustive("hdate", true);
      }
      _ => panic!("unknown task {}", t),
    }
  }
  fn cold_subs(&self) -> Vec<(&'static str, i64, i64, fn(i64) -> Vec<i64>)> {
    let c = cal();
    let (h0, h1) = (c.index(2000, 1, 1).unwrap() as i64, c.index(2030, 12, 31).unwrap() as i64 + 1);
    vec![("sdate", 0, NDAYS as i64, |x| vec![x]), ("hdate", h0, h1, |x| vec![x])]
  }
  fn eval(&self, env: &Env, out: &mut Out, sub: &str, case: &Case) {
    match sub {
      "sdate" => self.eval_sdate(env, out, case),
      "sindex" => self.eval_sindex(env, out, case),
      "lindex" => self.eval_lindex(env, out, case),
      "ldate" => self.eval_ldate(env, out, case),
      "holiday" => self.eval_holiday(env, out, case),
      "hdate" => self.eval_hdate(env, out, case),
      "routes" => crate::routes::compare_day_routes(env, out, "routes", case, (case.a[0].clamp(0, crate::model::NDAYS as i64 - 1)) as usize, &crate::routes::fields_c20),
      _ => panic!("unknown sub-check {}", sub),
    }
  }
}
