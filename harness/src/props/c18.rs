//! C18 Almanac lookup tables are total and well-formed for every pillar pair

use crate::adapt::*;
use crate::engine::*;
use crate::model::*;
use proptest::prelude::*;
use serde_json::json;
use tyme4rs::tyme::culture::{God, KitchenGodSteed, Taboo, GOD_NAMES, NUMBERS, TABOO_NAMES};
use tyme4rs::tyme::lunar::{LunarDay, LunarYear};
use tyme4rs::tyme::sixtycycle::SixtyCycle;
use tyme4rs::tyme::solar::SolarTime;
use tyme4rs::tyme::Culture;

pub struct C18;

fn viol(sub: &str, kind: &str, case: &Case, k: &[(&str, i64)], desc: String, expected: String, got: String) -> Viol {
  Viol { sub: sub.into(), kind: kind.into(), case: case.clone(), key: key(k), desc, expected, got }
}

/// independent decoder of a run of 2-hex-digit indices
fn hex_pairs(s: &str) -> Result<Vec<usize>, String> {
  if s.len() % 2 != 0 {
    return Err(format!("odd length {}", s.len()));
  }
  let b = s.as_bytes();
  let mut v = vec![];
  for i in (0..b.len()).step_by(2) {
    let h = |c: u8| -> Result<usize, String> {
      match c {
        b'0'..=b'9' => Ok((c - b'0') as usize),
        b'A'..=b'F' => Ok((c - b'A') as usize + 10),
        b'a'..=b'f' => Ok((c - b'a') as usize + 10),
        _ => Err(format!("non-hex character {:?}", c as char)),
      }
    };
    v.push(h(b[i])? * 16 + h(b[i + 1])?);
  }
  Ok(v)
}

impl C18 {
  /// a = [month branch 0..11, day pillar 0..59]
  fn eval_day_cell(&self, env: &Env, out: &mut Out, case: &Case) {
    let (mb, dp) = (case.a[0], case.a[1]);
    out.eval("day_cell");
    out.nontrivial("day_cell", &[mb, dp]);
    let k = [("mb", mb), ("dp", dp)];
    let desc = format!("month branch {} day pillar {}", BRANCHES[mb as usize], pillar_name(dp));
    let month = SixtyCycle::from_index(mb as isize);
    let day = SixtyCycle::from_index(dp as isize);
    let (raw_gods, raw_taboo, _) = tyme4rs::tyme::culture::verif_raw_tables();
    // API
    let gods = match guard(|| God::get_day_gods(month.clone(), day.clone())) {
      Ok(g) => g,
      Err(e) => {
        out.fail(env, viol("day_cell", "gods_panic", case, &k, desc.clone(), "a list of spirits".into(), e));
        return;
      }
    };
    if gods.is_empty() {
      out.fail(env, viol("day_cell", "no_spirit", case, &k, desc.clone(), ">= 1 spirit".into(), "0".into()));
    }
    for g in &gods {
      let name = g.get_name();
      let idx = g.get_index();
      if idx >= GOD_NAMES.len() || GOD_NAMES[idx] != name {
        out.fail(env, viol("day_cell", "spirit_name", case, &k, desc.clone(), "an entry of GOD_NAMES".into(), format!("{} #{}", name, idx)));
      }
      if (g.get_luck().get_index() == 0) != (idx < 60) {
        out.fail(env, viol("day_cell", "spirit_luck", case, &k, desc.clone(), format!("{} -> {}", name, if idx < 60 { "吉" } else { "凶" }), g.get_luck().get_name()));
      }
    }
    // raw record found by an independent decoder
    let table = raw_gods[((mb - 2).rem_euclid(12)) as usize];
    let recs: Vec<&str> = table.split(';').filter(|r| !r.is_empty()).collect();
    if recs.len() != 60 {
      out.fail(env, viol("day_cell", "raw_gods_record_count", case, &k, desc.clone(), "60 records".into(), recs.len().to_string()));
    }
    let tag = format!("{:02X}", dp);
    let mine: Vec<&&str> = recs.iter().filter(|r| r.len() >= 2 && r[..2].eq_ignore_ascii_case(&tag)).collect();
    if mine.len() != 1 {
      out.fail(env, viol("day_cell", "raw_gods_record_missing_or_duplicated", case, &k, desc.clone(), format!("exactly one record tagged {}", tag), mine.len().to_string()));
    } else {
      match hex_pairs(&mine[0][2..]) {
        Ok(ix) => {
          if ix.iter().any(|&x| x >= GOD_NAMES.len()) {
            out.fail(env, viol("day_cell", "raw_spirit_index_out_of_range", case, &k, desc.clone(), format!("< {}", GOD_NAMES.len()), format!("{:?}", ix)));
          }
          let api: Vec<usize> = gods.iter().map(|g| g.get_index()).collect();
          if api != ix {
            out.fail(env, viol("day_cell", "spirits_api_vs_raw", case, &k, desc.clone(), format!("{:?}", ix), format!("{:?}", api)));
          }
        }
        Err(e) => {
          out.fail(env, viol("day_cell", "raw_gods_malformed", case, &k, desc.clone(), "hex pairs".into(), e));
        }
      }
    }
    // activities
    let rec = guard(|| (Taboo::get_day_recommends(month.clone(), day.clone()), Taboo::get_day_avoids(month.clone(), day.clone())));
    let (r, a) = match rec {
      Ok(x) => x,
      Err(e) => {
        out.fail(env, viol("day_cell", "taboo_panic", case, &k, desc.clone(), "recommend/avoid lists".into(), e));
        return;
      }
    };
    self.check_taboo(env, out, "day_cell", case, &k, &desc, &r, &a, raw_taboo[mb as usize], dp as usize);
    if out.wants_sample("day_cell", true) {
      out.sample("day_cell", true, || json!({"month_branch": BRANCHES[mb as usize], "day": pillar_name(dp), "spirits": gods.iter().map(|g| g.get_name()).collect::<Vec<_>>(), "recommends": r.len(), "avoids": a.len()}));
    }
  }

  fn check_taboo(&self, env: &Env, out: &mut Out, sub: &str, case: &Case, k: &[(&str, i64)], desc: &str, r: &[Taboo], a: &[Taboo], table: &str, sub_index: usize) {
    for t in r.iter().chain(a.iter()) {
      let idx = t.get_index();
      if idx >= TABOO_NAMES.len() || TABOO_NAMES[idx] != t.get_name() {
        out.fail(env, viol(sub, "activity_name", case, k, desc.into(), "an entry of TABOO_NAMES".into(), format!("{} #{}", t.get_name(), idx)));
      }
    }
    let both: Vec<String> = r.iter().filter(|x| a.iter().any(|y| y.get_index() == x.get_index())).map(|x| x.get_name()).collect();
    if !both.is_empty() {
      out.fail(env, viol(sub, "recommended_and_avoided", case, k, desc.into(), "disjoint lists".into(), format!("{:?}", both)));
    }
    if r.is_empty() {
      out.class("cell_with_empty_recommend_list");
    }
    if a.is_empty() {
      out.class("cell_with_empty_avoid_list");
    }
    let mut recs: Vec<&str> = table.split(';').collect();
    if recs.last() == Some(&"") {
      // the day table ends with a terminating ';'
      recs.pop();
    }
    if recs.len() != 60 {
      out.fail(env, viol(sub, "raw_taboo_record_count", case, k, desc.into(), "60 records".into(), recs.len().to_string()));
      return;
    }
    let parts: Vec<&str> = recs[sub_index].split(',').collect();
    if parts.len() != 2 {
      out.fail(env, viol(sub, "raw_taboo_record_shape", case, k, desc.into(), "recommend,avoid".into(), recs[sub_index].to_string()));
      return;
    }
    for (which, (part, api)) in [(parts[0], r), (parts[1], a)].iter().enumerate() {
      match hex_pairs(part) {
        Ok(ix) => {
          if ix.iter().any(|&x| x >= TABOO_NAMES.len()) {
            out.fail(env, viol(sub, "raw_activity_index_out_of_range", case, k, desc.into(), format!("< {}", TABOO_NAMES.len()), format!("{:?}", ix)));
          }
          let got: Vec<usize> = api.iter().map(|t| t.get_index()).collect();
          if got != ix {
            out.fail(env, viol(sub, "activities_api_vs_raw", case, k, format!("{} ({})", desc, if which == 0 { "recommends" } else { "avoids" }), format!("{:?}", ix), format!("{:?}", got)));
          }
        }
        Err(e) => {
          out.fail(env, viol(sub, "raw_taboo_malformed", case, k, desc.into(), "hex pairs".into(), e));
        }
      }
    }
  }

  /// a = [day pillar 0..59, hour branch 0..11]
  fn eval_hour_cell(&self, env: &Env, out: &mut Out, case: &Case) {
    let (dp, hb) = (case.a[0], case.a[1]);
    out.eval("hour_cell");
    out.nontrivial("hour_cell", &[dp, hb]);
    let k = [("dp", dp), ("hb", hb)];
    let desc = format!("day pillar {} hour branch {}", pillar_name(dp), BRANCHES[hb as usize]);
    let day = SixtyCycle::from_index(dp as isize);
    let hour = SixtyCycle::from_index(hb as isize);
    let (_, _, raw_hour) = tyme4rs::tyme::culture::verif_raw_tables();
    match guard(|| (Taboo::get_hour_recommends(day.clone(), hour.clone()), Taboo::get_hour_avoids(day.clone(), hour.clone()))) {
      Ok((r, a)) => {
        self.check_taboo(env, out, "hour_cell", case, &k, &desc, &r, &a, raw_hour[hb as usize], dp as usize);
        if out.wants_sample("hour_cell", true) {
          out.sample("hour_cell", true, || json!({"day": pillar_name(dp), "hour_branch": BRANCHES[hb as usize], "recommends": r.iter().map(|t| t.get_name()).collect::<Vec<_>>(), "avoids": a.iter().map(|t| t.get_name()).collect::<Vec<_>>()}));
        }
      }
      Err(e) => {
        out.fail(env, viol("hour_cell", "taboo_panic", case, &k, desc, "recommend/avoid lists".into(), e));
      }
    }
  }

  /// a = [spirit index]
  fn eval_god(&self, env: &Env, out: &mut Out, case: &Case) {
    let i = case.a[0];
    out.eval("god");
    out.nontrivial("god", &[i]);
    let g = God::from_index(i as isize);
    if g.get_index() as i64 != i || (g.get_luck().get_index() == 0) != (i < 60) || g.get_luck().get_name() != if i < 60 { "吉" } else { "凶" } {
      out.fail(env, viol("god", "luck_class", case, &[("god", i)], format!("spirit #{} {}", i, g.get_name()), if i < 60 { "吉" } else { "凶" }.into(), g.get_luck().get_name()));
    }
    // a spirit reached by stepping or by name is classed like the spirit it is
    {
      use tyme4rs::tyme::Tyme;
      let size = 151i64;
      for n in [1i64, -1, 59, 60, 61, 75, -75, 150, -150, 151] {
        let j = (i + n).rem_euclid(size);
        let s = g.next(n as isize);
        if s.get_index() as i64 != j || s.get_luck().get_name() != if j < 60 { "吉" } else { "凶" } {
          out.fail(env, viol("god", "luck_class_of_stepped_spirit", case, &[("god", i), ("n", n)], format!("spirit #{} {} .next({})", i, g.get_name(), n), format!("#{} {}", j, if j < 60 { "吉" } else { "凶" }), format!("#{} {} {}", s.get_index(), s.get_name(), s.get_luck().get_name())));
          break;
        }
      }
      let byname = God::from_name(&g.get_name());
      if byname.get_index() as i64 != i || byname.get_luck().get_name() != g.get_luck().get_name() {
        out.fail(env, viol("god", "luck_class_of_spirit_by_name", case, &[("god", i)], format!("God::from_name({})", g.get_name()), format!("#{} {}", i, g.get_luck().get_name()), format!("#{} {}", byname.get_index(), byname.get_luck().get_name())));
      }
    }
  }

  /// a = [lunar year]: kitchen-god attributes
  fn eval_kitchen(&self, env: &Env, out: &mut Out, case: &Case) {
    let y = case.a[0];
    out.eval("kitchen");
    out.nontrivial("kitchen", &[y]);
    let k = [("ly", y)];
    let r = guard(|| {
      let s = LunarYear::from_year(y as isize).get_kitchen_god_steed();
      let p = LunarDay::from_ymd(y as isize, 1, 1).get_sixty_cycle().get_index() as i64;
      (p, vec![s.get_mouse(), s.get_grass(), s.get_cattle(), s.get_flower(), s.get_dragon(), s.get_horse(), s.get_chicken(), s.get_silkworm(), s.get_pig(), s.get_field(), s.get_cake(), s.get_gold(), s.get_people_cakes(), s.get_people_hoes()])
    });
    let (p, got) = match r {
      Ok(x) => x,
      Err(e) => {
        out.fail(env, viol("kitchen", "panics", case, &k, format!("LunarYear({}).get_kitchen_god_steed()", y), "attributes with numerals 一..十二".into(), e));
        return;
      }
    };
    let (st, br) = (p % 10, p % 12);
    let nb = |n: i64| NUMBERS[((n - br).rem_euclid(12)) as usize];
    let ns = |n: i64| NUMBERS[((n - st).rem_euclid(10)) as usize];
    let exp = vec![
      format!("{}鼠偷粮", nb(0)),
      format!("草子{}分", nb(0)),
      format!("{}牛耕田", nb(1)),
      format!("花收{}分", nb(3)),
      format!("{}龙治水", nb(4)),
      format!("{}马驮谷", nb(6)),
      format!("{}鸡抢米", nb(9)),
      format!("{}姑看蚕", nb(9)),
      format!("{}屠共猪", nb(11)),
      format!("甲田{}分", ns(0)),
      format!("{}人分饼", ns(2)),
      format!("{}日得金", ns(7)),
      format!("{}人{}丙", nb(2), ns(2)),
      format!("{}人{}锄", nb(2), ns(3)),
    ];
    if out.wants_sample("kitchen", true) {
      out.sample("kitchen", true, || json!({"lunar_year": y, "new_year_day_pillar": pillar_name(p), "attributes": got}));
    }
    if got != exp {
      out.fail(env, viol("kitchen", "attributes", case, &k, format!("lunar year {} (new-year day {})", y, pillar_name(p)), format!("{:?}", exp), format!("{:?}", got)));
    }
    // every numeral is one of 一..十二
    for g in &got {
      let has = NUMBERS.iter().any(|n| g.contains(n));
      if !has {
        out.fail(env, viol("kitchen", "numeral_out_of_range", case, &k, format!("lunar year {}", y), "a numeral 一..十二".into(), g.clone()));
      }
    }
  }

  /// a = [date index, hour]: the object-level getters agree with the table cells of their pillars
  fn eval_object(&self, env: &Env, out: &mut Out, case: &Case) {
    let c = cal();
    let i = case.a[0] as usize;
    let h = case.a[1].clamp(0, 23);
    let (y, m, d) = c.ymd(i);
    out.eval("object");
    let k = [("jdn", c.jdn(i)), ("h", h)];
    let names = |v: Vec<Taboo>| v.iter().map(|t| t.get_index()).collect::<Vec<_>>();
    let r = guard(|| {
      let t = SolarTime::from_ymd_hms(y as isize, m as usize, d as usize, h as usize, 0, 0);
      let sh = t.get_sixty_cycle_hour();
      let lh = t.get_lunar_hour();
      let sd = t.get_solar_day().get_sixty_cycle_day();
      let ld = t.get_solar_day().get_lunar_day();
      let (mp, dp, hp, dph) = (sd.get_month(), sd.get_sixty_cycle(), sh.get_sixty_cycle(), sh.get_day());
      let ok_day = sd.get_gods().iter().map(|g| g.get_index()).collect::<Vec<_>>() == God::get_day_gods(mp.clone(), dp.clone()).iter().map(|g| g.get_index()).collect::<Vec<_>>()
        && names(sd.get_recommends()) == names(Taboo::get_day_recommends(mp.clone(), dp.clone()))
        && names(sd.get_avoids()) == names(Taboo::get_day_avoids(mp.clone(), dp.clone()))
        && names(ld.get_recommends()) == names(sd.get_recommends())
        && names(ld.get_avoids()) == names(sd.get_avoids())
        && ld.get_gods().len() == sd.get_gods().len();
      let ok_hour = names(sh.get_recommends()) == names(Taboo::get_hour_recommends(dph.clone(), hp.clone())) && names(sh.get_avoids()) == names(Taboo::get_hour_avoids(dph.clone(), hp.clone())) && names(lh.get_recommends()) == names(sh.get_recommends()) && names(lh.get_avoids()) == names(sh.get_avoids());
      (ok_day, ok_hour, !sd.get_gods().is_empty())
    });
    if h == 23 {
      out.nontrivial("object", &[i as i64, h]);
    }
    match r {
      Ok((a, b, g)) => {
        if !a || !b || !g {
          out.fail(env, viol("object", "getters_vs_table", case, &k, format!("{} {:02}:00", c.fmt(i), h), "object getters == table cell of their pillars, >= 1 spirit".into(), format!("day ok {} hour ok {} has spirit {}", a, b, g)));
        }
      }
      Err(e) => {
        out.fail(env, viol("object", "panics", case, &k, format!("{} {:02}:00", c.fmt(i), h), "lists".into(), e));
      }
    }
  }
}

#[allow(dead_code)]
fn _u(_: KitchenGodSteed) {}

impl Prop for C18 {
  fn id(&self) -> &'static str {
    "C18"
  }
  fn meta(&self, _env: &Env) -> Meta {
    Meta {
      rule: "Finite spaces enumerated completely in both tiers: `day_cell` all 12 month branches x 60 day pillars (spirits: no panic, >= 1, names in GOD_NAMES, luck == index < 60; activities: names in TABOO_NAMES, recommends and avoids disjoint; raw table via the guarded hook decoded by an independent splitter: 60 records per month, exactly one record per day tag, hex pairs only, every index in range, no duplicate, and identical to what the API returned); `hour_cell` all 60 day pillars x 12 hour branches likewise; `god` all 151 spirits; `kitchen` every lunar year 0..9999: all 14 attributes equal the values recomputed from the new-year day pillar and contain a numeral 一..十二. Plus `object`: proptest (date, hour): get_gods/get_recommends/get_avoids of SixtyCycleDay, LunarDay, SixtyCycleHour, LunarHour equal the table cell of their own pillars. Every cell is a distinct non-trivial case; cells with an empty list are counted as classes.".into(),
      assumptions: vec![
        "Raw tables are read through the verif-hooks accessor; the API wraps an out-of-range index modulo the list length and would hide it".into(),
        "Kitchen-god numerals are recomputed from the pillar of the lunar new-year day (first day of month 1)".into(),
      ],
      level_text: String::new(),
    }
  }
  fn plan(&self, _env: &Env) -> Vec<TaskSpec> {
    vec![task("cells", 4), task("kitchen", 8), task("object", 8)]
  }
  fn run(&self, env: &Env, t: &str, shard: usize, nshards: usize, out: &mut Out) {
    let ev = |e: &Env, o: &mut Out, s: &str, cs: &Case| self.eval(e, o, s, cs);
    match t {
      "cells" => {
        let mut rev = Reverse::new(1);
        for mb in 0..12i64 {
          if mb as usize % nshards != shard {
            continue;
          }
          for dp in 0..60 {
            run_case(env, out, "day_cell", &Case::ints(&[mb, dp]), &ev);
            rev.note("day_cell", &Case::ints(&[mb, dp]));
          }
          for dp in 0..60 {
            run_case(env, out, "hour_cell", &Case::ints(&[dp, mb]), &ev);
            rev.note("hour_cell", &Case::ints(&[dp, mb]));
          }
        }
        rev.run(env, out, &ev);
        if shard == 0 {
          for g in 0..GOD_NAMES.len() as i64 {
            run_case(env, out, "god", &Case::ints(&[g]), &ev);
          }
        }
        out.set_exhaustive("day_cell", true);
        out.set_exhaustive("hour_cell", true);
        out.set_exhaustive("god", true);
      }
      "kitchen" => {
        let (lo, hi) = shard_range(10000, shard, nshards);
        for y in lo as i64..hi as i64 {
          run_case(env, out, "kitchen", &Case::ints(&[y]), &ev);
        }
        if shard == 0 {
          run_case(env, out, "kitchen", &Case::ints(&[-1]), &ev);
        }
        out.set_exhaustive("kitchen", true);
      }
      "object" => {
        // route equivalence of the objects this property reads (see routes.rs)
        prop_run(env, out, "routes", env.tier.pick(1600, 64000) / nshards as u32, 8800 + shard as u64, crate::routes::date_strategy(), &ev);
        out.set_exhaustive("routes", false);
        prop_run(env, out, "hroutes", env.tier.pick(1600, 64000) / nshards as u32, 8900 + shard as u64, crate::routes::hour_strategy(), &ev);
        out.set_exhaustive("hroutes", false);
        // strided walks on fresh threads (see engine::stride_walks)
        stride_walks(env, out, "object", env.tier.pick(800, 24000) / nshards as u32, 7000 + shard as u64, 0, (crate::model::NDAYS as i64) - 366, 800, &|x| vec![x, (x * 5).rem_euclid(24)], &ev);
        if shard == 0 {
          // witness of the known AD 24 hole finding, and the days around it
          for (y, m, d) in [(24i64, 1i64, 29i64), (24, 1, 30), (24, 2, 28), (24, 2, 29)] {
            let ix = cal().index(y, m, d).unwrap() as i64;
            for h in [0i64, 23] {
              run_case(env, out, "object", &Case::ints(&[ix, h]), &ev);
            }
          }
        }
        if shard == 0 {
          // every hour of the first two and the last two supported days (the 23:00 hour of the last day has no next day)
          let nd = crate::model::NDAYS as i64;
          for ix in [0i64, 1, nd - 2, nd - 1] {
            for h in 0..24i64 {
              out.class("hours_of_the_first_and_last_supported_days");
              run_case(env, out, "object", &Case::ints(&[ix, h]), &ev);
            }
          }
        }
        let total: u32 = env.tier.pick(8_000, 160_000);
        let hi_idx = cal().year_start[9999] as i64;
        prop_run(env, out, "object", total / nshards as u32, shard as u64, (0..hi_idx, 0i64..24).prop_map(|(i, h)| Case::ints(&[i, h])), &ev);
        out.set_exhaustive("object", false);
      }
      _ => panic!("unknown task {}", t),
    }
  }
  fn cold_subs(&self) -> Vec<(&'static str, i64, i64, fn(i64) -> Vec<i64>)> {
    vec![("object", 0, crate::model::NDAYS as i64 - 366, |x| vec![x, (x * 5).rem_euclid(24)])]
  }
  fn eval(&self, env: &Env, out: &mut Out, sub: &str, case: &Case) {
    match sub {
      "day_cell" => self.eval_day_cell(env, out, case),
      "hour_cell" => self.eval_hour_cell(env, out, case),
      "god" => self.eval_god(env, out, case),
      "kitchen" => self.eval_kitchen(env, out, case),
      "object" => self.eval_object(env, out, case),
      "routes" => crate::routes::compare_day_routes(env, out, "routes", case, (case.a[0].clamp(0, crate::model::NDAYS as i64 - 1)) as usize, &crate::routes::fields_c18),
      "hroutes" => crate::routes::compare_hour_routes(env, out, "hroutes", case, (case.a[0].clamp(0, crate::model::NDAYS as i64 - 1)) as usize, case.a.get(1).cloned().unwrap_or(10), &crate::routes::hour_fields_c18),
      _ => panic!("unknown sub-check {}", sub),
    }
  }
}
