pub mod c01;
pub mod c02;
pub mod c03;
pub mod c04;
pub mod c05;
pub mod c06;
pub mod c07;
pub mod c08;
pub mod c09;
pub mod c10;
pub mod c11;
pub mod c12;
pub mod c13;
pub mod c14;
pub mod c15;
pub mod c16;
pub mod c17;
pub mod c18;
pub mod c19;
pub mod c20;

use crate::engine::Prop;

pub fn get(id: &str) -> Option<Box<dyn Prop>> {
  let _ = crate::engine::NOISE.set(c10::noise_step);
  match id {
    "C01" => Some(Box::new(c01::C01)),
    "C02" => Some(Box::new(c02::C02)),
    "C03" => Some(Box::new(c03::C03)),
    "C04" => Some(Box::new(c04::C04)),
    "C05" => Some(Box::new(c05::C05)),
    "C06" => Some(Box::new(c06::C06)),
    "C07" => Some(Box::new(c07::C07)),
    "C08" => Some(Box::new(c08::C08)),
    "C09" => Some(Box::new(c09::C09)),
    "C10" => Some(Box::new(c10::C10)),
    "C11" => Some(Box::new(c11::C11)),
    "C12" => Some(Box::new(c12::C12)),
    "C13" => Some(Box::new(c13::C13)),
    "C14" => Some(Box::new(c14::C14)),
    "C15" => Some(Box::new(c15::C15)),
    "C16" => Some(Box::new(c16::C16)),
    "C17" => Some(Box::new(c17::C17)),
    "C18" => Some(Box::new(c18::C18)),
    "C19" => Some(Box::new(c19::C19)),
    "C20" => Some(Box::new(c20::C20)),
    _ => None,
  }
}

pub const ALL: [&str; 2] = ["C01", "C10"];
