pub mod c01;

use crate::engine::Prop;

pub fn get(id: &str) -> Option<Box<dyn Prop>> {
  match id {
    "C01" => Some(Box::new(c01::C01)),
    _ => None,
  }
}

pub const ALL: [&str; 1] = ["C01"];
