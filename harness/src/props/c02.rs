//! C02 Solar<->lunar conversion is a bijection that preserves order

use crate::adapt::*;
use crate::engine::*;
use crate::lunmodel::*;
use crate::model::*;
use proptest::prelude::*;
use serde_json::json;
use tyme4rs::tyme::lunar::{LunarDay, LunarMonth};
use tyme4rs::tyme::Tyme;

pub struct C02;

fn viol(sub: &str, kind: &str, case: &Case, k: &[(&str, i64)], desc: String, expected: String, got: String) -> Viol {
  Viol { sub: sub.into(), kind: kind.into(), case: case.clone(), key: key(k), desc, expected, got }
}

fn lfmt(t: (i64, i64, i64)) -> String {
  format!("L({},{},{})", t.0, t.1, t.2)
}

/// lunar date of civil date index i as the library reports it: (y, m, d, month length, first jdn of the month)
fn lunar_of(i: usize) -> Result<(i64, i64, i64, i64, i64), String> {
  guard(|| {
    let l = sd_idx(cal(), i).get_lunar_day();
    let m = l.get_lunar_month();
    (l.get_year() as i64, l.get_month() as i64, l.get_day() as i64, m.get_day_count() as i64, lm_first_jdn(&m))
  })
}

fn lunar_new(y: i64, m: i64, d: i64) -> Result<LunarDay, String> {
  if d < 0 {
    return Err("negative day".into());
  }
  match guard(|| LunarDay::new(y as isize, m as isize, d as usize)) {
    Ok(Ok(x)) => Ok(x),
    Ok(Err(e)) => Err(e),
    Err(p) => Err(format!("panic: {}", p)),
  }
}

impl C02 {
  fn eval_s2l(&self, env: &Env, out: &mut Out, case: &Case) {
    let c = cal();
    let i = case.a[0] as usize;
    let (y, m, d) = c.ymd(i);
    let jdn = c.jdn(i);
    out.eval("s2l");
    let k = [("y", y), ("m", m), ("d", d), ("jdn", jdn)];
    let cur = match lunar_of(i) {
      Ok(x) => x,
      Err(e) => {
        out.fail(env, viol("s2l", "solar_to_lunar_panics", case, &k, c.fmt(i), "a lunar date".into(), e));
        return;
      }
    };
    let (ly, lm, ld, dc, first) = cur;
    let near_boundary = ld <= 2 || ld >= dc - 1;
    let leap_late = (0..=9999).contains(&ly) && lunlist().leap[ly as usize] >= 11;
    let nt = near_boundary || lm < 0 || leap_late;
    if nt {
      out.nontrivial("s2l", &[i as i64]);
    }
    if near_boundary {
      out.class("date_within_2_days_of_lunar_month_boundary");
    }
    if lm < 0 {
      out.class("date_in_leap_month");
    }
    if out.wants_sample("s2l", nt) {
      out.sample("s2l", nt, || json!({"civil": c.fmt(i), "lunar": [ly, lm, ld], "month_length": dc}));
    }
    // the lunar date is a valid one
    if ld < 1 || ld > dc {
      out.fail(env, viol("s2l", "lunar_day_outside_month", case, &k, c.fmt(i), format!("1..={}", dc), lfmt((ly, lm, ld))));
    }
    // and it denotes this very day: first day of its month + (day-1)
    if first + ld - 1 != jdn {
      out.fail(env, viol("s2l", "lunar_date_is_another_day", case, &k, c.fmt(i), format!("JDN {}", jdn), format!("{} = JDN {}", lfmt((ly, lm, ld)), first + ld - 1)));
    }
    // round trip
    match guard(|| ymd(&sd_idx(c, i).get_lunar_day().get_solar_day())) {
      Ok(back) => {
        if back != (y, m, d) {
          out.fail(env, viol("s2l", "round_trip", case, &k, format!("{} -> {}", c.fmt(i), lfmt((ly, lm, ld))), c.fmt(i), fmt_ymd(back)));
        }
      }
      Err(e) => {
        out.fail(env, viol("s2l", "round_trip_panics", case, &k, c.fmt(i), c.fmt(i), e));
      }
    }
    // successor relation with the previous civil day
    if i > 0 {
      match lunar_of(i - 1) {
        Ok((py, pm, pd, pdc, _)) => {
          let ok = if (py, pm) == (ly, lm) { ld == pd + 1 } else { ld == 1 && pd == pdc };
          if !ok {
            out.fail(env, viol("s2l", "successor", case, &k, format!("{} after {}", c.fmt(i), c.fmt(i - 1)), format!("day after {} (month length {})", lfmt((py, pm, pd)), pdc), lfmt((ly, lm, ld))));
          } else if (py, pm) != (ly, lm) {
            // the following month per the label model
            let l = lunlist();
            if let Some(p) = l.pos(py, pm) {
              if p + 1 < l.len() && l.at(p + 1) != (ly, lm) {
                out.fail(env, viol("s2l", "successor_month_label", case, &k, c.fmt(i), format!("{:?}", l.at(p + 1)), format!("({},{})", ly, lm)));
              }
            }
          }
        }
        Err(_) => out.skip("previous_day_has_no_lunar_date"),
      }
    }
  }

  fn eval_l2s(&self, env: &Env, out: &mut Out, case: &Case) {
    let c = cal();
    let (y, m, d) = (case.a[0], case.a[1], case.a[2]);
    out.eval("l2s");
    let l = lunlist();
    let k = [("ly", y), ("lm", m), ("ld", d)];
    // a huge day argument is refused like any other day beyond the month (it must not be narrowed into range first)
    if d >= 1 && d <= 30 && (y + m + d) % 7 == 0 {
      for big in [256i64, 65536, 4294967296] {
        out.class("huge_day_arguments");
        if let Ok(x) = lunar_new(y, m, d + big) {
          out.fail(env, viol("l2s", "invalid_lunar_day_accepted", case, &k, lfmt((y, m, d + big)), "refused".into(), format!("accepted as {}", lfmt(lymd(&x)))));
          break;
        }
      }
    }
    // LunarDay::new and the panicking LunarDay::from_ymd accept exactly the same triples
    if d >= 0 {
      let a = lunar_new(y, m, d).map(|x| lymd(&x));
      let b = guard(|| LunarDay::from_ymd(y as isize, m as isize, d as usize)).map(|x| lymd(&x));
      if a.is_ok() != b.is_ok() || (a.is_ok() && a.clone().ok() != b.clone().ok()) {
        out.fail(env, viol("l2s", "constructors_disagree", case, &k, lfmt((y, m, d)), format!("LunarDay::new -> {:?}", a.map(lfmt)), format!("LunarDay::from_ymd -> {:?}", b.map(lfmt))));
      }
    }
    let valid_month = l.pos(y, m).is_some();
    if !valid_month {
      // a month the calendar does not have must be refused
      out.class("l2s_invalid_month_candidate");
      if let Ok(x) = lunar_new(y, m, d) {
        out.fail(env, viol("l2s", "invalid_lunar_month_accepted", case, &k, lfmt((y, m, d)), "refused".into(), format!("accepted as {}", lfmt(lymd(&x)))));
      }
      return;
    }
    let mo = LunarMonth::from_ym(y as isize, m as isize);
    let dc = mo.get_day_count() as i64;
    let first = lm_first_jdn(&mo);
    let r = lunar_new(y, m, d);
    if d < 1 || d > dc {
      out.class("l2s_invalid_day_candidate");
      out.nontrivial("l2s", &[y, m, d]);
      if let Ok(x) = r {
        out.fail(env, viol("l2s", "invalid_lunar_day_accepted", case, &k, lfmt((y, m, d)), format!("refused (month has {} days)", dc), format!("accepted as {}", lfmt(lymd(&x)))));
      }
      return;
    }
    let ldv = match r {
      Ok(x) => x,
      Err(e) => {
        out.fail(env, viol("l2s", "valid_lunar_date_refused", case, &k, lfmt((y, m, d)), "accepted".into(), e));
        return;
      }
    };
    let nt = d == 1 || d == dc || m < 0 || l.leap[y as usize] >= 11;
    if nt {
      out.nontrivial("l2s", &[y, m, d]);
    }
    let jdn = first + d - 1;
    let idx = match c.index_of_jdn(jdn) {
      Some(i) => i,
      None => {
        out.skip("lunar_day_outside_civil_range_0001_9999");
        return;
      }
    };
    let s = match guard(|| ymd(&ldv.get_solar_day())) {
      Ok(s) => s,
      Err(e) => {
        out.fail(env, viol("l2s", "lunar_to_solar_panics", case, &k, lfmt((y, m, d)), c.fmt(idx), e));
        return;
      }
    };
    if out.wants_sample("l2s", nt) {
      out.sample("l2s", nt, || json!({"lunar": [y, m, d], "civil": fmt_ymd(s)}));
    }
    if s != c.ymd(idx) {
      out.fail(env, viol("l2s", "lunar_to_solar", case, &k, lfmt((y, m, d)), c.fmt(idx), fmt_ymd(s)));
      return;
    }
    match guard(|| lymd(&ldv.get_solar_day().get_lunar_day())) {
      Ok(back) => {
        if back != (y, m, d) {
          out.fail(env, viol("l2s", "round_trip", case, &k, format!("{} -> {}", lfmt((y, m, d)), c.fmt(idx)), lfmt((y, m, d)), lfmt(back)));
        }
      }
      Err(e) => {
        out.fail(env, viol("l2s", "round_trip_panics", case, &k, lfmt((y, m, d)), lfmt((y, m, d)), e));
      }
    }
  }

  fn eval_order(&self, env: &Env, out: &mut Out, case: &Case) {
    let (y1, m1, d1, y2, m2, d2) = (case.a[0], case.a[1], case.a[2], case.a[3], case.a[4], case.a[5]);
    let (a, b) = match (lunar_new(y1, m1, d1), lunar_new(y2, m2, d2)) {
      (Ok(a), Ok(b)) => (a, b),
      _ => {
        out.skip("order_pair_not_constructible");
        return;
      }
    };
    out.eval("order");
    let ja = lm_first_jdn(&a.get_lunar_month()) + d1 - 1;
    let jb = lm_first_jdn(&b.get_lunar_month()) + d2 - 1;
    let twin = y1 == y2 && m1 == -m2;
    if twin {
      out.class("order_pair_month_and_leap_twin");
    }
    let nt = twin || (y1, m1) != (y2, m2);
    if nt {
      out.nontrivial("order", &case.a);
    }
    if out.wants_sample("order", twin) {
      out.sample("order", twin, || json!({"a": [y1, m1, d1], "b": [y2, m2, d2], "a_jdn": ja, "b_jdn": jb}));
    }
    let swap = lunlist().pos(y1, m1) > lunlist().pos(y2, m2);
    let (loy, lom, hiy, him) = if swap { (y2, m2, y1, m1) } else { (y1, m1, y2, m2) };
    let k = [("ly", y1), ("lm", m1), ("ld", d1), ("ly2", y2), ("lm2", m2), ("ld2", d2), ("twin", twin as i64), ("lo_ly", loy), ("lo_lm", lom), ("hi_ly", hiy), ("hi_lm", him)];
    let (bef, aft) = (a.is_before(b.clone()), a.is_after(b.clone()));
    if bef != (ja < jb) || aft != (ja > jb) {
      let kind = if twin { "leap_twin_order" } else { "order" };
      out.fail(env, viol("order", kind, case, &k, format!("{} vs {}", lfmt((y1, m1, d1)), lfmt((y2, m2, d2))), format!("is_before={} is_after={} (days {} vs {})", ja < jb, ja > jb, ja, jb), format!("is_before={} is_after={}", bef, aft)));
    }
    if (a == b) != ((y1, m1, d1) == (y2, m2, d2)) {
      out.fail(env, viol("order", "eq", case, &k, format!("{} vs {}", lfmt((y1, m1, d1)), lfmt((y2, m2, d2))), ((y1, m1, d1) == (y2, m2, d2)).to_string(), (a == b).to_string()));
    }
  }

  fn eval_lnext(&self, env: &Env, out: &mut Out, case: &Case) {
    let c = cal();
    let i = case.a[0] as usize;
    let j = case.a[1] as usize;
    let n = j as i64 - i as i64;
    out.eval("lnext");
    let (y, m, d) = c.ymd(i);
    let k = [("y", y), ("m", m), ("d", d), ("n", n), ("from_jdn", c.jdn(i)), ("to_jdn", c.jdn(j))];
    let touch = case.a.get(2).cloned().unwrap_or(0) == 1;
    if touch {
      out.class("lnext_source_day_read_before_stepping");
    }
    let r = guard(|| {
      let l = sd_idx(c, i).get_lunar_day();
      if touch {
        // fill the per-value memos of the source day first: the result must not inherit them
        let _ = (l.get_solar_day(), l.get_sixty_cycle_day(), l.get_week());
      }
      let e = sd_idx(c, j).get_lunar_day();
      let g = l.next(n as isize);
      let views_ok = g.get_week().get_index() as i64 == weekday(c.jdn(j)) && g.get_sixty_cycle_day().get_sixty_cycle().get_index() as i64 == day_pillar(c.jdn(j)) && ymd(&g.get_sixty_cycle_day().get_solar_day()) == c.ymd(j);
      (lymd(&e), lymd(&g), if views_ok { ymd(&g.get_solar_day()) } else { (0, 0, 0) })
    });
    if n.abs() > 25 {
      out.nontrivial("lnext", &[i as i64, j as i64]);
    }
    match r {
      Ok((e, g, gs)) => {
        if e != g || gs != c.ymd(j) {
          out.fail(env, viol("lnext", "lunar_next_n", case, &k, format!("lunar({}).next({})", c.fmt(i), n), format!("{} = {}", lfmt(e), c.fmt(j)), format!("{} = {}", lfmt(g), fmt_ymd(gs))));
        }
      }
      Err(e) => {
        out.fail(env, viol("lnext", "lunar_next_panics", case, &k, format!("lunar({}).next({})", c.fmt(i), n), c.fmt(j), e));
      }
    }
  }
}

fn order_strategy() -> impl Strategy<Value = Case> {
  let n = lunlist().len() as i64;
  (0..n, -2i64..=2, 1i64..=30, 1i64..=30).prop_map(move |(p, dp, d1, d2)| {
    let l = lunlist();
    let q = (p + dp).clamp(0, n - 1);
    let (y1, m1) = l.at(p as usize);
    let (y2, m2) = l.at(q as usize);
    Case::ints(&[y1, m1, d1.min(29), y2, m2, d2.min(29)])
  })
}

fn lnext_strategy() -> impl Strategy<Value = Case> {
  (0..NDAYS as i64, prop_oneof![4 => -70i64..=70, 3 => -12i64..=12, 2 => -800i64..=800, 1 => -40000i64..=40000], 0i64..2).prop_map(|(i, n, t)| Case::ints(&[i, (i + n).clamp(0, NDAYS as i64 - 1), t]))
}

impl Prop for C02 {
  fn id(&self) -> &'static str {
    "C02"
  }
  fn meta(&self, env: &Env) -> Meta {
    Meta {
      rule: format!("Generators: (a) `s2l`: every civil date 0001-01-01..9999-12-31 (exhaustive in both tiers): the lunar date is valid (1..=month length), denotes this very day (first day of its month + day-1 == JDN), converts back to the same civil date, and is the successor of the previous civil day's lunar date (same month day+1, or day 1 of the next month of the label model after the last day); (b) `l2s`: every lunar (year 0..9999, month in the label model, day 0..=length+1) — valid ones convert to first+day-1 and back, day 0 / length+1 and leap months the year lacks (every -k, k=1..12) must be refused (exhaustive); (c) `order`: is_before/is_after/== vs chronological order for all leap-twin pairs (day grid {}), all (last day, first day) pairs of adjacent months, and proptest pairs from months at most two apart; (d) `lnext`: proptest LunarDay::next(n) == civil next(n). Non-trivial: civil date within 2 days of a lunar month boundary, in a leap month, or in a lunar year whose leap month is 11/12; first/last/leap/invalid lunar days; pairs from different months; |n|>25. Distinct = distinct canonical inputs.", env.tier.pick("{1,2,15,29,last}^2", "1..=last squared")),
      assumptions: vec![
        "First day of a lunar month and month length are read from LunarMonth (their tiling is judged by C03); the label model takes leap months from get_leap_month (judged by C04)".into(),
        "Lunar days whose civil day falls outside 0001..9999 (parts of lunar years 0 and 9999) are out of domain and skipped".into(),
        "Refusal = Err from LunarDay::new or a panic".into(),
      ],
      level_text: String::new(),
    }
  }
  fn plan(&self, _env: &Env) -> Vec<TaskSpec> {
    vec![task("s2l", 16), task("l2s", 16), task("order", 16), task("lnext", 8)]
  }
  fn run(&self, env: &Env, t: &str, shard: usize, nshards: usize, out: &mut Out) {
    let ev = |e: &Env, o: &mut Out, s: &str, cs: &Case| self.eval(e, o, s, cs);
    let l = lunlist();
    match t {
      "s2l" => {
        // route equivalence of the objects this property reads (see routes.rs)
        prop_run(env, out, "routes", env.tier.pick(1600, 64000) / nshards as u32, 8800 + shard as u64, crate::routes::date_strategy(), &ev);
        out.set_exhaustive("routes", false);
        // strided walks on fresh threads (see engine::stride_walks)
        stride_walks(env, out, "s2l", env.tier.pick(1600, 48000) / nshards as u32, 7000 + shard as u64, 0, (crate::model::NDAYS as i64), 800, &|x| vec![x], &ev);
        let (lo, hi) = shard_range(NDAYS, shard, nshards);
        let mut rev = Reverse::new(30);
        for i in lo..hi {
          run_case(env, out, "s2l", &Case::ints(&[i as i64]), &ev);
          rev.note("s2l", &Case::ints(&[i as i64]));
        }
        rev.run(env, out, &ev);
        out.set_exhaustive("s2l", true);
      }
      "l2s" => {
        // lunar years outside 0..9999 have no constructible months: refused - and the refusal comes first, so that everything
        // this worker converts afterwards also shows whether a refused request left something behind
        for (yy, mm) in [(-1i64, 11i64), (-1, 12), (-2, 1), (10000, 1), (10001, 12)] {
          out.class("lunar_dates_of_years_outside_the_range");
          run_case(env, out, "l2s", &Case::ints(&[yy, mm, 1]), &ev);
        }
        let (ylo, yhi) = shard_range(10000, shard, nshards);
        for y in ylo as i64..yhi as i64 {
          for k in 1..=12i64 {
            for m in [k, -k] {
              if l.pos(y, m).is_some() {
                let dc = LunarMonth::from_ym(y as isize, m as isize).get_day_count() as i64;
                for d in 0..=dc + 1 {
                  run_case(env, out, "l2s", &Case::ints(&[y, m, d]), &ev);
                }
              } else {
                run_case(env, out, "l2s", &Case::ints(&[y, m, 1]), &ev);
              }
            }
          }
          for m in [0i64, 13, -13] {
            run_case(env, out, "l2s", &Case::ints(&[y, m, 1]), &ev);
          }
        }
        out.set_exhaustive("l2s", true);
      }
      "order" => {
        let (lo, hi) = shard_range(l.len(), shard, nshards);
        for p in lo..hi {
          let (y, m) = l.at(p);
          // adjacent months: last day vs first day, both orders
          if p + 1 < l.len() {
            let (y2, m2) = l.at(p + 1);
            let dc = LunarMonth::from_ym(y as isize, m as isize).get_day_count() as i64;
            run_case(env, out, "order", &Case::ints(&[y, m, dc, y2, m2, 1]), &ev);
            run_case(env, out, "order", &Case::ints(&[y2, m2, 1, y, m, dc]), &ev);
          }
          // a date against itself: neither before nor after
          for d in [1i64, 15, 29] {
            out.class("reflexive_pairs");
            run_case(env, out, "order", &Case::ints(&[y, m, d, y, m, d]), &ev);
          }
          // leap twins
          if m < 0 {
            let dca = LunarMonth::from_ym(y as isize, -m as isize).get_day_count() as i64;
            let dcb = LunarMonth::from_ym(y as isize, m as isize).get_day_count() as i64;
            let grid = |dc: i64| -> Vec<i64> {
              if env.tier == Tier::Thorough {
                (1..=dc).collect()
              } else {
                vec![1, 2, 15, 29.min(dc), dc]
              }
            };
            for &d1 in &grid(dca) {
              for &d2 in &grid(dcb) {
                run_case(env, out, "order", &Case::ints(&[y, -m, d1, y, m, d2]), &ev);
                run_case(env, out, "order", &Case::ints(&[y, m, d2, y, -m, d1]), &ev);
              }
            }
          }
        }
        // cold memo, months of a year visited in DEscending order (regular months first, then skipping around the leap
        // month): every lunar date of those months must still be accepted/refused and round-trip as before
        let step = env.tier.pick(40, 4);
        let (ylo, yhi) = shard_range(9990, shard, nshards);
        for y in (ylo as i64 + 5..yhi as i64 + 5).filter(|y| y % step == (env.seed % step as u64) as i64) {
          let lp = l.leap[y as usize] as i64;
          tyme4rs::tyme::lunar::verif_reset_lunar_month_cache();
          let mut seq: Vec<i64> = (1..=12).rev().collect();
          if lp > 0 {
            seq.push(-lp);
            seq.push(lp - 1 + (lp == 1) as i64 * 2);
            seq.push(lp + 1 - (lp == 12) as i64 * 2);
            seq.push(lp);
          }
          for m in seq {
            if l.pos(y, m).is_none() {
              continue;
            }
            for d in [1i64, 15, 29, 30, 31, 32, 45, 59, 60] {
              out.class("cold_descending_month_cases");
              run_case(env, out, "l2s", &Case::ints(&[y, m, d]), &ev);
            }
          }
        }
        tyme4rs::tyme::lunar::verif_reset_lunar_month_cache();
        let total: u32 = env.tier.pick(48_000, 1_600_000);
        prop_run(env, out, "order", total / nshards as u32, shard as u64, order_strategy(), &ev);
        out.set_exhaustive("order", false);
      }
      "lnext" => {
        if shard == 0 {
          // deterministic boundary steps, including the witnesses of the known reform-era findings
          let c = cal();
          for (y, m, d) in [(24i64, 1i64, 29i64), (24, 1, 30), (24, 2, 28), (24, 2, 29), (9, 1, 14), (9, 1, 15), (25, 2, 17), (240, 2, 10), (1582, 10, 4), (1582, 10, 15), (1, 1, 1), (9999, 12, 31)] {
            if let Some(i) = c.index(y, m, d) {
              for n in [-60i64, -30, -1, 0, 1, 29, 30, 31, 60] {
                let j = i as i64 + n;
                if j >= 0 && (j as usize) < NDAYS {
                  run_case(env, out, "lnext", &Case::ints(&[i as i64, j]), &ev);
                }
              }
            }
          }
        }
        let total: u32 = env.tier.pick(40_000, 1_600_000);
        prop_run(env, out, "lnext", total / nshards as u32, shard as u64, lnext_strategy(), &ev);
        out.set_exhaustive("lnext", false);
      }
      _ => panic!("unknown task {}", t),
    }
  }
  fn cold_subs(&self) -> Vec<(&'static str, i64, i64, fn(i64) -> Vec<i64>)> {
    vec![("s2l", 0, crate::model::NDAYS as i64, |x| vec![x])]
  }
  fn eval(&self, env: &Env, out: &mut Out, sub: &str, case: &Case) {
    match sub {
      "s2l" => self.eval_s2l(env, out, case),
      "l2s" => self.eval_l2s(env, out, case),
      "order" => self.eval_order(env, out, case),
      "lnext" => self.eval_lnext(env, out, case),
      "routes" => crate::routes::compare_day_routes(env, out, "routes", case, (case.a[0].clamp(0, crate::model::NDAYS as i64 - 1)) as usize, &crate::routes::fields_c02),
      _ => panic!("unknown sub-check {}", sub),
    }
  }
}
