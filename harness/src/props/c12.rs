//! C12 Clock arithmetic to the second and Julian-date<->clock conversion are exact

use crate::adapt::*;
use crate::engine::*;
use crate::model::*;
use proptest::prelude::*;
use serde_json::json;
use tyme4rs::tyme::jd::JulianDay;
use tyme4rs::tyme::solar::SolarTime;
use tyme4rs::tyme::Tyme;

pub struct C12;

fn viol(sub: &str, kind: &str, case: &Case, k: &[(&str, i64)], desc: String, expected: String, got: String) -> Viol {
  Viol { sub: sub.into(), kind: kind.into(), case: case.clone(), key: key(k), desc, expected, got }
}

const TOTAL_SECS: i64 = NDAYS as i64 * 86400;

fn of_ord(c: &Cal, o: i64) -> SolarTime {
  let i = (o / 86400) as usize;
  let s = o % 86400;
  let (y, m, d) = c.ymd(i);
  SolarTime::from_ymd_hms(y as isize, m as usize, d as usize, (s / 3600) as usize, (s / 60 % 60) as usize, (s % 60) as usize)
}

fn ofmt(c: &Cal, o: i64) -> String {
  let s = o % 86400;
  format!("{} {:02}:{:02}:{:02}", c.fmt((o / 86400) as usize), s / 3600, s / 60 % 60, s % 60)
}

/// ordinal (seconds since 0001-01-01 00:00:00) of a library instant, None if its date does not exist
fn ord_of(c: &Cal, t: &SolarTime) -> Option<i64> {
  let (y, m, d, h, mi, s) = ymdhms(t);
  if h > 23 || mi > 59 || s > 59 {
    return None;
  }
  c.index(y, m, d).map(|i| i as i64 * 86400 + h * 3600 + mi * 60 + s)
}

/// does the step from a to b carry into another hour / day / month / year or cross the 1582 cut-over?
fn carry_class(c: &Cal, a: i64, b: i64) -> (bool, &'static str) {
  let (ia, ib) = ((a / 86400) as usize, (b / 86400) as usize);
  let cut = c.index(1582, 10, 4).unwrap();
  let (ya, ma, _) = c.ymd(ia);
  let (yb, mb, _) = c.ymd(ib);
  if (ia.min(ib) <= cut) && (ia.max(ib) > cut) {
    (true, "crosses_1582_cutover")
  } else if ya != yb {
    (true, "carries_into_another_year")
  } else if ma != mb {
    (true, "carries_into_another_month")
  } else if ia != ib {
    (true, "carries_into_another_day")
  } else if a / 3600 != b / 3600 {
    (true, "carries_into_another_hour")
  } else {
    (false, "same_hour")
  }
}

impl C12 {
  fn eval_step(&self, env: &Env, out: &mut Out, case: &Case) {
    let c = cal();
    let a = case.a[0].clamp(0, TOTAL_SECS - 1);
    let b = case.a[1].clamp(0, TOTAL_SECS - 1);
    let n = b - a;
    out.eval("step");
    let (nt, cls) = carry_class(c, a, b);
    out.class(cls);
    if nt {
      out.nontrivial("step", &[a, b]);
    }
    let k = [("a", a), ("n", n)];
    let ta = of_ord(c, a);
    let tb = of_ord(c, b);
    let r = ta.next(n as isize);
    if out.wants_sample("step", nt) {
      out.sample("step", nt, || json!({"from": ofmt(c, a), "n_seconds": n, "expected": ofmt(c, b), "class": cls}));
    }
    if ord_of(c, &r) != Some(b) {
      out.fail(env, viol("step", "next_n", case, &k, format!("{} + {} s", ofmt(c, a), n), ofmt(c, b), fmt_time(ymdhms(&r))));
    }
    // the stepped instant converts to the same Julian date as the constructed one (and back to itself)
    if ord_of(c, &r) == Some(b) {
      let (jr, jb) = (r.get_julian_day().get_day(), tb.get_julian_day().get_day());
      let back = guard(|| ymdhms(&r.get_julian_day().get_solar_time()));
      if jr != jb || back != Ok(ymdhms(&tb)) {
        out.fail(env, viol("step", "julian_date_of_stepped_instant", case, &k, format!("({} + {} s).get_julian_day()", ofmt(c, a), n), format!("{} -> {}", jb, ofmt(c, b)), format!("{} -> {:?}", jr, back.map(fmt_time))));
      }
    }
    let diff = tb.subtract(ta) as i64;
    if diff != n {
      out.fail(env, viol("step", "subtract", case, &k, format!("{} - {}", ofmt(c, b), ofmt(c, a)), n.to_string(), diff.to_string()));
    }
    if ta.is_before(tb) != (a < b) || ta.is_after(tb) != (a > b) || tb.is_before(ta) != (b < a) || tb.is_after(ta) != (b > a) || (ta == tb) != (a == b) {
      out.fail(env, viol("step", "order", case, &k, format!("{} vs {}", ofmt(c, a), ofmt(c, b)), format!("before={} after={} eq={}", a < b, a > b, a == b), format!("before={} after={} eq={}", ta.is_before(tb), ta.is_after(tb), ta == tb)));
    }
  }

  fn eval_rt(&self, env: &Env, out: &mut Out, case: &Case) {
    let c = cal();
    let a = case.a[0].clamp(0, TOTAL_SECS - 1);
    out.eval("rt");
    let s = a % 86400;
    let nt = s % 60 == 59 || s % 3600 >= 3540 || s >= 86340 || s == 0;
    if nt {
      out.nontrivial("rt", &[a]);
    }
    let k = [("a", a), ("jdn", c.jdn((a / 86400) as usize)), ("s", s)];
    let t = of_ord(c, a);
    let jd = t.get_julian_day().get_day();
    // the Julian date itself: JDN - 0.5 + s/86400 within f64 resolution (4e-5 s)
    let exp_jd = c.jdn((a / 86400) as usize) as f64 - 0.5 + s as f64 / 86400.0;
    if (jd - exp_jd).abs() * 86400.0 > 1e-3 {
      out.fail(env, viol("rt", "julian_date", case, &k, ofmt(c, a), format!("{}", exp_jd), format!("{}", jd)));
    }
    match guard(|| JulianDay::from_julian_day(jd).get_solar_time()) {
      Ok(back) => {
        if ord_of(c, &back) != Some(a) {
          out.fail(env, viol("rt", "instant_to_jd_and_back", case, &k, ofmt(c, a), ofmt(c, a), fmt_time(ymdhms(&back))));
        }
      }
      Err(e) => {
        out.fail(env, viol("rt", "back_panics", case, &k, ofmt(c, a), ofmt(c, a), e));
      }
    }
    let viajd = JulianDay::from_ymd_hms(t.get_year(), t.get_month(), t.get_day(), t.get_hour(), t.get_minute(), t.get_second()).get_day();
    if viajd != jd {
      out.fail(env, viol("rt", "from_ymd_hms", case, &k, ofmt(c, a), format!("{}", jd), format!("{}", viajd)));
    }
  }

  /// a[0] = whole-second ordinal, f[0] = fractional seconds in [0,1): a Julian date in range maps to a valid instant within 0.5 s
  fn eval_jd(&self, env: &Env, out: &mut Out, case: &Case) {
    let c = cal();
    let a = case.a[0].clamp(0, TOTAL_SECS - 1);
    let frac = case.f.get(0).cloned().unwrap_or(0.0).clamp(0.0, 0.999999);
    let truth = a as f64 + frac;
    if truth + 0.5 >= TOTAL_SECS as f64 {
      out.skip("jd_rounds_past_9999-12-31_23:59:59");
      return;
    }
    out.eval("jd");
    let i = (a / 86400) as usize;
    let s = a % 86400;
    let jd = c.jdn(i) as f64 - 0.5 + (s as f64 + frac) / 86400.0;
    let rounds_up = frac >= 0.5;
    let b = a + rounds_up as i64;
    let (carry, cls) = carry_class(c, a, b);
    let nt = rounds_up && carry;
    if nt {
      out.nontrivial("jd", &[a, (frac * 1e6) as i64]);
      out.class(&format!("jd_rounding_{}", cls));
    }
    let k = [("a", a), ("jdn", c.jdn(i)), ("s", s), ("frac_us", (frac * 1e6) as i64)];
    if out.wants_sample("jd", nt) {
      out.sample("jd", nt, || json!({"julian_date": jd, "is": format!("{} + {:.4} s", ofmt(c, a), frac)}));
    }
    match guard(|| JulianDay::from_julian_day(jd).get_solar_time()) {
      Ok(t) => match ord_of(c, &t) {
        Some(o) => {
          // f64 resolution of a JD near 2.4e6 is 4e-5 s
          if (o as f64 - truth).abs() > 0.5 + 1e-4 {
            out.fail(env, viol("jd", "more_than_half_a_second_off", case, &k, format!("JD {} = {} + {:.4} s", jd, ofmt(c, a), frac), format!("within 0.5 s of {}", ofmt(c, a)), fmt_time(ymdhms(&t))));
          }
        }
        None => {
          out.fail(env, viol("jd", "invalid_instant", case, &k, format!("JD {} = {} + {:.4} s", jd, ofmt(c, a), frac), "a valid instant".into(), fmt_time(ymdhms(&t))));
        }
      },
      Err(e) => {
        out.fail(env, viol("jd", "panics", case, &k, format!("JD {} = {} + {:.4} s", jd, ofmt(c, a), frac), format!("{} (+-0.5 s)", ofmt(c, a)), e));
      }
    }
    // conversions are functions of their argument: after converting this (possibly rounding-up) Julian date, the
    // noon of the same civil day and of the next one must still convert to their own days
    for dd in 0..2usize {
      if i + dd < NDAYS {
        if let Ok(x) = guard(|| ymd(&JulianDay::from_julian_day(jd).get_solar_day())) {
          let _ = x;
        }
        if let Ok(nd) = guard(|| ymd(&JulianDay::from_julian_day(c.jdn(i + dd) as f64).get_solar_day())) {
          if nd != c.ymd(i + dd) {
            out.fail(env, viol("jd", "noon_conversion_after_rounding_conversion", case, &k, format!("JD {} (noon) converted right after JD {}", c.jdn(i + dd), jd), c.fmt(i + dd), fmt_ymd(nd)));
          }
        }
      }
    }
    // the day-level conversion of the same Julian date
    // (a fraction within the f64 resolution of a Julian date - 4e-5 s near JD 2.4e6, 8e-5 s near JD 5e6 - of the half second
    // rounds either way once it is a Julian date: at 23:59:59 that decides the day, so neither day is asserted)
    if (frac - 0.5).abs() < 2e-4 && s == 86399 {
      out.skip("fraction_within_float_resolution_of_the_half_second_before_midnight");
    } else if !rounds_up || !carry {
      if let Ok(dd) = guard(|| ymd(&JulianDay::from_julian_day(jd).get_solar_day())) {
        if dd != c.ymd(i) {
          out.fail(env, viol("jd", "get_solar_day", case, &k, format!("JD {}", jd), c.fmt(i), fmt_ymd(dd)));
        }
      }
    }
  }
}

fn boundary_seconds() -> Vec<i64> {
  // 23:59:59 and 00:00:00 on month ends of stratified years, the cut-over and the range ends
  let c = cal();
  let mut v = vec![0, TOTAL_SECS - 1];
  for &i in &crate::props::c01::boundary_indices() {
    for s in [0i64, 1, 3599, 3600, 43199, 43200, 86340, 86398, 86399] {
      v.push(i as i64 * 86400 + s);
    }
  }
  let _ = c;
  v.sort();
  v.dedup();
  v
}

fn step_strategy(b: Vec<i64>) -> impl Strategy<Value = Case> {
  let nb = b.len();
  let from = prop_oneof![5 => 0..TOTAL_SECS, 5 => (0..nb).prop_map(move |k| b[k])];
  let n = prop_oneof![
    3 => -100i64..=100,
    2 => -100_000i64..=100_000,
    2 => -1_000_000_000i64..=1_000_000_000,
    2 => prop_oneof![Just(60i64), Just(-60), Just(3600), Just(-3600), Just(86400), Just(-86400), Just(86399), Just(-86399), Just(31_536_000), Just(-31_536_000)],
    // whole-day differences (equal clock reading on both sides)
    3 => (-4000i64..=4000).prop_map(|k| k * 86400),
    1 => Just(0i64),
  ];
  (from, n).prop_map(|(a, n)| Case::ints(&[a, (a + n).clamp(0, TOTAL_SECS - 1)]))
}

const FRACS: [f64; 9] = [0.0, 0.4, 0.49, 0.4999, 0.5, 0.5001, 0.51, 0.7, 0.999];

impl Prop for C12 {
  fn id(&self) -> &'static str {
    "C12"
  }
  fn meta(&self, _env: &Env) -> Meta {
    Meta {
      rule: "Instants are ordinals (seconds since 0001-01-01 00:00:00) over the independent model calendar. Generators: (a) `step`: proptest (instant a, n): 50% of a from a constructed boundary set (00:00:00, 00:00:01, hh:59:59, 23:59:00/58/59 on month ends/starts of ~360 boundary years, century Feb 28/29, 1582-09-20..11-10, range ends), n from +-100, +-1e5, +-1e9, +-60/3600/86400/86399/31536000 and 0, clipped to the range: next(n) == ord+n, subtract == ord difference, before/after/== == sign; (b) `rt`: every boundary instant and proptest instants: instant -> Julian date (== JDN-0.5+s/86400) -> instant identity, from_ymd_hms agrees; (c) `jd`: the grid {hh:59:59, hh:00:00, 23:59:58/59} x fractional offsets {0,.4,.49,.4999,.5,.5001,.51,.7,.999} s on every boundary day, plus proptest (instant, fraction): a fractional Julian date yields a valid instant within 0.5 s (+1e-4 s for f64 resolution). Non-trivial: the step (or the rounding) carries into another hour/day/month/year or crosses the 1582 cut-over; round trips at xx:59 seconds / the last minute of an hour or day. Distinct = distinct inputs.".into(),
      assumptions: vec![
        "f64 Julian dates near 2.4e6 resolve 4e-5 s; the half-second bound carries a 1e-4 s allowance".into(),
        "A Julian date that rounds past 9999-12-31 23:59:59 is out of range and skipped".into(),
      ],
      level_text: String::new(),
    }
  }
  fn plan(&self, _env: &Env) -> Vec<TaskSpec> {
    vec![task("step", 16), task("rt", 8), task("jd", 16)]
  }
  fn run(&self, env: &Env, t: &str, shard: usize, nshards: usize, out: &mut Out) {
    let ev = |e: &Env, o: &mut Out, s: &str, cs: &Case| self.eval(e, o, s, cs);
    let b = boundary_seconds();
    match t {
      "step" => {
        let (lo, hi) = shard_range(b.len(), shard, nshards);
        for &a in &b[lo..hi] {
          for n in [1i64, -1, 60, -60, 86400, -86400] {
            let x = a + n;
            if x >= 0 && x < TOTAL_SECS {
              run_case(env, out, "step", &Case::ints(&[a, x]), &ev);
            }
          }
        }
        let total: u32 = env.tier.pick(160_000, 3_200_000);
        prop_run(env, out, "step", total / nshards as u32, shard as u64, step_strategy(b), &ev);
        out.set_exhaustive("step", false);
      }
      "rt" => {
        // strided walks on fresh threads (see engine::stride_walks)
        stride_walks(env, out, "rt", env.tier.pick(1600, 48000) / nshards as u32, 7000 + shard as u64, 0, TOTAL_SECS, 4_000_000, &|x| vec![x], &ev);
        let (lo, hi) = shard_range(b.len(), shard, nshards);
        for &a in &b[lo..hi] {
          run_case(env, out, "rt", &Case::ints(&[a]), &ev);
        }
        let total: u32 = env.tier.pick(80_000, 1_600_000);
        prop_run(env, out, "rt", total / nshards as u32, shard as u64, (0..TOTAL_SECS).prop_map(|a| Case::ints(&[a])), &ev);
        out.set_exhaustive("rt", false);
      }
      "jd" => {
        let days = crate::props::c01::boundary_indices();
        let (lo, hi) = shard_range(days.len(), shard, nshards);
        for &i in &days[lo..hi] {
          let mut secs: Vec<i64> = (0..24).map(|h| h * 3600 + 3599).collect();
          secs.extend((0..24).step_by(6).map(|h| h * 3600));
          secs.push(86398);
          for s in secs {
            for f in FRACS {
              let cs = Case { a: vec![i as i64 * 86400 + s], f: vec![f], s: vec![], pre: vec![] };
              run_case(env, out, "jd", &cs, &ev);
            }
          }
        }
        let total: u32 = env.tier.pick(80_000, 1_600_000);
        let strat = (0..TOTAL_SECS, prop_oneof![3 => 0.0f64..1.0, 1 => 0.49f64..0.51, 1 => 0.5f64..1.0]).prop_map(|(a, f)| Case { a: vec![a], f: vec![f], s: vec![], pre: vec![] });
        prop_run(env, out, "jd", total / nshards as u32, shard as u64, strat, &ev);
        out.set_exhaustive("jd", false);
      }
      _ => panic!("unknown task {}", t),
    }
  }
  fn cold_subs(&self) -> Vec<(&'static str, i64, i64, fn(i64) -> Vec<i64>)> {
    vec![("rt", 0, crate::model::NDAYS as i64, |x| vec![x * 86400 + (x * 7919).rem_euclid(86400)])]
  }
  fn eval(&self, env: &Env, out: &mut Out, sub: &str, case: &Case) {
    match sub {
      "step" => self.eval_step(env, out, case),
      "rt" => self.eval_rt(env, out, case),
      "jd" => self.eval_jd(env, out, case),
      _ => panic!("unknown sub-check {}", sub),
    }
  }
}
