//! C19 Stem and branch attributes match the classical correspondence rules
//!
//! The oracle is written from the rules / rhymes (by NAME, as a second transcription in a different
//! shape from the library's index arrays).

use crate::engine::*;
use crate::model::*;
use serde_json::json;
use tyme4rs::tyme::culture::fetus::{FetusDay, FetusMonth};
use tyme4rs::tyme::culture::ren::minor::MinorRen;
use tyme4rs::tyme::culture::star::nine::NineStar;
use tyme4rs::tyme::culture::star::twenty_eight::TwentyEightStar;
use tyme4rs::tyme::culture::{Direction, Element};
use tyme4rs::tyme::eightchar::EightChar;
use tyme4rs::tyme::enums::{Side, YinYang};
use tyme4rs::tyme::lunar::LunarMonth;
use tyme4rs::tyme::sixtycycle::{EarthBranch, HeavenStem, SixtyCycle};
use tyme4rs::tyme::solar::SolarDay;
use tyme4rs::tyme::Culture;

pub struct C19;

const ELEM: [&str; 5] = ["木", "火", "土", "金", "水"];
/// trigram -> direction name
fn trigram_dir(t: char) -> &'static str {
  match t {
    '坎' => "北",
    '坤' => "西南",
    '震' => "东",
    '巽' => "东南",
    '乾' => "西北",
    '兑' => "西",
    '艮' => "东北",
    '离' => "南",
    _ => "中",
  }
}
/// branch (by animal) -> trigram direction of its 24-mountain sector
fn branch_sector_dir(b: usize) -> &'static str {
  ["北", "东北", "东北", "东", "东南", "东南", "南", "西南", "西南", "西", "西北", "西北"][b]
}
fn elem_dir(e: usize) -> &'static str {
  ["东", "南", "中", "西", "北"][e]
}
fn dir_elem(name: &str) -> &'static str {
  match name {
    "北" => "水",
    "南" => "火",
    "东" | "东南" => "木",
    "西" | "西北" => "金",
    _ => "土",
  }
}
fn generates(a: usize, b: usize) -> bool {
  (a + 1) % 5 == b
}
fn overcomes(a: usize, b: usize) -> bool {
  (a + 2) % 5 == b
}
fn branch_elem(b: usize) -> usize {
  match b {
    2 | 3 => 0,
    5 | 6 => 1,
    8 | 9 => 3,
    11 | 0 => 4,
    _ => 2,
  }
}

struct Ck<'a> {
  env: &'a Env,
  out: &'a mut Out,
  case: &'a Case,
}

impl<'a> Ck<'a> {
  fn eq(&mut self, sub: &str, what: &str, subject: String, expected: String, got: String) {
    self.out.eval(sub);
    if expected != got {
      let v = Viol { sub: sub.into(), kind: what.into(), case: self.case.clone(), key: key(&[("i", self.case.a.get(0).cloned().unwrap_or(0)), ("j", self.case.a.get(1).cloned().unwrap_or(0))]), desc: subject, expected, got };
      self.out.fail(self.env, v);
    }
  }
}

impl C19 {
  fn eval_stem(&self, env: &Env, out: &mut Out, case: &Case) {
    let s = case.a[0] as usize;
    out.nontrivial("stem", &[s as i64]);
    let h = HeavenStem::from_index(s as isize);
    let name = STEMS[s];
    let e = s / 2;
    out.sample("stem", true, || json!({"stem": name, "element": h.get_element().get_name(), "joy": h.get_joy_direction().get_name(), "yang_noble": h.get_yang_direction().get_name(), "yin_noble": h.get_yin_direction().get_name()}));
    let mut c = Ck { env, out, case };
    c.eq("stem", "name", format!("stem {}", s), name.into(), h.get_name());
    c.eq("stem", "element", name.into(), ELEM[e].into(), h.get_element().get_name());
    c.eq("stem", "polarity", name.into(), (if s % 2 == 0 { "阳" } else { "阴" }).into(), if h.get_yin_yang() == YinYang::YANG { "阳".into() } else { "阴".into() });
    c.eq("stem", "direction", name.into(), elem_dir(e).into(), h.get_direction().get_name());
    // 喜神方位歌: 甲己在艮乙庚乾，丙辛坤位喜神安，丁壬只在离宫坐，戊癸原在在巽间
    let joy = ['艮', '乾', '坤', '离', '巽'][s % 5];
    c.eq("stem", "joy_direction", name.into(), trigram_dir(joy).into(), h.get_joy_direction().get_name());
    // 阳贵神歌: 甲戊坤艮位，乙己是坤坎，庚辛居离艮，丙丁兑与乾，震巽属何日，壬癸贵神安
    let yang = ['坤', '坤', '兑', '乾', '艮', '坎', '离', '艮', '震', '巽'][s];
    c.eq("stem", "yang_noble_direction", name.into(), trigram_dir(yang).into(), h.get_yang_direction().get_name());
    // 阴贵神歌: 甲戊见牛羊，乙己鼠猴乡，丙丁猪鸡位，壬癸蛇兔藏，庚辛逢虎马 (branch of the animal -> its sector)
    let yin_branch = [1usize, 0, 11, 9, 7, 8, 2, 6, 5, 3][s];
    c.eq("stem", "yin_noble_direction", name.into(), branch_sector_dir(yin_branch).into(), h.get_yin_direction().get_name());
    // the yang/yin noble pair of the two stems of a rhyme line equals the two rhyme sectors
    // 财神方位歌: 甲乙东北，丙丁西南，戊己正北，庚辛正东，壬癸正南
    c.eq("stem", "wealth_direction", name.into(), ["东北", "西南", "北", "东", "南"][e].into(), h.get_wealth_direction().get_name());
    // 福神方位歌: 甲乙东南，丙丁正东，戊北己南庚辛坤，壬在乾方癸在西
    c.eq("stem", "mascot_direction", name.into(), ["东南", "东南", "东", "东", "北", "南", "西南", "西南", "西北", "西"][s].into(), h.get_mascot_direction().get_name());
    // five combinations: 甲己土 乙庚金 丙辛水 丁壬木 戊癸火
    let partner = (s + 5) % 10;
    c.eq("stem", "combine_partner", name.into(), STEMS[partner].into(), h.get_combine().get_name());
    c.eq("stem", "combine_involution", name.into(), name.into(), h.get_combine().get_combine().get_name());
    let ce = ["土", "金", "水", "木", "火"][s % 5];
    for t in 0..10usize {
      let r = h.combine(HeavenStem::from_index(t as isize)).map(|x| x.get_name());
      let exp = if t == partner { Some(ce.to_string()) } else { None };
      c.eq("stem", "combine_element", format!("{}+{}", name, STEMS[t]), format!("{:?}", exp), format!("{:?}", r));
    }
  }

  fn eval_stem_pair(&self, env: &Env, out: &mut Out, case: &Case) {
    let (s, t) = (case.a[0] as usize, case.a[1] as usize);
    out.nontrivial("stem_pair", &[s as i64, t as i64]);
    let (es, et) = (s / 2, t / 2);
    let same = s % 2 == t % 2;
    // 生我者正印偏印，我生者伤官食神，克我者正官七杀，我克者正财偏财，同我者劫财比肩
    let exp = if es == et {
      if same { "比肩" } else { "劫财" }
    } else if generates(es, et) {
      if same { "食神" } else { "伤官" }
    } else if overcomes(es, et) {
      if same { "偏财" } else { "正财" }
    } else if overcomes(et, es) {
      if same { "七杀" } else { "正官" }
    } else {
      if same { "偏印" } else { "正印" }
    };
    let g = HeavenStem::from_index(s as isize).get_ten_star(HeavenStem::from_index(t as isize)).get_name();
    out.sample("stem_pair", true, || json!({"self": STEMS[s], "target": STEMS[t], "ten_star": g}));
    let mut c = Ck { env, out, case };
    c.eq("stem_pair", "ten_star", format!("{} sees {}", STEMS[s], STEMS[t]), exp.into(), g);
  }

  fn eval_stem_branch(&self, env: &Env, out: &mut Out, case: &Case) {
    let (s, b) = (case.a[0] as usize, case.a[1] as usize);
    out.nontrivial("stem_branch", &[s as i64, b as i64]);
    // twelve growth stages: Yang stems forward from the birth branch 甲亥 丙戊寅 庚巳 壬申, Yin stems backward from 乙午 丁己酉 辛子 癸卯
    let birth = [11usize, 6, 2, 9, 2, 9, 5, 0, 8, 3][s];
    let stage = if s % 2 == 0 { (b + 12 - birth) % 12 } else { (birth + 12 - b) % 12 };
    let names = ["长生", "沐浴", "冠带", "临官", "帝旺", "衰", "病", "死", "墓", "绝", "胎", "养"];
    let g = HeavenStem::from_index(s as isize).get_terrain(EarthBranch::from_index(b as isize)).get_name();
    let mut c = Ck { env, out, case };
    c.eq("stem_branch", "growth_stage", format!("{} at {}", STEMS[s], BRANCHES[b]), names[stage].into(), g);
  }

  fn eval_branch(&self, env: &Env, out: &mut Out, case: &Case) {
    let b = case.a[0] as usize;
    out.nontrivial("branch", &[b as i64]);
    let eb = EarthBranch::from_index(b as isize);
    let name = BRANCHES[b];
    out.sample("branch", true, || json!({"branch": name, "element": eb.get_element().get_name(), "hidden": eb.get_hide_heaven_stems().iter().map(|h| h.get_name()).collect::<Vec<_>>(), "clash": eb.get_opposite().get_name(), "combine": eb.get_combine().get_name(), "harm": eb.get_harm().get_name()}));
    let mut c = Ck { env, out, case };
    c.eq("branch", "name", format!("branch {}", b), name.into(), eb.get_name());
    c.eq("branch", "element", name.into(), ELEM[branch_elem(b)].into(), eb.get_element().get_name());
    c.eq("branch", "polarity", name.into(), (if b % 2 == 0 { "阳" } else { "阴" }).into(), if eb.get_yin_yang() == YinYang::YANG { "阳".into() } else { "阴".into() });
    c.eq("branch", "direction", name.into(), elem_dir(branch_elem(b)).into(), eb.get_direction().get_name());
    c.eq("branch", "zodiac", name.into(), ["鼠", "牛", "虎", "兔", "龙", "蛇", "马", "羊", "猴", "鸡", "狗", "猪"][b].into(), eb.get_zodiac().get_name());
    // hidden stems (main, middle, residual)
    let hidden: [&str; 12] = ["癸", "己癸辛", "甲丙戊", "乙", "戊乙癸", "丙庚戊", "丁己", "己丁乙", "庚壬戊", "辛", "戊辛丁", "壬甲"];
    let got: String = eb.get_hide_heaven_stems().iter().map(|h| h.get_name()).collect();
    c.eq("branch", "hidden_stems", name.into(), hidden[b].into(), got);
    let chars: Vec<char> = hidden[b].chars().collect();
    c.eq("branch", "hidden_main", name.into(), chars[0].to_string(), eb.get_hide_heaven_stem_main().get_name());
    c.eq("branch", "hidden_middle", name.into(), format!("{:?}", chars.get(1).map(|x| x.to_string())), format!("{:?}", eb.get_hide_heaven_stem_middle().map(|x| x.get_name())));
    c.eq("branch", "hidden_residual", name.into(), format!("{:?}", chars.get(2).map(|x| x.to_string())), format!("{:?}", eb.get_hide_heaven_stem_residual().map(|x| x.get_name())));
    // clash = the branch six places on; involution
    c.eq("branch", "clash", name.into(), BRANCHES[(b + 6) % 12].into(), eb.get_opposite().get_name());
    c.eq("branch", "clash_involution", name.into(), name.into(), eb.get_opposite().get_opposite().get_name());
    // six combinations 子丑土 寅亥木 卯戌火 辰酉金 巳申水 午未土
    let six: [(usize, &str); 12] = [(1, "土"), (0, "土"), (11, "木"), (10, "火"), (9, "金"), (8, "水"), (7, "土"), (6, "土"), (5, "水"), (4, "金"), (3, "火"), (2, "木")];
    c.eq("branch", "six_combine_partner", name.into(), BRANCHES[six[b].0].into(), eb.get_combine().get_name());
    c.eq("branch", "six_combine_involution", name.into(), name.into(), eb.get_combine().get_combine().get_name());
    for t in 0..12usize {
      let r = eb.combine(EarthBranch::from_index(t as isize)).map(|x| x.get_name());
      let exp = if t == six[b].0 { Some(six[b].1.to_string()) } else { None };
      c.eq("branch", "six_combine_element", format!("{}+{}", name, BRANCHES[t]), format!("{:?}", exp), format!("{:?}", r));
    }
    // six harms 子未 丑午 寅巳 卯辰 申亥 酉戌
    let harm = [7usize, 6, 5, 4, 3, 2, 1, 0, 11, 10, 9, 8][b];
    c.eq("branch", "harm", name.into(), BRANCHES[harm].into(), eb.get_harm().get_name());
    c.eq("branch", "harm_involution", name.into(), name.into(), eb.get_harm().get_harm().get_name());
    // ominous direction by triad: 申子辰煞南 巳酉丑煞东 寅午戌煞北 亥卯未煞西
    let sha = match b % 4 {
      0 => "南",
      1 => "东",
      2 => "北",
      _ => "西",
    };
    c.eq("branch", "ominous_direction", name.into(), sha.into(), eb.get_ominous().get_name());
  }

  fn eval_pillar(&self, env: &Env, out: &mut Out, case: &Case) {
    let p = case.a[0] as usize;
    out.nontrivial("pillar", &[p as i64]);
    let sc = SixtyCycle::from_index(p as isize);
    let (s, b) = (p % 10, p % 12);
    // Nayin by the stem-pair + branch-triple rule (1 wood 2 metal 3 water 4 fire 5 earth) and by the 30-name list
    let v = (s / 2 + 1) + [1usize, 1, 2, 2, 3, 3][b % 6];
    let v = if v > 5 { v - 5 } else { v };
    let ne = ["木", "金", "水", "火", "土"][v - 1];
    let list = ["海中金", "炉中火", "大林木", "路旁土", "剑锋金", "山头火", "涧下水", "城头土", "白蜡金", "杨柳木", "泉中水", "屋上土", "霹雳火", "松柏木", "长流水", "沙中金", "山下火", "平地木", "壁上土", "金箔金", "覆灯火", "天河水", "大驿土", "钗钏金", "桑柘木", "大溪水", "沙中土", "天上火", "石榴木", "大海水"];
    let sound = sc.get_sound().get_name();
    out.sample("pillar", true, || json!({"pillar": pillar_name(p as i64), "nayin": sound, "xun": sc.get_ten().get_name(), "void": sc.get_extra_earth_branches().iter().map(|x| x.get_name()).collect::<Vec<_>>()}));
    let mut c = Ck { env, out, case };
    c.eq("pillar", "name", format!("pillar {}", p), pillar_name(p as i64), sc.get_name());
    c.eq("pillar", "stem", pillar_name(p as i64), STEMS[s].into(), sc.get_heaven_stem().get_name());
    c.eq("pillar", "branch", pillar_name(p as i64), BRANCHES[b].into(), sc.get_earth_branch().get_name());
    c.eq("pillar", "nayin_name", pillar_name(p as i64), list[p / 2].into(), sound.clone());
    c.eq("pillar", "nayin_element_rule", pillar_name(p as i64), ne.into(), sound.chars().last().map(|x| x.to_string()).unwrap_or_default());
    // Xun: the Jia pillar opening the decade; void = the two branches the decade does not reach
    let xun = p - s;
    c.eq("pillar", "xun", pillar_name(p as i64), pillar_name(xun as i64), sc.get_ten().get_name());
    let vb = [(xun % 12 + 10) % 12, (xun % 12 + 11) % 12];
    let got: Vec<String> = sc.get_extra_earth_branches().iter().map(|x| x.get_name()).collect();
    c.eq("pillar", "void_branches", pillar_name(p as i64), format!("{:?}", vec![BRANCHES[vb[0]], BRANCHES[vb[1]]]), format!("{:?}", got));
    // Peng Zu's hundred taboos: the stem line opens with the stem, the branch line with the branch
    let pz = tyme4rs::tyme::culture::peng_zu::PengZu::from_sixty_cycle(sc.clone());
    c.eq("pillar", "peng_zu_stem_line", pillar_name(p as i64), STEMS[s].into(), pz.get_peng_zu_heaven_stem().get_name().chars().next().map(|x| x.to_string()).unwrap_or_default());
    c.eq("pillar", "peng_zu_branch_line", pillar_name(p as i64), BRANCHES[b].into(), pz.get_peng_zu_earth_branch().get_name().chars().next().map(|x| x.to_string()).unwrap_or_default());
    // foetus spirit of the day: 甲己门 乙庚碓磨 丙辛厨灶 丁壬仓库 戊癸房床 / 子午碓 丑未厕 寅申炉 卯酉门 辰戌栖 巳亥床
    let fd = FetusDay::new(sc.clone());
    c.eq("pillar", "fetus_stem_part", pillar_name(p as i64), ["门", "碓磨", "厨灶", "仓库", "房床"][s % 5].into(), fd.get_fetus_heaven_stem().get_name());
    c.eq("pillar", "fetus_branch_part", pillar_name(p as i64), ["碓", "厕", "炉", "门", "栖", "床"][b % 6].into(), fd.get_fetus_earth_branch().get_name());
    // 60-day direction table, run-length encoded: (days, inside?, direction)
    let rle: [(usize, bool, &str); 15] = [(2, false, "东南"), (5, false, "南"), (6, false, "西南"), (5, false, "西"), (6, false, "西北"), (5, false, "北"), (5, true, "北"), (2, true, "中"), (3, true, "南"), (1, true, "西"), (4, true, "东"), (1, true, "中"), (6, false, "东北"), (5, false, "东"), (4, false, "东南")];
    let mut acc = 0;
    let mut exp = (false, "");
    for (n, inside, d) in rle {
      if p < acc + n {
        exp = (inside, d);
        break;
      }
      acc += n;
    }
    c.eq("pillar", "fetus_direction", pillar_name(p as i64), format!("{} {}", if exp.0 { "内" } else { "外" }, exp.1), format!("{} {}", if fd.get_side() == Side::IN { "内" } else { "外" }, fd.get_direction().get_name()));
    // the text as the almanacs print it: place (with the three contracted forms and 占 before 门..), then 外 + 正 for a
    // cardinal direction outside, or 房内 + direction inside (never 正)
    let place = {
      let raw = format!("{}{}", ["门", "碓磨", "厨灶", "仓库", "房床"][s % 5], ["碓", "厕", "炉", "门", "栖", "床"][b % 6]);
      match raw.as_str() {
        "门门" => "占大门".to_string(),
        "碓磨碓" => "占碓磨".to_string(),
        "房床床" => "占房床".to_string(),
        r if r.starts_with("门") => format!("占{}", r),
        r => r.to_string(),
      }
    };
    let pos = if exp.0 { format!("房内{}", exp.1) } else if exp.1.chars().count() == 1 { format!("外正{}", exp.1) } else { format!("外{}", exp.1) };
    c.eq("pillar", "fetus_text", pillar_name(p as i64), format!("{} {}", place, pos), fd.to_string());
    // the same spirit through the day objects, including a day view taken from an hour view of the 23:00 hour (which already
    // carries this pillar on the previous civil date)
    {
      let cl = crate::model::cal();
      let base = cl.index(2024, 1, 1).unwrap() as i64;
      let i = base + (p as i64 - crate::model::day_pillar(cl.jdn(base as usize))).rem_euclid(60);
      let (yy, mm, dd) = cl.ymd(i as usize);
      let via_day = SolarDay::from_ymd(yy as isize, mm as usize, dd as usize).get_sixty_cycle_day().get_fetus_day().to_string();
      c.eq("pillar", "fetus_via_sexagenary_day", format!("{} ({})", cl.fmt(i as usize), pillar_name(p as i64)), fd.to_string(), via_day);
      let via_lunar = SolarDay::from_ymd(yy as isize, mm as usize, dd as usize).get_lunar_day().get_fetus_day().to_string();
      c.eq("pillar", "fetus_via_lunar_day", format!("{} ({})", cl.fmt(i as usize), pillar_name(p as i64)), fd.to_string(), via_lunar);
      let (py, pm, pd) = cl.ymd(i as usize - 1);
      let hv = tyme4rs::tyme::solar::SolarTime::from_ymd_hms(py as isize, pm as usize, pd as usize, 23, 30, 0).get_sixty_cycle_hour().get_sixty_cycle_day();
      c.eq("pillar", "fetus_via_day_view_of_a_late_zi_hour", format!("{} 23:30 (day view {})", cl.fmt(i as usize - 1), hv.get_sixty_cycle().get_name()), FetusDay::new(hv.get_sixty_cycle()).to_string(), hv.get_fetus_day().to_string());
    }
  }

  fn eval_misc(&self, env: &Env, out: &mut Out, case: &Case) {
    out.nontrivial("misc", &[0]);
    let mut c = Ck { env, out, case };
    // five elements: generating and overcoming cycles, inverse pairs, directions
    for e in 0..5usize {
      let el = Element::from_index(e as isize);
      c.eq("misc", "element_name", format!("element {}", e), ELEM[e].into(), el.get_name());
      c.eq("misc", "element_reinforce", ELEM[e].into(), ELEM[(e + 1) % 5].into(), el.get_reinforce().get_name());
      c.eq("misc", "element_restrain", ELEM[e].into(), ELEM[(e + 2) % 5].into(), el.get_restrain().get_name());
      c.eq("misc", "element_reinforced_inverse", ELEM[e].into(), ELEM[e].into(), el.get_reinforce().get_reinforced().get_name());
      c.eq("misc", "element_restrained_inverse", ELEM[e].into(), ELEM[e].into(), el.get_restrain().get_restrained().get_name());
      c.eq("misc", "element_reinforced", ELEM[e].into(), ELEM[(e + 4) % 5].into(), el.get_reinforced().get_name());
      c.eq("misc", "element_restrained", ELEM[e].into(), ELEM[(e + 3) % 5].into(), el.get_restrained().get_name());
      c.eq("misc", "element_direction", ELEM[e].into(), elem_dir(e).into(), el.get_direction().get_name());
    }
    // nine palaces: direction names in Luoshu order and their elements
    let dirs = ["北", "西南", "东", "东南", "中", "西北", "西", "东北", "南"];
    for (i, d) in dirs.iter().enumerate() {
      let dd = Direction::from_index(i as isize);
      c.eq("misc", "direction_name", format!("palace {}", i + 1), (*d).into(), dd.get_name());
      c.eq("misc", "direction_element", (*d).into(), dir_elem(d).into(), dd.get_element().get_name());
      let ns = NineStar::from_index(i as isize);
      c.eq("misc", "nine_star_direction", format!("star {}", i + 1), (*d).into(), ns.get_direction().get_name());
      c.eq("misc", "nine_star_element", format!("star {}", i + 1), dir_elem(d).into(), ns.get_element().get_name());
      c.eq("misc", "nine_star_color", format!("star {}", i + 1), ["白", "黑", "碧", "绿", "黄", "白", "赤", "白", "紫"][i].into(), ns.get_color());
      c.eq("misc", "nine_star_dipper", format!("star {}", i + 1), ["天枢", "天璇", "天玑", "天权", "玉衡", "开阳", "摇光", "洞明", "隐元"][i].into(), ns.get_dipper().get_name());
    }
    // 28 mansions: zone, luminary, animal, nine fields, luck
    let mans = "角亢氐房心尾箕斗牛女虚危室壁奎娄胃昴毕觜参井鬼柳星张翼轸";
    let animals = "蛟龙貉兔狐虎豹獬牛蝠鼠燕猪獝狼狗彘鸡乌猴猿犴羊獐马鹿蛇蚓";
    let lum = ["木", "金", "土", "日", "月", "火", "水"];
    let lucky = "角房尾箕斗室壁娄胃毕参井张轸";
    // 九野: 钧天 角亢氐, 苍天 房心尾, 变天 箕斗牛, 玄天 女虚危室, 幽天 壁奎娄, 颢天 胃昴毕, 朱天 觜参井, 炎天 鬼柳星, 阳天 张翼轸
    let fields = [("钧天", "角亢氐"), ("苍天", "房心尾"), ("变天", "箕斗牛"), ("玄天", "女虚危室"), ("幽天", "壁奎娄"), ("颢天", "胃昴毕"), ("朱天", "觜参井"), ("炎天", "鬼柳星"), ("阳天", "张翼轸")];
    let field_dir = [("钧天", "中"), ("苍天", "东"), ("变天", "东北"), ("玄天", "北"), ("幽天", "西北"), ("颢天", "西"), ("朱天", "西南"), ("炎天", "南"), ("阳天", "东南")];
    for (i, ch) in mans.chars().enumerate() {
      let m = TwentyEightStar::from_index(i as isize);
      let nm = ch.to_string();
      c.eq("misc", "mansion_name", format!("mansion {}", i), nm.clone(), m.get_name());
      c.eq("misc", "mansion_zone", nm.clone(), ["东", "北", "西", "南"][i / 7].into(), m.get_zone().get_name());
      c.eq("misc", "mansion_beast", nm.clone(), ["青龙", "玄武", "白虎", "朱雀"][i / 7].into(), m.get_zone().get_beast().get_name());
      c.eq("misc", "mansion_zone_direction", nm.clone(), ["东", "北", "西", "南"][i / 7].into(), m.get_zone().get_direction().get_name());
      c.eq("misc", "mansion_luminary", nm.clone(), lum[i % 7].into(), m.get_seven_star().get_name());
      c.eq("misc", "mansion_animal", nm.clone(), animals.chars().nth(i).unwrap().to_string(), m.get_animal().get_name());
      let f = fields.iter().find(|(_, l)| l.contains(ch)).unwrap().0;
      c.eq("misc", "mansion_field", nm.clone(), f.into(), m.get_land().get_name());
      c.eq("misc", "field_direction", f.into(), field_dir.iter().find(|(n, _)| *n == f).unwrap().1.into(), m.get_land().get_direction().get_name());
      c.eq("misc", "mansion_luck", nm.clone(), (if lucky.contains(ch) { "吉" } else { "凶" }).into(), m.get_luck().get_name());
    }
    // minor Ren
    for (i, (n, l, e)) in [("大安", "吉", "木"), ("留连", "凶", "水"), ("速喜", "吉", "火"), ("赤口", "凶", "金"), ("小吉", "吉", "木"), ("空亡", "凶", "土")].iter().enumerate() {
      let r = MinorRen::from_index(i as isize);
      c.eq("misc", "minor_ren_name", format!("minor ren {}", i), (*n).into(), r.get_name());
      c.eq("misc", "minor_ren_luck", (*n).into(), (*l).into(), r.get_luck().get_name());
      c.eq("misc", "minor_ren_element", (*n).into(), (*e).into(), r.get_element().get_name());
    }
    // foetus spirit of the month (正月..十二月), none for a leap month
    let fm = ["占房床", "占户窗", "占门堂", "占厨灶", "占房床", "占床仓", "占碓磨", "占厕户", "占门房", "占房床", "占灶炉", "占房床"];
    // (years with a leap month early, in the middle, late, and none: the spirit goes with the month NUMBER)
    for y in [2023isize, 2020, 2024, 2033, 1984, 37, 9998] {
      for m in 1..=12usize {
        let lm = LunarMonth::from_ym(y, m as isize);
        c.eq("misc", "fetus_month", format!("lunar month {} of {}", m, y), format!("{:?}", Some(fm[m - 1].to_string())), format!("{:?}", FetusMonth::from_lunar_month(lm.clone()).map(|x| x.get_name())));
        c.eq("misc", "fetus_month_via_month", format!("lunar month {} of {}", m, y), format!("{:?}", Some(fm[m - 1].to_string())), format!("{:?}", lm.get_fetus().map(|x| x.get_name())));
      }
      let lp = tyme4rs::tyme::lunar::LunarYear::from_year(y).get_leap_month();
      if lp > 0 {
        c.eq("misc", "fetus_month_leap", format!("leap month {} of {}", lp, y), "None".into(), format!("{:?}", FetusMonth::from_lunar_month(LunarMonth::from_ym(y, -(lp as isize))).map(|x| x.get_name())));
      }
    }
  }

  /// a = [month, day]: zodiac sign by the 12 date intervals
  fn eval_sign(&self, env: &Env, out: &mut Out, case: &Case) {
    let (m, d) = (case.a[0], case.a[1]);
    // (sign, first month, first day) in calendar order starting with Capricorn's end
    let starts: [(&str, i64, i64); 12] = [("水瓶", 1, 20), ("双鱼", 2, 19), ("白羊", 3, 21), ("金牛", 4, 20), ("双子", 5, 21), ("巨蟹", 6, 22), ("狮子", 7, 23), ("处女", 8, 23), ("天秤", 9, 23), ("天蝎", 10, 24), ("射手", 11, 23), ("摩羯", 12, 22)];
    let mut exp = "摩羯";
    for (n, sm, sdd) in starts {
      if (m, d) >= (sm, sdd) {
        exp = n;
      }
    }
    let edge = starts.iter().any(|(_, sm, sdd)| *sm == m && (d == *sdd || d == *sdd - 1));
    if edge {
      out.nontrivial("sign", &[m, d]);
    }
    let g = SolarDay::from_ymd(2024, m as usize, d as usize).get_constellation().get_name();
    out.sample("sign", edge, || json!({"month": m, "day": d, "sign": g}));
    let mut c = Ck { env, out, case };
    c.eq("sign", "zodiac_sign", format!("{:02}-{:02}", m, d), exp.into(), g);
    // the sign depends on month and day only: the same in common years, in the reform year 1582 (whose day-of-year
    // numbering has a gap) and at both ends of the range
    for yy in [2023i64, 1582, 1, 4, 1500, 1600, 1900, 9999] {
      if crate::model::date_exists(yy, m, d) {
        let gy = SolarDay::from_ymd(yy as isize, m as usize, d as usize).get_constellation().get_name();
        c.eq("sign", "zodiac_sign_in_other_years", format!("{}-{:02}-{:02}", yy, m, d), exp.into(), gy);
      }
    }
  }

  /// a = [year stem, month pillar, day pillar, hour pillar]: derived pillars of the eight characters
  fn eval_derived(&self, env: &Env, out: &mut Out, case: &Case) {
    let (ys, mp, dp, hp) = (case.a[0], case.a[1], case.a[2], case.a[3]);
    let yp = (0..60).find(|k| k % 10 == ys).unwrap();
    let ec = EightChar::from_sixty_cycle(SixtyCycle::from_index(yp as isize), SixtyCycle::from_index(mp as isize), SixtyCycle::from_index(dp as isize), SixtyCycle::from_index(hp as isize));
    let (mb, hb) = (mp % 12, hp % 12);
    if mb <= 2 && hb <= 2 {
      out.nontrivial("derived", &case.a);
    }
    let first = five_tigers_first_stem(ys);
    // a palace is named like a month of the same year: branch k places after Yin gets stem first+k
    let palace = |branch: i64| -> String {
      let k = (branch - 2).rem_euclid(12);
      format!("{}{}", STEMS[((first + k) % 10) as usize], BRANCHES[branch as usize])
    };
    let r = guard(|| (ec.get_fetal_origin().get_name(), ec.get_fetal_breath().get_name(), ec.get_own_sign().get_name(), ec.get_body_sign().get_name()));
    let (fo, fb, own, body) = match r {
      Ok(x) => x,
      Err(e) => {
        out.eval("derived");
        out.fail(env, Viol { sub: "derived".into(), kind: "panics".into(), case: case.clone(), key: key(&[("mb", mb), ("hb", hb), ("ys", ys)]), desc: format!("eight characters year stem {} month {} day {} hour {}", STEMS[ys as usize], pillar_name(mp), pillar_name(dp), pillar_name(hp)), expected: "four derived pillars".into(), got: e });
        return;
      }
    };
    out.sample("derived", mb <= 2 && hb <= 2, || json!({"year_stem": STEMS[ys as usize], "month": pillar_name(mp), "day": pillar_name(dp), "hour": pillar_name(hp), "fetal_origin": fo, "fetal_breath": fb, "own_sign": own, "body_sign": body}));
    let mut c = Ck { env, out, case };
    let subj = format!("year stem {} month {} day {} hour {}", STEMS[ys as usize], pillar_name(mp), pillar_name(dp), pillar_name(hp));
    // foetal origin: month stem + 1, month branch + 3
    c.eq("derived", "fetal_origin", subj.clone(), format!("{}{}", STEMS[((mp % 10 + 1) % 10) as usize], BRANCHES[((mb + 3) % 12) as usize]), fo);
    // foetal breath: the pillar that combines with the day pillar (stem five-combination, branch six-combination)
    c.eq("derived", "fetal_breath", subj.clone(), format!("{}{}", STEMS[((dp % 10 + 5) % 10) as usize], BRANCHES[((13 - dp % 12) % 12) as usize]), fb);
    // own sign (命宫): branch (5 - month branch - hour branch) mod 12, named by Five Tigers from the year stem
    c.eq("derived", "own_sign", subj.clone(), palace((5 - mb - hb).rem_euclid(12)), own);
    // body sign (身宫): branch (month branch + hour branch + 1) mod 12, named by Five Tigers
    c.eq("derived", "body_sign", subj, palace((mb + hb + 1).rem_euclid(12)), body);
  }
}

impl Prop for C19 {
  fn id(&self) -> &'static str {
    "C19"
  }
  fn meta(&self, _env: &Env) -> Meta {
    Meta {
      rule: "Finite spaces enumerated completely in both tiers, every element compared BY NAME with an encoding written from the rules/rhymes: `stem` 10 stems (element, polarity, direction, the joy / yang-noble / yin-noble / wealth / fortune direction rhymes parsed through trigram and animal-sector names, five combinations incl. element and involution); `stem_pair` 10x10 ten-star relation from generating/overcoming + polarity; `stem_branch` 10x12 growth stages forward/backward from the birth branch; `branch` 12 branches (seasonal element, polarity, direction, zodiac, hidden stems, clash, six combinations + element, harms, triad ominous direction, involutions); `pillar` 60 pillars (Nayin by name list AND by the stem-pair+branch-triple rule, Xun, void branches, foetus-spirit parts and the run-length-encoded 60-day direction table); `misc` elements (cycles, inverse pairs), nine palaces/stars, 28 mansions (zone, beast, luminary, animal, nine fields, luck), minor Ren, monthly foetus spirit; `sign` all 366 month-days against the 12 zodiac intervals; `derived` all 10 year stems x 12 month branches x 12 hour branches x 6 day pillars: foetal origin/breath and own/body sign. Every element is a distinct non-trivial case (sign: days at an interval edge; derived: month and hour branch both in 子丑寅).".into(),
      assumptions: vec![
        "For purely conventional tables (mansion luck, nine-star colours, monthly foetus spirit) the oracle is a second transcription; it detects a changed element but cannot arbitrate between schools".into(),
        "Own/body sign: palace branch (5-mb-hb) resp. (mb+hb+1) mod 12 and palace stem by Five Tigers from the year stem, the convention the code itself implements for 141 of the 144 (month, hour) branch pairs".into(),
      ],
      level_text: String::new(),
    }
  }
  fn plan(&self, _env: &Env) -> Vec<TaskSpec> {
    vec![task("all", 8)]
  }
  fn run(&self, env: &Env, _t: &str, shard: usize, nshards: usize, out: &mut Out) {
    let ev = |e: &Env, o: &mut Out, s: &str, cs: &Case| self.eval(e, o, s, cs);
    // The finite spaces are evaluated FIRST in every shard - each shard is a fresh process - and each shard takes them in a
    // different order (ascending, descending, seed-shuffled ...): whichever stem / branch / pillar is the first to ask in a
    // process must not determine what the others get (tables built lazily from the first request).
    {
      let mut cases: Vec<(&'static str, Vec<i64>)> = vec![];
      for s in 0..10 {
        cases.push(("stem", vec![s]));
        for t in 0..10 {
          cases.push(("stem_pair", vec![s, t]));
        }
        for b in 0..12 {
          cases.push(("stem_branch", vec![s, b]));
        }
      }
      for b in 0..12 {
        cases.push(("branch", vec![b]));
      }
      for p in 0..60 {
        cases.push(("pillar", vec![p]));
      }
      match shard {
        0 => {}
        1 => cases.reverse(),
        k => {
          // Fisher-Yates with a splitmix stream of (seed, shard)
          let mut x = env.seed ^ (k as u64).wrapping_mul(0x9E37_79B9_7F4A_7C15);
          let mut nextu = || { x = x.wrapping_add(0x9E37_79B9_7F4A_7C15); let mut z = x; z = (z ^ (z >> 30)).wrapping_mul(0xBF58_476D_1CE4_E5B9); z = (z ^ (z >> 27)).wrapping_mul(0x94D0_49BB_1331_11EB); z ^ (z >> 31) };
          for i in (1..cases.len()).rev() {
            let j = (nextu() % (i as u64 + 1)) as usize;
            cases.swap(i, j);
          }
        }
      }
      out.class(match shard { 0 => "finite_spaces_first_in_a_fresh_process_ascending", 1 => "finite_spaces_first_in_a_fresh_process_descending", _ => "finite_spaces_first_in_a_fresh_process_shuffled" });
      let mut rev = Reverse::new(1);
      for (sub, a) in &cases {
        run_case(env, out, sub, &Case::ints(a), &ev);
        rev.note(sub, &Case::ints(a));
      }
      // the same finite spaces once more in the opposite order (answers must not depend on what was asked before)
      rev.run(env, out, &ev);
    }
    // route equivalence of the day objects this property reads (see routes.rs)
    prop_run(env, out, "routes", env.tier.pick(1600, 64000) / nshards as u32, 8800 + shard as u64, crate::routes::date_strategy(), &ev);
    out.set_exhaustive("routes", false);
    if shard == 0 {
      run_case(env, out, "misc", &Case::ints(&[0]), &ev);
      for m in 1..=12i64 {
        for d in 1..=month_len_nominal(2024, m) {
          run_case(env, out, "sign", &Case::ints(&[m, d]), &ev);
        }
      }
    }
    // derived pillars: year stem x month pillar (by branch; stem irrelevant except foetal origin) x hour pillar x a few day pillars
    for ys in 0..10i64 {
      if ys as usize % nshards != shard {
        continue;
      }
      for mp in 0..60i64 {
        for hp in (0..60i64).step_by(1).filter(|h| h % 5 == mp % 5 || *h < 12) {
          for dp in [0i64, 13, 26, 39, 52, 59] {
            run_case(env, out, "derived", &Case::ints(&[ys, mp, dp, hp]), &ev);
          }
        }
      }
    }
    for s in ["stem", "stem_pair", "stem_branch", "branch", "pillar", "misc", "sign", "derived"] {
      out.set_exhaustive(s, true);
    }
  }
  fn eval(&self, env: &Env, out: &mut Out, sub: &str, case: &Case) {
    match sub {
      "stem" => self.eval_stem(env, out, case),
      "stem_pair" => self.eval_stem_pair(env, out, case),
      "stem_branch" => self.eval_stem_branch(env, out, case),
      "branch" => self.eval_branch(env, out, case),
      "pillar" => self.eval_pillar(env, out, case),
      "misc" => self.eval_misc(env, out, case),
      "sign" => self.eval_sign(env, out, case),
      "derived" => self.eval_derived(env, out, case),
      "routes" => crate::routes::compare_day_routes(env, out, "routes", case, (case.a[0].clamp(0, crate::model::NDAYS as i64 - 1)) as usize, &crate::routes::fields_c19),
      _ => panic!("unknown sub-check {}", sub),
    }
  }
}
