//! C04 Month numbers and the leap month follow the no-major-term rule

use crate::adapt::*;
use crate::engine::*;
use crate::lunmodel::*;
use serde_json::json;
use tyme4rs::tyme::lunar::LunarMonth;
use tyme4rs::tyme::solar::SolarTerm;

pub struct C04;

fn viol(sub: &str, kind: &str, case: &Case, k: &[(&str, i64)], desc: String, expected: String, got: String) -> Viol {
  Viol { sub: sub.into(), kind: kind.into(), case: case.clone(), key: key(k), desc, expected, got }
}

/// calendar-making day (JDN) of term (year, index)
fn cursory_jdn(y: i64, i: i64) -> i64 {
  (SolarTerm::from_index(y as isize, i as isize).get_cursory_julian_day() + 2451545.0 + 0.5).floor() as i64
}

fn first_jdn(p: usize) -> i64 {
  let (y, m) = lunlist().at(p);
  lm_first_jdn(&LunarMonth::from_ym(y as isize, m as isize))
}

/// position of the lunation containing day j, searching around a guess
fn lunation_of(j: i64, guess: usize) -> Option<usize> {
  let l = lunlist();
  let mut p = guess.min(l.len() - 2);
  for _ in 0..40 {
    let f = first_jdn(p);
    if j < f {
      if p == 0 {
        return None;
      }
      p -= 1;
    } else if p + 1 < l.len() && j >= first_jdn(p + 1) {
      p += 1;
    } else {
      return Some(p);
    }
  }
  None
}

impl C04 {
  /// a = [Y]: the span from the winter solstice of December Y-1 to the winter solstice of December Y
  fn eval_span(&self, env: &Env, out: &mut Out, case: &Case) {
    let y = case.a[0];
    let l = lunlist();
    out.eval("span");
    let k = [("y", y)];
    // "otherwise there is no leap month": exactly the stored leap month can be constructed, every other -k is refused
    {
      let stored = tyme4rs::tyme::lunar::LunarYear::from_year(y as isize).get_leap_month() as i64;
      for kk in 1..=12i64 {
        let r = guard(|| tyme4rs::tyme::lunar::LunarMonth::new(y as isize, -(kk as isize)).map(|m| m.get_month_with_leap() as i64));
        let accepted = matches!(r, Ok(Ok(_)));
        if accepted != (kk == stored) {
          out.fail(env, viol("span", if accepted { "leap_month_the_year_does_not_have_is_accepted" } else { "stored_leap_month_is_refused" }, case, &[("y", y), ("k", kk)], format!("LunarMonth::new({}, -{})", y, kk), if kk == stored { "accepted (stored leap month)".into() } else { format!("refused (stored leap month of {} is {})", y, stored) }, format!("{:?}", r)));
          break;
        }
      }
    }
    // the term days this rule is judged against do not depend on how the term is addressed: (y, i) == (y + 1, i - 24)
    for i in (0..24i64).step_by(2) {
      let (a, b) = (cursory_jdn(y, i), cursory_jdn(y + 1, i - 24));
      if a != b {
        out.fail(env, viol("span", "term_day_depends_on_how_the_term_is_addressed", case, &[("y", y), ("i", i)], format!("SolarTerm::from_index({}, {}) vs from_index({}, {})", y, i, y + 1, i - 24), a.to_string(), b.to_string()));
        break;
      }
    }
    let w0 = cursory_jdn(y, 0);
    let w1 = cursory_jdn(y + 1, 0);
    let g0 = l.pos(y - 1, 11).unwrap_or(0);
    let (p0, p1) = match (lunation_of(w0, g0), lunation_of(w1, g0 + 12)) {
      (Some(a), Some(b)) => (a, b),
      _ => {
        out.fail(env, viol("span", "solstice_lunation_not_found", case, &k, format!("solstices of December {} and {}", y - 1, y), "a lunation containing each".into(), "none".into()));
        return;
      }
    };
    let count = p1 - p0;
    // zhongqi (even-index term) days of the span
    let mut z: Vec<i64> = (0..12).map(|j| cursory_jdn(y, 2 * j)).collect();
    z.push(w1);
    let firsts: Vec<i64> = (p0..=p1 + 1).map(first_jdn).collect();
    let holds = |q: usize| -> usize {
      let (a, b) = (firsts[q - p0], firsts[q - p0 + 1]);
      z.iter().filter(|d| **d >= a && **d < b).count()
    };
    let two = (p0..p1).any(|q| holds(q) >= 2);
    let nt = count == 13 || two;
    if nt {
      out.nontrivial("span", &[y]);
    }
    if count == 13 {
      out.class("span_of_13_lunations");
    }
    if two {
      out.class("span_with_a_month_holding_two_zhongqi");
    }
    if count != 12 && count != 13 {
      out.fail(env, viol("span", "span_length", case, &k, format!("lunations between the solstice months of {} and {}", y - 1, y), "12 or 13".into(), count.to_string()));
      return;
    }
    // expected labels
    let mut exp: Vec<(i64, i64)> = vec![(y - 1, 11)];
    let leap_at = if count == 13 { (p0 + 1..p1).find(|q| holds(*q) == 0) } else { None };
    if count == 13 && leap_at.is_none() {
      out.fail(env, viol("span", "no_month_without_zhongqi_in_13_month_span", case, &k, format!("span of year {}", y), "one lunation without a major term".into(), "none".into()));
      return;
    }
    let (mut cy, mut cm) = (y - 1, 11i64);
    for q in p0 + 1..=p1 {
      if Some(q) == leap_at {
        exp.push((cy, -cm));
      } else {
        cm += 1;
        if cm > 12 {
          cm = 1;
          cy += 1;
        }
        exp.push((cy, cm));
      }
    }
    let got: Vec<(i64, i64)> = (p0..=p1).map(|q| l.at(q)).collect();
    if out.wants_sample("span", nt) {
      out.sample("span", nt, || json!({"year": y, "lunations": count, "leap_label_expected": leap_at.map(|q| exp[q - p0]), "labels": got.iter().map(|x| x.1).collect::<Vec<_>>()}));
    }
    if got[0] != (y - 1, 11) {
      out.fail(env, viol("span", "solstice_month_is_not_11", case, &k, format!("lunation containing the solstice of December {}", y - 1), format!("({},11)", y - 1), format!("{:?}", got[0])));
    }
    if got[got.len() - 1] != (y, 11) {
      out.fail(env, viol("span", "solstice_month_is_not_11", case, &k, format!("lunation containing the solstice of December {}", y), format!("({},11)", y), format!("{:?}", got[got.len() - 1])));
    }
    if got != exp {
      let at = (0..got.len()).find(|j| got[*j] != exp[*j]).unwrap();
      out.fail(env, viol("span", "labels_vs_no_zhongqi_rule", case, &k, format!("span of year {} ({} lunations), lunation #{}", y, count, at), format!("{:?} (sequence {:?})", exp[at], exp.iter().map(|x| x.1).collect::<Vec<_>>()), format!("{:?} (sequence {:?})", got[at], got.iter().map(|x| x.1).collect::<Vec<_>>())));
    }
    // the stored leap month of year y agrees
    let leap_year_y: i64 = exp.iter().filter(|x| x.0 == y && x.1 < 0).map(|x| -x.1).next().unwrap_or(0);
    let lib = l.leap[y as usize] as i64;
    // months 1..10 of year y lie inside this span; a leap 11/12 of year y belongs to the next span
    if leap_year_y != 0 && lib != leap_year_y {
      out.fail(env, viol("span", "leap_month_table", case, &k, format!("LunarYear({}).get_leap_month()", y), leap_year_y.to_string(), lib.to_string()));
    }
    if leap_year_y == 0 && lib != 0 && lib <= 10 {
      out.fail(env, viol("span", "leap_month_table", case, &k, format!("LunarYear({}).get_leap_month()", y), "no leap month among months 1..10".into(), lib.to_string()));
    }
  }
}

impl Prop for C04 {
  fn id(&self) -> &'static str {
    "C04"
  }
  fn meta(&self, _env: &Env) -> Meta {
    Meta {
      rule: "Generator `span` (exhaustive in both tiers): every winter-solstice-to-winter-solstice span Y = 27..9998 (December Y-1 to December Y) except the three spans 238, 239, 240 around the AD 237-240 reform, which the property excludes. Oracle from the library's own new-moon days (LunarMonth::get_first_julian_day) and calendar-making term days (SolarTerm::get_cursory_julian_day of the 12 even-index terms): the lunation containing each solstice is a regular month 11; the span has 12 or 13 lunations; with 12 there is no leap month and the labels run 11,12,1..11; with 13 the first lunation containing no major term carries minus the previous number and is the only leap; the stored leap-month table agrees. Non-trivial: spans of 13 lunations and spans in which some month holds two major terms. Distinct = distinct spans.".into(),
      assumptions: vec![
        "New-moon days and calendar-making term days are the library's own (their astronomy is C05); this check judges the leap table and month offsets against them".into(),
        "Labels of each lunation are taken at its position in the label list built from get_leap_month and constructed with LunarMonth::from_ym".into(),
      ],
      level_text: String::new(),
    }
  }
  fn plan(&self, _env: &Env) -> Vec<TaskSpec> {
    vec![task("spans", 16)]
  }
  fn run(&self, env: &Env, _t: &str, shard: usize, nshards: usize, out: &mut Out) {
    let ev = |e: &Env, o: &mut Out, s: &str, cs: &Case| self.eval(e, o, s, cs);
    let (lo, hi) = shard_range(9998 - 27 + 1, shard, nshards);
    let mut rev = Reverse::new(3);
    for y in 27 + lo as i64..27 + hi as i64 {
      if (238..=240).contains(&y) {
        out.skip("span_touches_the_AD_237_240_reform");
        continue;
      }
      run_case(env, out, "span", &Case::ints(&[y]), &ev);
      rev.note("span", &Case::ints(&[y]));
    }
    // every third span once more - descending, shuffled and concurrently, on fresh threads - after the ~8,700 lunations of
    // this shard have all been requested once (an answer must not depend on how many other months were asked before)
    rev.run(env, out, &ev);
    out.set_exhaustive("span", true);
  }
  fn eval(&self, env: &Env, out: &mut Out, sub: &str, case: &Case) {
    match sub {
      "span" => self.eval_span(env, out, case),
      _ => panic!("unknown sub-check {}", sub),
    }
  }
}
