//! C14 Weeks of a month: seven consecutive days, right start weekday, no day lost

use crate::adapt::*;
use crate::engine::*;
use crate::lunmodel::*;
use crate::model::*;
use proptest::prelude::*;
use serde_json::json;
use tyme4rs::tyme::lunar::{LunarMonth, LunarWeek};
use tyme4rs::tyme::solar::{SolarMonth, SolarWeek};
use tyme4rs::tyme::Tyme;

pub struct C14;

fn viol(sub: &str, kind: &str, case: &Case, k: &[(&str, i64)], desc: String, expected: String, got: String) -> Viol {
  Viol { sub: sub.into(), kind: kind.into(), case: case.clone(), key: key(k), desc, expected, got }
}

/// (index of the first day of week 0, week count) of a span starting at CAL index `first` with `len` days
fn block(first_jdn: i64, len: i64, s: i64) -> (i64, i64) {
  let offset = (weekday(first_jdn) - s).rem_euclid(7);
  (first_jdn - offset, (offset + len + 6) / 7)
}

/// which reform-era lunation adjacency (known C03 findings) does the JDN interval [lo, hi] touch? 0 = none
fn reform_zone(lo: i64, hi: i64) -> i64 {
  use std::sync::OnceLock;
  static Z: OnceLock<Vec<(i64, i64, i64)>> = OnceLock::new();
  let z = Z.get_or_init(|| {
    [(8i64, 9i64), (23, 24), (24, 25), (239, 240)]
      .iter()
      .map(|&(a, b)| {
        let f1 = lm_first_jdn(&LunarMonth::from_ym(a as isize, 12));
        let f2 = lm_first_jdn(&LunarMonth::from_ym(b as isize, 1));
        (a, f1.min(f2) - 7, f1.max(f2) + 36)
      })
      .collect()
  });
  for &(id, a, b) in z.iter() {
    if lo <= b && hi >= a {
      return id;
    }
  }
  0
}

fn in_range(jdn: i64) -> bool {
  jdn >= JDN0 && jdn + 6 < JDN0 + NDAYS as i64
}

impl C14 {
  /// a = [y, m, start]
  fn eval_mweeks(&self, env: &Env, out: &mut Out, case: &Case) {
    let c = cal();
    let (y, m, s) = (case.a[0], case.a[1], case.a[2]);
    out.eval("mweeks");
    let first = c.jdn(c.index(y, m, 1).unwrap());
    let len = c.month_len(y, m);
    let (w0, cnt) = block(first, len, s);
    let partial = w0 != first;
    let nt = partial || (y == 1582 && m == 10) || (m == 2 && cnt == 4);
    if nt {
      out.nontrivial("mweeks", &[y, m, s]);
    }
    if y == 1582 && m == 10 {
      out.class("october_1582");
    }
    if m == 2 && cnt == 4 {
      out.class("february_with_exactly_4_weeks");
    }
    let k = [("y", y), ("m", m), ("s", s)];
    let mo = SolarMonth::from_ym(y as isize, m as usize);
    let gc = mo.get_week_count(s as usize) as i64;
    if out.wants_sample("mweeks", nt) {
      out.sample("mweeks", nt, || json!({"month": [y, m], "week_start": s, "week_count": gc, "first_week_starts_jdn": w0}));
    }
    if gc != cnt {
      out.fail(env, viol("mweeks", "week_count", case, &k, format!("{}-{} start {}", y, m, s), cnt.to_string(), gc.to_string()));
      return;
    }
    // one past the last index is refused
    if cnt < 6 {
      if let Ok(Ok(_)) = guard(|| SolarWeek::new(y as isize, m as usize, cnt as usize, s as usize)) {
        out.fail(env, viol("mweeks", "index_past_count_accepted", case, &k, format!("SolarWeek::new({},{},{},{})", y, m, cnt, s), "refused".into(), "accepted".into()));
      }
    }
    let ws = mo.get_weeks(s as usize);
    if ws.len() as i64 != cnt {
      out.fail(env, viol("mweeks", "weeks_len", case, &k, format!("{}-{} start {}", y, m, s), cnt.to_string(), ws.len().to_string()));
      return;
    }
    let mut covered = 0i64;
    for (j, w) in ws.iter().enumerate() {
      let ef = w0 + 7 * j as i64;
      if !in_range(ef) {
        out.skip("week_reaches_outside_0001_9999");
        continue;
      }
      let kk = [("y", y), ("m", m), ("s", s), ("k", j as i64)];
      let r = guard(|| (ymd(&w.get_first_day()), w.get_days().iter().map(ymd).collect::<Vec<_>>(), w.get_index() as i64, w.get_start().get_index() as i64, w.get_first_day().get_week().get_index() as i64));
      match r {
        Ok((fd, days, idx, st, wd)) => {
          let ei = c.index_of_jdn(ef).unwrap();
          let exp: Vec<(i64, i64, i64)> = (0..7).map(|t| c.ymd(ei + t)).collect();
          if fd != exp[0] || wd != s || st != s || idx != j as i64 {
            out.fail(env, viol("mweeks", "first_day", case, &kk, format!("week {} of {}-{} start {}", j, y, m, s), format!("{} (weekday {})", c.fmt(ei), s), format!("{} (weekday {}, index {}, start {})", fmt_ymd(fd), wd, idx, st)));
          }
          if days != exp {
            out.fail(env, viol("mweeks", "seven_consecutive_days", case, &kk, format!("week {} of {}-{} start {}", j, y, m, s), format!("{:?}", exp.iter().map(|d| fmt_ymd(*d)).collect::<Vec<_>>()), format!("{:?}", days.iter().map(|d| fmt_ymd(*d)).collect::<Vec<_>>())));
          }
          covered += days.iter().filter(|d| d.0 == y && d.1 == m).count() as i64;
        }
        Err(e) => {
          out.fail(env, viol("mweeks", "week_panics", case, &kk, format!("week {} of {}-{} start {}", j, y, m, s), "7 days".into(), e));
        }
      }
    }
    if covered != len && in_range(w0) && in_range(w0 + 7 * (cnt - 1)) {
      out.fail(env, viol("mweeks", "weeks_do_not_cover_month", case, &k, format!("{}-{} start {}", y, m, s), format!("{} days of the month inside its weeks", len), covered.to_string()));
    }
  }

  /// a = [date index, start, n]: week of a date, stepping, index in year
  fn eval_dweek(&self, env: &Env, out: &mut Out, case: &Case) {
    let c = cal();
    let i = case.a[0] as usize;
    let s = case.a[1].rem_euclid(7);
    let n = case.a[2];
    let (y, m, d) = c.ymd(i);
    let jdn = c.jdn(i);
    let wf = jdn - (weekday(jdn) - s).rem_euclid(7);
    if !in_range(wf) {
      out.skip("week_reaches_outside_0001_9999");
      return;
    }
    out.eval("dweek");
    let k = [("y", y), ("m", m), ("d", d), ("s", s), ("n", n), ("jdn", jdn)];
    let first = c.jdn(c.index(y, m, 1).unwrap());
    let (w0, _) = block(first, c.month_len(y, m), s);
    let eidx = (wf - w0) / 7;
    let sdv = sd_idx(c, i);
    let w = match guard(|| sdv.get_solar_week(s as usize)) {
      Ok(w) => w,
      Err(e) => {
        out.fail(env, viol("dweek", "get_solar_week_panics", case, &k, format!("{} start {}", c.fmt(i), s), format!("week {} of {}-{}", eidx, y, m), e));
        return;
      }
    };
    let fd = ymd(&w.get_first_day());
    let fj = c.index(fd.0, fd.1, fd.2).map(|x| c.jdn(x)).unwrap_or(-1);
    let target = wf + 7 * n;
    let crosses_month = in_range(target) && {
      let t = c.ymd(c.index_of_jdn(target + 6).unwrap());
      (t.0, t.1) != (y, m) || { let t0 = c.ymd(c.index_of_jdn(target).unwrap()); (t0.0, t0.1) != (y, m) }
    };
    let nt = (y == 1582 && m == 10) || crosses_month || w0 != first;
    if nt {
      out.nontrivial("dweek", &[i as i64, s, n]);
    }
    if crosses_month && n != 0 {
      out.class("week_step_crosses_a_month_border");
    }
    if out.wants_sample("dweek", nt) {
      out.sample("dweek", nt, || json!({"date": c.fmt(i), "week_start": s, "week_first_day": fmt_ymd(fd), "step": n}));
    }
    if fj != wf || (w.get_year() as i64, w.get_month() as i64, w.get_index() as i64) != (y, m, eidx) {
      out.fail(env, viol("dweek", "week_of_date", case, &k, format!("{} start {}", c.fmt(i), s), format!("week {} of {}-{} starting {}", eidx, y, m, c.fmt(c.index_of_jdn(wf).unwrap())), format!("week {} of {}-{} starting {}", w.get_index(), w.get_year(), w.get_month(), fmt_ymd(fd))));
      return;
    }
    // stepping moves the first day by 7n
    if in_range(target) {
      let ty = c.ymd(c.index_of_jdn(target).unwrap()).0;
      let ty2 = c.ymd(c.index_of_jdn(target + 6).unwrap()).0;
      if ty >= 1 && ty2 <= 9999 && !(ty == 1 && c.ymd(c.index_of_jdn(target).unwrap()).1 == 1) && !(ty2 == 9999 && c.ymd(c.index_of_jdn(target + 6).unwrap()).1 == 12) {
        match guard(|| {
          let x = w.next(n as isize);
          (ymd(&x.get_first_day()), x.get_start().get_index() as i64, x.get_days().len())
        }) {
          Ok((nf, ns, nl)) => {
            let nfj = c.index(nf.0, nf.1, nf.2).map(|x| c.jdn(x)).unwrap_or(-1);
            if nfj != target || ns != s || nl != 7 {
              out.fail(env, viol("dweek", "week_next_n", case, &k, format!("week of {} (start {}) .next({})", c.fmt(i), s, n), c.fmt(c.index_of_jdn(target).unwrap()), fmt_ymd(nf)));
            }
          }
          Err(e) => {
            out.fail(env, viol("dweek", "week_next_panics", case, &k, format!("week of {} (start {}) .next({})", c.fmt(i), s, n), c.fmt(c.index_of_jdn(target).unwrap()), e));
          }
        }
      } else {
        out.skip("stepped_week_touches_range_edge_month");
      }
    }
    // index in year: weeks counted from the one containing January 1 of the week's year
    if case.a.get(3).cloned().unwrap_or(0) == 1 && y >= 2 {
      let jan1 = c.jdn(c.index(y, 1, 1).unwrap());
      let y0 = jan1 - (weekday(jan1) - s).rem_euclid(7);
      out.class("index_in_year_checked");
      match guard(|| w.get_index_in_year() as i64) {
        Ok(g) => {
          if g != (wf - y0) / 7 {
            out.fail(env, viol("dweek", "index_in_year", case, &k, format!("week of {} start {}", c.fmt(i), s), ((wf - y0) / 7).to_string(), g.to_string()));
          }
        }
        Err(e) => {
          out.fail(env, viol("dweek", "index_in_year_panics", case, &k, format!("week of {} start {}", c.fmt(i), s), ((wf - y0) / 7).to_string(), e));
        }
      }
    }
  }

  /// a = [ly, lm, start, n]: weeks of a lunar month and stepping of each
  fn eval_lweeks(&self, env: &Env, out: &mut Out, case: &Case) {
    let c = cal();
    let (y, m, s, n) = (case.a[0], case.a[1], case.a[2], case.a[3]);
    let l = lunlist();
    let p = match l.pos(y, m) {
      Some(p) => p,
      None => return,
    };
    let mo = LunarMonth::from_ym(y as isize, m as isize);
    let first = lm_first_jdn(&mo);
    let len = mo.get_day_count() as i64;
    let (w0, cnt) = block(first, len, s);
    if !in_range(w0 - 70 * 7) || !in_range(w0 + 7 * (cnt + 70)) {
      out.skip("lunar_week_near_range_edge");
      return;
    }
    out.eval("lweeks");
    let nt = w0 != first || m < 0;
    if nt {
      out.nontrivial("lweeks", &[y, m, s, n]);
    }
    let k = [("ly", y), ("lm", m), ("s", s), ("n", n)];
    let gc = mo.get_week_count(s as usize) as i64;
    if gc != cnt {
      out.fail(env, viol("lweeks", "week_count", case, &k, format!("L({},{}) start {}", y, m, s), cnt.to_string(), gc.to_string()));
      return;
    }
    let ws = mo.get_weeks(s as usize);
    if ws.len() as i64 != cnt {
      out.fail(env, viol("lweeks", "weeks_len", case, &k, format!("L({},{}) start {}", y, m, s), cnt.to_string(), ws.len().to_string()));
      return;
    }
    if out.wants_sample("lweeks", nt) {
      out.sample("lweeks", nt, || json!({"lunar_month": [y, m], "week_start": s, "week_count": cnt, "step": n}));
    }
    for (j, w) in ws.iter().enumerate() {
      let ef = w0 + 7 * j as i64;
      let tgt = ef + 7 * n;
      let kk = [("ly", y), ("lm", m), ("s", s), ("k", j as i64), ("n", n), ("lpos", p as i64), ("week_zone", reform_zone(ef, ef + 6)), ("step_zone", reform_zone(ef.min(tgt), ef.max(tgt) + 6))];
      match guard(|| (ymd(&w.get_first_day().get_solar_day()), w.get_days().iter().map(|d| ymd(&d.get_solar_day())).collect::<Vec<_>>(), w.get_first_day().get_week().get_index() as i64)) {
        Ok((fd, days, wd)) => {
          let ei = c.index_of_jdn(ef).unwrap();
          let exp: Vec<(i64, i64, i64)> = (0..7).map(|t| c.ymd(ei + t)).collect();
          if fd != exp[0] || wd != s || days != exp {
            out.fail(env, viol("lweeks", "week_days", case, &kk, format!("week {} of L({},{}) start {}", j, y, m, s), format!("7 days from {}", c.fmt(ei)), format!("{:?}", days.iter().map(|d| fmt_ymd(*d)).collect::<Vec<_>>())));
          }
        }
        Err(e) => {
          out.fail(env, viol("lweeks", "week_panics", case, &kk, format!("week {} of L({},{}) start {}", j, y, m, s), "7 days".into(), e));
        }
      }
      // stepping
      let target = ef + 7 * n;
      match guard(|| {
        let x = w.next(n as isize);
        (ymd(&x.get_first_day().get_solar_day()), x.get_start().get_index() as i64)
      }) {
        Ok((nf, ns)) => {
          let nfj = c.index(nf.0, nf.1, nf.2).map(|x| c.jdn(x)).unwrap_or(-1);
          if nfj != target || ns != s {
            out.fail(env, viol("lweeks", "week_next_n", case, &kk, format!("week {} of L({},{}) start {} .next({})", j, y, m, s, n), c.fmt(c.index_of_jdn(target).unwrap()), fmt_ymd(nf)));
          }
        }
        Err(e) => {
          out.fail(env, viol("lweeks", "week_next_panics", case, &kk, format!("week {} of L({},{}) start {} .next({})", j, y, m, s, n), c.fmt(c.index_of_jdn(target).unwrap()), e));
        }
      }
    }
  }
}

#[allow(dead_code)]
fn _u(_: LunarWeek) {}

fn dweek_strategy() -> impl Strategy<Value = Case> {
  let lo = cal().index(1, 2, 1).unwrap() as i64;
  let hi = cal().index(9999, 11, 30).unwrap() as i64;
  let oct = cal().index(1582, 9, 25).unwrap() as i64;
  let idx = prop_oneof![8 => lo..=hi, 2 => oct..oct + 60];
  (idx, 0i64..7, prop_oneof![4 => -60i64..=60, 2 => -6i64..=6, 1 => Just(0i64)], prop_oneof![4 => Just(0i64), 1 => Just(1i64)]).prop_map(|(i, s, n, q)| Case::ints(&[i, s, n, q]))
}

fn lweeks_strategy() -> impl Strategy<Value = Case> {
  let n = lunlist().len() as i64;
  (20i64..n - 20, 0i64..7, -60i64..=60).prop_map(|(p, s, k)| {
    let (y, m) = lunlist().at(p as usize);
    Case::ints(&[y, m, s, k])
  })
}

impl Prop for C14 {
  fn id(&self) -> &'static str {
    "C14"
  }
  fn meta(&self, env: &Env) -> Meta {
    Meta {
      rule: format!("Oracle: for a month starting on day F with L existing days and week start s, the weeks are the ceil((offset+L)/7) seven-day blocks starting on weekday s that intersect it (offset = (weekday(F)-s) mod 7), all from the model calendar. Generators: (a) `mweeks`: {} x 7 start weekdays: count, one-past-count refused, every week's first day/weekday/index/start, its 7 consecutive days, coverage of the month; (b) `dweek`: proptest (date 0001-02..9999-11 with 1582-09-25..11-23 over-weighted, start, n in -60..60): the week of the date is the block containing it (by first day, month, index), next(n) moves the first day by 7n, and on 20% of cases index-in-year == (first day - first day of the week containing Jan 1)/7; all dates of 1582-10 x 7 starts deterministically; (c) `lweeks`: proptest (lunar month, start, n) plus the months around the reform years: same predicates over the lunar month's civil span, every week stepped by n. Non-trivial: month whose first day is not the start weekday, October 1582, February with exactly 4 weeks, steps crossing a month border, leap lunar months. Distinct = distinct inputs.", env.tier.pick("every month of ~1100 stratified years (every 10th + special years)", "every civil month 0001-02..9999-11 (exhaustive)")),
      assumptions: vec![
        "Weeks are compared by first day, month, index and start weekday, never by name (a straddling week has two names)".into(),
        "Weeks that reach outside 0001-01-01..9999-12-31 or step into the first/last month of the range are out of domain and skipped".into(),
      ],
      level_text: String::new(),
    }
  }
  fn plan(&self, _env: &Env) -> Vec<TaskSpec> {
    vec![task("mweeks", 16), task("dweek", 16), task("lweeks", 16)]
  }
  fn run(&self, env: &Env, t: &str, shard: usize, nshards: usize, out: &mut Out) {
    let ev = |e: &Env, o: &mut Out, s: &str, cs: &Case| self.eval(e, o, s, cs);
    let c = cal();
    match t {
      "mweeks" => {
        let (ylo, yhi) = shard_range(9999, shard, nshards);
        let mut rev = Reverse::new(9);
        for y in ylo as i64 + 1..=yhi as i64 {
          if !(env.tier == Tier::Thorough || y % 10 == (env.seed % 10) as i64 || SPECIAL_YEARS.contains(&y)) {
            continue;
          }
          for m in 1..=12 {
            if (y == 1 && m == 1) || (y == 9999 && m == 12) {
              continue;
            }
            for s in 0..7 {
              run_case(env, out, "mweeks", &Case::ints(&[y, m, s]), &ev);
              rev.note("mweeks", &Case::ints(&[y, m, s]));
            }
          }
        }
        rev.run(env, out, &ev);
        out.set_exhaustive("mweeks", env.tier == Tier::Thorough);
      }
      "dweek" => {
        // strided walks on fresh threads (see engine::stride_walks)
        stride_walks(env, out, "dweek", env.tier.pick(1600, 48000) / nshards as u32, 7000 + shard as u64, 40, (crate::model::NDAYS as i64) - 40, 800, &|x| vec![x, x.rem_euclid(7), (x / 7).rem_euclid(9) - 4, 0], &ev);
        if shard == 0 {
          for i in c.index(1582, 9, 28).unwrap()..=c.index(1582, 11, 3).unwrap() {
            for s in 0..7 {
              for n in [0i64, 1, -1, 5] {
                run_case(env, out, "dweek", &Case::ints(&[i as i64, s, n, 1]), &ev);
              }
            }
          }
        }
        let total: u32 = env.tier.pick(200_000, 4_000_000);
        prop_run(env, out, "dweek", total / nshards as u32, shard as u64, dweek_strategy(), &ev);
        out.set_exhaustive("dweek", false);
      }
      "lweeks" => {
        if shard == 0 {
          for (y, ms) in [(8i64, vec![11i64, 12]), (9, vec![1, 2]), (23, vec![11, 12]), (24, vec![1, 12]), (25, vec![1]), (236, vec![12]), (237, vec![1]), (239, vec![11, 12]), (240, vec![1, 2])] {
            for m in ms {
              for s in [0i64, 1, 3] {
                for n in [-2i64, -1, 1, 2] {
                  run_case(env, out, "lweeks", &Case::ints(&[y, m, s, n]), &ev);
                }
              }
            }
          }
        }
        let total: u32 = env.tier.pick(24_000, 480_000);
        prop_run(env, out, "lweeks", total / nshards as u32, shard as u64, lweeks_strategy(), &ev);
        out.set_exhaustive("lweeks", false);
      }
      _ => panic!("unknown task {}", t),
    }
  }
  fn cold_subs(&self) -> Vec<(&'static str, i64, i64, fn(i64) -> Vec<i64>)> {
    vec![("dweek", 40, crate::model::NDAYS as i64 - 40, |x| vec![x, x.rem_euclid(7), (x / 7).rem_euclid(9) - 4, 0])]
  }
  fn eval(&self, env: &Env, out: &mut Out, sub: &str, case: &Case) {
    match sub {
      "mweeks" => self.eval_mweeks(env, out, case),
      "dweek" => self.eval_dweek(env, out, case),
      "lweeks" => self.eval_lweeks(env, out, case),
      _ => panic!("unknown sub-check {}", sub),
    }
  }
}
