//! C13 Containers list exactly their parts: year, half, season, month, day, hour

use crate::adapt::*;
use crate::engine::*;
use crate::lunmodel::*;
use crate::model::*;
use crate::terms::*;
use proptest::prelude::*;
use serde_json::json;
use tyme4rs::tyme::lunar::{LunarMonth, LunarYear};
use tyme4rs::tyme::sixtycycle::SixtyCycleYear;
use tyme4rs::tyme::solar::{SolarMonth, SolarYear};

pub struct C13;

fn viol(sub: &str, kind: &str, case: &Case, k: &[(&str, i64)], desc: String, expected: String, got: String) -> Viol {
  Viol { sub: sub.into(), kind: kind.into(), case: case.clone(), key: key(k), desc, expected, got }
}

impl C13 {
  fn eval_cyear(&self, env: &Env, out: &mut Out, case: &Case) {
    let c = cal();
    let y = case.a[0];
    out.eval("cyear");
    if y == 1582 || month_len_nominal(y, 2) == 29 {
      out.nontrivial("cyear", &[y]);
    }
    let k = [("y", y)];
    let sy = SolarYear::from_year(y as isize);
    let ms = sy.get_months();
    let got: Vec<(i64, i64)> = ms.iter().map(|m| (m.get_year() as i64, m.get_month() as i64)).collect();
    let exp: Vec<(i64, i64)> = (1..=12).map(|m| (y, m)).collect();
    if got != exp {
      out.fail(env, viol("cyear", "months", case, &k, format!("SolarYear({}).get_months()", y), format!("{:?}", exp), format!("{:?}", got)));
      return;
    }
    let sum: i64 = ms.iter().map(|m| m.get_day_count() as i64).sum();
    if sum != sy.get_day_count() as i64 || sum != c.year_len(y) {
      out.fail(env, viol("cyear", "day_count_vs_months", case, &k, format!("SolarYear({})", y), c.year_len(y).to_string(), format!("year {} sum of months {}", sy.get_day_count(), sum)));
    }
    let hs = sy.get_half_years();
    let ss = sy.get_seasons();
    if hs.len() != 2 || ss.len() != 4 || hs.iter().enumerate().any(|(i, h)| h.get_index() != i || h.get_year() as i64 != y) || ss.iter().enumerate().any(|(i, s)| s.get_index() != i || s.get_year() as i64 != y) {
      out.fail(env, viol("cyear", "halves_or_seasons", case, &k, format!("SolarYear({})", y), "2 half-years (index 0,1) and 4 seasons (index 0..3) of this year".into(), format!("{} halves {} seasons", hs.len(), ss.len())));
      return;
    }
    for (hi, h) in hs.iter().enumerate() {
      let hm: Vec<(i64, i64)> = h.get_months().iter().map(|m| (m.get_year() as i64, m.get_month() as i64)).collect();
      let he: Vec<(i64, i64)> = (1..=6).map(|m| (y, hi as i64 * 6 + m)).collect();
      if hm != he {
        out.fail(env, viol("cyear", "half_year_months", case, &k, format!("half {} of {}", hi, y), format!("{:?}", he), format!("{:?}", hm)));
      }
      let hsn: Vec<(i64, usize)> = h.get_seasons().iter().map(|s| (s.get_year() as i64, s.get_index())).collect();
      if hsn != vec![(y, hi * 2), (y, hi * 2 + 1)] {
        out.fail(env, viol("cyear", "half_year_seasons", case, &k, format!("half {} of {}", hi, y), format!("{:?}", vec![(y, hi * 2), (y, hi * 2 + 1)]), format!("{:?}", hsn)));
      }
    }
    for (si, s) in ss.iter().enumerate() {
      let sm: Vec<(i64, i64)> = s.get_months().iter().map(|m| (m.get_year() as i64, m.get_month() as i64)).collect();
      let se: Vec<(i64, i64)> = (1..=3).map(|m| (y, si as i64 * 3 + m)).collect();
      if sm != se {
        out.fail(env, viol("cyear", "season_months", case, &k, format!("season {} of {}", si, y), format!("{:?}", se), format!("{:?}", sm)));
      }
    }
    for m in &ms {
      let s = m.get_season();
      if s.get_index() as i64 != (m.get_month() as i64 - 1) / 3 || s.get_year() as i64 != y {
        out.fail(env, viol("cyear", "month_season", case, &k, format!("{}-{}", y, m.get_month()), format!("season {}", (m.get_month() as i64 - 1) / 3), format!("season {}", s.get_index())));
      }
    }
  }

  fn eval_cmonth(&self, env: &Env, out: &mut Out, case: &Case) {
    let c = cal();
    let (y, m) = (case.a[0], case.a[1]);
    out.eval("cmonth");
    let nt = m == 2 || (y == 1582 && m == 10);
    if nt {
      out.nontrivial("cmonth", &[y, m]);
    }
    let k = [("y", y), ("m", m)];
    let mo = SolarMonth::from_ym(y as isize, m as usize);
    let first = c.index(y, m, 1).unwrap();
    let n = c.month_len(y, m) as usize;
    let exp: Vec<(i64, i64, i64)> = (0..n).map(|j| c.ymd(first + j)).collect();
    match guard(|| mo.get_days().iter().map(ymd).collect::<Vec<_>>()) {
      Ok(got) => {
        if out.wants_sample("cmonth", nt) {
          out.sample("cmonth", nt, || json!({"month": [y, m], "days_listed": got.len(), "first": fmt_ymd(got[0]), "last": fmt_ymd(*got.last().unwrap())}));
        }
        if got != exp {
          out.fail(env, viol("cmonth", "days", case, &k, format!("SolarMonth({},{}).get_days()", y, m), format!("{} days {}..{}", exp.len(), fmt_ymd(exp[0]), fmt_ymd(*exp.last().unwrap())), format!("{} days {:?}..", got.len(), got.iter().take(6).collect::<Vec<_>>())));
        }
        // day-of-year of every listed day == its position in the concatenated month lists of the year
        let before = first - c.year_start[y as usize] as usize;
        for (j, dd) in mo.get_days().iter().enumerate() {
          // ... and hands back the month (and year) that lists it
          let pm = dd.get_solar_month();
          if (pm.get_year() as i64, pm.get_month() as i64) != (y, m) || pm.get_solar_year().get_year() as i64 != y {
            out.fail(env, viol("cmonth", "parent_accessors", case, &k, format!("{} .get_solar_month() / .get_solar_year()", fmt_ymd(ymd(dd))), format!("{}-{} of {}", y, m, y), format!("{}-{} of {}", pm.get_year(), pm.get_month(), pm.get_solar_year().get_year())));
            break;
          }
          if dd.get_index_in_year() != before + j {
            out.fail(env, viol("cmonth", "day_of_year_vs_lists", case, &k, format!("{} (day {} of the month list)", fmt_ymd(ymd(dd)), j), (before + j).to_string(), dd.get_index_in_year().to_string()));
            break;
          }
        }
        if got.len() != mo.get_day_count() {
          out.fail(env, viol("cmonth", "len_vs_day_count", case, &k, format!("SolarMonth({},{})", y, m), mo.get_day_count().to_string(), got.len().to_string()));
        }
      }
      Err(e) => {
        out.fail(env, viol("cmonth", "get_days_panics", case, &k, format!("SolarMonth({},{}).get_days()", y, m), format!("{} days", exp.len()), e));
      }
    }
  }

  fn eval_lmonth(&self, env: &Env, out: &mut Out, case: &Case) {
    let (y, m) = (case.a[0], case.a[1]);
    let l = lunlist();
    if l.pos(y, m).is_none() {
      return;
    }
    out.eval("lmonth");
    if m < 0 {
      out.nontrivial("lmonth", &[y, m]);
    }
    let k = [("ly", y), ("lm", m)];
    let mo = LunarMonth::from_ym(y as isize, m as isize);
    let first = lm_first_jdn(&mo);
    let ds = mo.get_days();
    let dc = mo.get_day_count();
    if ds.len() != dc || !(dc == 29 || dc == 30 || (y == 236 && m == 12)) {
      out.fail(env, viol("lmonth", "len", case, &k, format!("LunarMonth({},{}).get_days()", y, m), format!("{} (29 or 30)", dc), ds.len().to_string()));
    }
    for (j, d) in ds.iter().enumerate() {
      if lymd(d) != (y, m, j as i64 + 1) {
        out.fail(env, viol("lmonth", "day_labels", case, &k, format!("LunarMonth({},{}).get_days()[{}]", y, m, j), format!("({},{},{})", y, m, j + 1), format!("{:?}", lymd(d))));
        break;
      }
    }
    // consecutive civil days (only where the month lies inside the civil range)
    let c = cal();
    if let (Some(i0), Some(_)) = (c.index_of_jdn(first), c.index_of_jdn(first + dc as i64 - 1)) {
      for (j, d) in ds.iter().enumerate() {
        if ymd(&d.get_solar_day()) != c.ymd(i0 + j) {
          out.fail(env, viol("lmonth", "civil_days", case, &k, format!("LunarMonth({},{}).get_days()[{}]", y, m, j), c.fmt(i0 + j), fmt_ymd(ymd(&d.get_solar_day()))));
          break;
        }
      }
    } else {
      out.skip("lunar_month_partly_outside_civil_range");
    }
    // every listed lunar day lists its 13 double-hour slots - also the lunar days of years 0 and 9999 that have no civil
    // date (the hour list is a matter of the lunar day alone); first, middle and last day of the month
    for j in [0usize, dc / 2, dc.saturating_sub(1)] {
      if let Some(d) = ds.get(j) {
        match guard(|| d.get_hours().iter().map(|h| (lymd(&h.get_lunar_day()), h.get_hour() as i64, h.get_index_in_day() as i64)).collect::<Vec<_>>()) {
          Ok(hs) => {
            let mut exp = vec![((y, m, j as i64 + 1), 0i64, 0i64)];
            for q in 0..12i64 {
              exp.push(((y, m, j as i64 + 1), 2 * q + 1, q + 1));
            }
            if hs != exp {
              out.fail(env, viol("lmonth", "hours_of_listed_day", case, &k, format!("L({},{},{}).get_hours()", y, m, j + 1), "13 slots 00:00, 01:00, .. 23:00".into(), format!("{} slots {:?}", hs.len(), hs.iter().map(|x| x.1).collect::<Vec<_>>())));
              break;
            }
          }
          Err(e) => {
            out.fail(env, viol("lmonth", "hours_of_listed_day_panics", case, &k, format!("L({},{},{}).get_hours()", y, m, j + 1), "13 slots".into(), e));
            break;
          }
        }
      }
    }
  }

  fn eval_lyear(&self, env: &Env, out: &mut Out, case: &Case) {
    let y = case.a[0];
    let l = lunlist();
    out.eval("lyear");
    if l.leap[y as usize] > 0 {
      out.nontrivial("lyear", &[y]);
    }
    let k = [("ly", y)];
    let exp = l.months_of(y);
    match guard(|| LunarYear::from_year(y as isize).get_months().iter().map(|m| (m.get_year() as i64, m.get_month_with_leap() as i64)).collect::<Vec<_>>()) {
      Ok(got) => {
        let e: Vec<(i64, i64)> = exp.iter().map(|m| (y, *m)).collect();
        if got != e {
          out.fail(env, viol("lyear", "months", case, &k, format!("LunarYear({}).get_months()", y), format!("{:?}", exp), format!("{:?}", got)));
        }
      }
      Err(e) => {
        out.fail(env, viol("lyear", "get_months_panics", case, &k, format!("LunarYear({}).get_months()", y), format!("{:?}", exp), e));
      }
    }
  }

  /// hour lists of the lunar day and of the sexagenary day of a civil date
  fn eval_hours(&self, env: &Env, out: &mut Out, case: &Case) {
    let c = cal();
    let i = case.a[0] as usize;
    out.eval("hours");
    let (y, m, d) = c.ymd(i);
    let jdn = c.jdn(i);
    let k = [("y", y), ("m", m), ("d", d), ("jdn", jdn)];
    let s = sd_idx(c, i);
    // lunar day: 13 slots 00:00, 01:00, 03:00 ... 23:00 of this lunar day
    match guard(|| {
      let l = s.get_lunar_day();
      (lymd(&l), l.get_hours().iter().map(|h| (lymd(&h.get_lunar_day()), h.get_hour() as i64, h.get_minute() as i64, h.get_second() as i64, h.get_index_in_day() as i64)).collect::<Vec<_>>())
    }) {
      Ok((ld, hs)) => {
        let mut exp = vec![(ld, 0i64, 0i64, 0i64, 0i64)];
        for j in 0..12 {
          exp.push((ld, 2 * j + 1, 0, 0, j + 1));
        }
        if let Ok(Some((hh, listed, built))) = guard(|| {
          let l = s.get_lunar_day();
          for h in l.get_hours() {
            let b = tyme4rs::tyme::lunar::LunarHour::from_ymd_hms(h.get_year(), h.get_month(), h.get_day(), h.get_hour(), h.get_minute(), h.get_second());
            let (x, z) = (format!("{} {} {}", h, h.get_sixty_cycle(), h.get_index_in_day()), format!("{} {} {}", b, b.get_sixty_cycle(), b.get_index_in_day()));
            if x != z {
              return Some((h.get_hour() as i64, x, z));
            }
          }
          None
        }) {
          out.fail(env, viol("hours", "lunar_slot_differs_from_constructed", case, &k, format!("slot {}:00 of the lunar day of {}", hh, c.fmt(i)), built, listed));
        }
        if hs != exp {
          out.fail(env, viol("hours", "lunar_day_hours", case, &k, format!("lunar day of {}", c.fmt(i)), "13 slots 00:00, 01:00, 03:00, .. 23:00 with index 0..12".into(), format!("{} slots {:?}", hs.len(), hs.iter().map(|h| (h.1, h.4)).collect::<Vec<_>>())));
        }
      }
      Err(e) => {
        out.fail(env, viol("hours", "lunar_day_hours_panics", case, &k, c.fmt(i), "13 slots".into(), e));
      }
    }
    // sexagenary day: 12 slots from 23:00 of the previous civil day, two hours apart, all with this day's pillar
    if i == 0 {
      out.skip("previous_day_of_0001-01-01_is_out_of_range");
      return;
    }
    out.nontrivial("hours", &[i as i64]);
    match guard(|| {
      let sc = s.get_sixty_cycle_day();
      (sc.get_sixty_cycle().get_index() as i64, sc.get_hours().iter().map(|h| (ymdhms(&h.get_solar_time()), h.get_index_in_day() as i64, h.get_day().get_index() as i64, h.get_sixty_cycle().get_index() as i64 % 12)).collect::<Vec<_>>())
    }) {
      Ok((dp, hs)) => {
        let p = c.ymd(i - 1);
        let mut exp = vec![((p.0, p.1, p.2, 23i64, 0i64, 0i64), 0i64, dp, 0i64)];
        for j in 1..12 {
          exp.push(((y, m, d, 2 * j - 1, 0, 0), j, dp, j));
        }
        if out.wants_sample("hours", true) {
          out.sample("hours", true, || json!({"date": c.fmt(i), "sexagenary_day_slots": hs.iter().map(|h| fmt_time(h.0)).collect::<Vec<_>>()}));
        }
        // every listed slot is the very double-hour an independent construction from its instant gives (all four pillars)
        if let Ok(Some((t, listed, built))) = guard(|| {
          let sc = s.get_sixty_cycle_day();
          for h in sc.get_hours() {
            let t = h.get_solar_time();
            let b = tyme4rs::tyme::solar::SolarTime::from_ymd_hms(t.get_year(), t.get_month(), t.get_day(), t.get_hour(), t.get_minute(), t.get_second()).get_sixty_cycle_hour();
            if h.to_string() != b.to_string() || h.get_year().get_index() != b.get_year().get_index() || h.get_month().get_index() != b.get_month().get_index() {
              return Some((ymdhms(&t), h.to_string(), b.to_string()));
            }
            // derived views of the listed slot as well (a refusal must be a refusal on both)
            let (x, z) = (guard(|| format!("{} {}", h.get_nine_star(), h.get_twelve_star())), guard(|| format!("{} {}", b.get_nine_star(), b.get_twelve_star())));
            if x.clone().ok() != z.clone().ok() {
              return Some((ymdhms(&t), format!("{} stars {:?}", h, x), format!("{} stars {:?}", b, z)));
            }
          }
          None
        }) {
          out.fail(env, viol("hours", "sexagenary_slot_differs_from_constructed", case, &k, format!("slot {} of the sexagenary day of {}", fmt_time(t), c.fmt(i)), built, listed));
        }
        if hs != exp || dp != day_pillar(jdn) {
          out.fail(env, viol("hours", "sexagenary_day_hours", case, &k, format!("sexagenary day of {}", c.fmt(i)), format!("12 slots from {} 23:00 every 2 h, day pillar {}", c.fmt(i - 1), pillar_name(day_pillar(jdn))), format!("{} slots, first {:?}, pillars {:?}", hs.len(), hs.first().map(|h| fmt_time(h.0)), hs.iter().map(|h| h.2).collect::<Vec<_>>())));
        }
      }
      Err(e) => {
        out.fail(env, viol("hours", "sexagenary_day_hours_panics", case, &k, c.fmt(i), "12 slots".into(), e));
      }
    }
  }

  /// a = [sexagenary year, month index 0..11]
  fn eval_smonth(&self, env: &Env, out: &mut Out, case: &Case) {
    let c = cal();
    let (y, j) = (case.a[0], case.a[1]);
    let ts = ensure(y, y + 1);
    let pos = ts.pos(y, 3 + 2 * 0) + 2 * j as usize;
    let a = ts.list[pos];
    let b = ts.list[pos + 2];
    if a.ambiguous_day || b.ambiguous_day {
      out.skip("jie_instant_within_0.6s_of_midnight");
      return;
    }
    let (i0, i1) = match (c.index_of_jdn(a.day), c.index_of_jdn(b.day)) {
      (Some(x), Some(z)) => (x, z),
      _ => {
        out.skip("sexagenary_month_outside_civil_range");
        return;
      }
    };
    out.eval("smonth");
    out.nontrivial("smonth", &[y, j]);
    let k = [("sy", y), ("mi", j), ("jdn", a.day)];
    let mo = SixtyCycleYear::from_year(y as isize).get_months()[j as usize].clone();
    match guard(|| mo.get_days().iter().map(|d| ymd(&d.get_solar_day())).collect::<Vec<_>>()) {
      Ok(got) => {
        let exp: Vec<(i64, i64, i64)> = (i0..i1).map(|i| c.ymd(i)).collect();
        if out.wants_sample("smonth", true) {
          out.sample("smonth", true, || json!({"sexagenary_year": y, "month_index": j, "days": got.len(), "first": got.first().map(|d| fmt_ymd(*d)), "last": got.last().map(|d| fmt_ymd(*d))}));
        }
        // every listed item is the sexagenary day an independent construction from its civil date gives
        if let Ok(Some((dt, listed, built))) = guard(|| {
          for d in mo.get_days() {
            let s = d.get_solar_day();
            let b = tyme4rs::tyme::sixtycycle::SixtyCycleDay::from_solar_day(tyme4rs::tyme::solar::SolarDay::from_ymd(s.get_year(), s.get_month(), s.get_day()));
            if d.to_string() != b.to_string() || d.get_sixty_cycle().get_index() != b.get_sixty_cycle().get_index() || d.get_sixty_cycle().get_index() as i64 != day_pillar(c.jdn(c.index(s.get_year() as i64, s.get_month() as i64, s.get_day() as i64).unwrap_or(0))) {
              return Some((ymd(&s), d.to_string(), b.to_string()));
            }
          }
          None
        }) {
          out.fail(env, viol("smonth", "listed_day_differs_from_constructed", case, &k, format!("{} in month {} of sexagenary year {} .get_days()", fmt_ymd(dt), j, y), built, listed));
        }
        // the same month addressed through an out-of-cycle index of the neighbouring sexagenary year lists the same days
        if j % 4 == (y % 4) && (2..=9996).contains(&y) {
          for (yy, jj) in [(y - 1, j + 12), (y + 1, j - 12)] {
            if let Ok(via) = guard(|| tyme4rs::tyme::sixtycycle::SixtyCycleMonth::from_index(yy as isize, jj as isize).get_days().iter().map(|d| ymd(&d.get_solar_day())).collect::<Vec<_>>()) {
              if via != exp {
                out.fail(env, viol("smonth", "days_of_month_addressed_by_out_of_cycle_index", case, &k, format!("SixtyCycleMonth::from_index({}, {}).get_days()", yy, jj), format!("{} days {}..{}", exp.len(), c.fmt(i0), c.fmt(i1 - 1)), format!("{} days {:?}..", via.len(), via.first().map(|d| fmt_ymd(*d)))));
                break;
              }
            }
          }
        }
        // the same month reached from one of its days lists the same days
        if let Some(mid) = exp.get(exp.len() / 2) {
          match guard(|| tyme4rs::tyme::solar::SolarDay::from_ymd(mid.0 as isize, mid.1 as usize, mid.2 as usize).get_sixty_cycle_day().get_sixty_cycle_month().get_days().iter().map(|d| ymd(&d.get_solar_day())).collect::<Vec<_>>()) {
            Ok(via) => {
              if via != exp {
                out.fail(env, viol("smonth", "days_of_month_reached_from_a_day", case, &k, format!("{} .get_sixty_cycle_day().get_sixty_cycle_month().get_days()", fmt_ymd(*mid)), format!("{} days {}..{}", exp.len(), c.fmt(i0), c.fmt(i1 - 1)), format!("{} days {:?}..{:?}", via.len(), via.first().map(|d| fmt_ymd(*d)), via.last().map(|d| fmt_ymd(*d)))));
              }
            }
            Err(e) => {
              out.fail(env, viol("smonth", "get_days_panics", case, &k, format!("month of {} reached from the day", fmt_ymd(*mid)), format!("{}..{}", c.fmt(i0), c.fmt(i1 - 1)), e));
            }
          }
        }
        if got != exp {
          out.fail(env, viol("smonth", "days", case, &k, format!("month {} of sexagenary year {} .get_days()", j, y), format!("{} days {}..{}", exp.len(), c.fmt(i0), c.fmt(i1 - 1)), format!("{} days {:?}..{:?}", got.len(), got.first().map(|d| fmt_ymd(*d)), got.last().map(|d| fmt_ymd(*d)))));
        }
      }
      Err(e) => {
        out.fail(env, viol("smonth", "get_days_panics", case, &k, format!("month {} of sexagenary year {} .get_days()", j, y), format!("{}..{}", c.fmt(i0), c.fmt(i1 - 1)), e));
      }
    }
  }
}

impl Prop for C13 {
  fn id(&self) -> &'static str {
    "C13"
  }
  fn meta(&self, env: &Env) -> Meta {
    Meta {
      rule: format!("Generators: (a) `cyear`: every civil year 1..9999: 12 months in order, 4 seasons, 2 half-years, nesting (half->months/seasons, season->months, month->season), year day count == sum of months == model; (b) `cmonth`: every civil (year, month): get_days() == exactly the existing dates of the model calendar in order, len == get_day_count (exhaustive, incl. October 1582); (c) `lyear`/`lmonth`: every lunar year 0..9999 and every lunar month: month list == label model, day list == days 1..n with n == day count, consecutive civil days; (d) `hours`: lunar day -> 13 slots (00:00, then 01:00..23:00 step 2 h), sexagenary day -> 12 slots from 23:00 of the previous day, all carrying this day's pillar, on {}; (e) `smonth`: all 12 months of {}: get_days() == the dates from the month's Jie day to the day before the next Jie. Non-trivial: 1582, leap years, February and October 1582, leap lunar months/years, every hour list, every sexagenary month. Distinct = distinct containers.", env.tier.pick("all dates of 1582, years 1, 9999 and 40k proptest dates", "all dates of 1582, years 1, 9999 and 600k proptest dates"), env.tier.pick("every 25th sexagenary year (+ special years)", "every sexagenary year 1..9997")),
      assumptions: vec![
        "Civil containers are compared with the model calendar CAL; lunar lists with the label model and each month's own first day; sexagenary months with the library's Jie days (ambiguous Jie days skipped, counted)".into(),
      ],
      level_text: String::new(),
    }
  }
  fn plan(&self, _env: &Env) -> Vec<TaskSpec> {
    vec![task("civil", 8), task("lunar", 16), task("hours", 16), task("smonth", 16)]
  }
  fn run(&self, env: &Env, t: &str, shard: usize, nshards: usize, out: &mut Out) {
    let ev = |e: &Env, o: &mut Out, s: &str, cs: &Case| self.eval(e, o, s, cs);
    let c = cal();
    match t {
      "civil" => {
        let (ylo, yhi) = shard_range(9999, shard, nshards);
        let mut rev = Reverse::new(9);
        for y in ylo as i64 + 1..=yhi as i64 {
          run_case(env, out, "cyear", &Case::ints(&[y]), &ev);
          for m in 1..=12 {
            run_case(env, out, "cmonth", &Case::ints(&[y, m]), &ev);
            rev.note("cmonth", &Case::ints(&[y, m]));
          }
        }
        rev.run(env, out, &ev);
        out.set_exhaustive("cyear", true);
        out.set_exhaustive("cmonth", true);
      }
      "lunar" => {
        let l = lunlist();
        let (ylo, yhi) = shard_range(10000, shard, nshards);
        let mut rev = Reverse::new(9);
        for y in ylo as i64..yhi as i64 {
          run_case(env, out, "lyear", &Case::ints(&[y]), &ev);
          rev.note("lyear", &Case::ints(&[y]));
          for m in l.months_of(y) {
            run_case(env, out, "lmonth", &Case::ints(&[y, m]), &ev);
            rev.note("lmonth", &Case::ints(&[y, m]));
          }
        }
        rev.run(env, out, &ev);
        out.set_exhaustive("lyear", true);
        out.set_exhaustive("lmonth", true);
      }
      "hours" => {
        // strided walks on fresh threads (see engine::stride_walks)
        stride_walks(env, out, "hours", env.tier.pick(800, 24000) / nshards as u32, 7000 + shard as u64, 0, (crate::model::NDAYS as i64), 800, &|x| vec![x], &ev);
        if shard == 0 {
          for y in [1usize, 24, 1582, 9999] {
            for i in c.year_start[y] as usize..c.year_start[y + 1] as usize {
              run_case(env, out, "hours", &Case::ints(&[i as i64]), &ev);
            }
          }
        }
        let total: u32 = env.tier.pick(40_000, 600_000);
        prop_run(env, out, "hours", total / nshards as u32, shard as u64, (0..NDAYS as i64).prop_map(|i| Case::ints(&[i])), &ev);
        out.set_exhaustive("hours", false);
      }
      "smonth" => {
        let (ylo, yhi) = shard_range(9997, shard, nshards);
        ensure(ylo as i64, yhi as i64 + 2);
        for y in ylo as i64 + 1..=yhi as i64 {
          if env.tier == Tier::Thorough || y % 25 == (env.seed % 25) as i64 || SPECIAL_YEARS.contains(&y) {
            for j in 0..12 {
              run_case(env, out, "smonth", &Case::ints(&[y, j]), &ev);
            }
          }
        }
        out.set_exhaustive("smonth", env.tier == Tier::Thorough);
      }
      _ => panic!("unknown task {}", t),
    }
  }
  fn cold_subs(&self) -> Vec<(&'static str, i64, i64, fn(i64) -> Vec<i64>)> {
    vec![("hours", 0, crate::model::NDAYS as i64, |x| vec![x])]
  }
  fn eval(&self, env: &Env, out: &mut Out, sub: &str, case: &Case) {
    match sub {
      "cyear" => self.eval_cyear(env, out, case),
      "cmonth" => self.eval_cmonth(env, out, case),
      "lyear" => self.eval_lyear(env, out, case),
      "lmonth" => self.eval_lmonth(env, out, case),
      "hours" => self.eval_hours(env, out, case),
      "smonth" => self.eval_smonth(env, out, case),
      _ => panic!("unknown sub-check {}", sub),
    }
  }
}
