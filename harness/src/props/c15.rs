//! C15 Term-anchored day series: Nines, Dog days, Plum rains, pentads, ruling stems

use crate::adapt::*;
use crate::engine::*;
use crate::model::*;
use crate::terms::*;
use serde_json::json;
use tyme4rs::tyme::enums::HideHeavenStemType;

pub struct C15;

fn viol(sub: &str, kind: &str, case: &Case, k: &[(&str, i64)], desc: String, expected: String, got: String) -> Viol {
  Viol { sub: sub.into(), kind: kind.into(), case: case.clone(), key: key(k), desc, expected, got }
}

/// classical commanding-stem allotment per Jie month (index k = (jie index - 1)/2, 0 = Xiaohan/Chou month):
/// three slots (residual, middle, main) of (stem, days); days 0 = no such slot, 99 = the rest of the month
pub const ALLOT: [[(i64, i64); 3]; 12] = [
  [(9, 9), (7, 3), (5, 99)],  // 丑: 癸9 辛3 己
  [(4, 7), (2, 7), (0, 99)],  // 寅: 戊7 丙7 甲
  [(0, 10), (0, 0), (1, 99)], // 卯: 甲10 乙
  [(1, 9), (9, 3), (4, 99)],  // 辰: 乙9 癸3 戊
  [(4, 5), (6, 9), (2, 99)],  // 巳: 戊5 庚9 丙
  [(2, 10), (5, 9), (3, 99)], // 午: 丙10 己9 丁
  [(3, 9), (1, 3), (5, 99)],  // 未: 丁9 乙3 己
  [(4, 10), (8, 3), (6, 99)], // 申: 戊10 壬3 庚
  [(6, 10), (0, 0), (7, 99)], // 酉: 庚10 辛
  [(7, 9), (3, 3), (4, 99)],  // 戌: 辛9 丁3 戊
  [(4, 7), (0, 5), (8, 99)],  // 亥: 戊7 甲5 壬
  [(8, 10), (0, 0), (9, 99)], // 子: 壬10 癸
];

/// (slot, stem, index inside the slot) for day offset `off` from the Jie day of month k
pub fn commanding(k: usize, off: i64) -> (usize, i64, i64) {
  let mut acc = 0i64;
  for (slot, &(stem, days)) in ALLOT[k].iter().enumerate() {
    if days == 0 {
      continue;
    }
    if days == 99 || off < acc + days {
      return (slot, stem, off - acc);
    }
    acc += days;
  }
  unreachable!()
}

#[derive(Debug, PartialEq, Clone)]
struct Series {
  nine: Option<(i64, i64)>,
  dog: Option<(i64, i64)>,
  plum: Option<(i64, i64)>,
  pentad: (i64, i64),
  stem: (i64, i64, i64), // slot type, stem, day index
}

/// boundary flags of the date inside each series (for the non-trivial rule)
struct Edge {
  any: bool,
  long_middle: bool,
  geng_on_solstice: bool,
}

fn oracle(ts: &Terms, y: i64, jdn: i64) -> Option<(Series, Edge, bool)> {
  let mut amb = false;
  let mut edge = Edge { any: false, long_middle: false, geng_on_solstice: false };
  // Nines: 81 days from the latest winter-solstice day
  let ws_a = ts.get(y, 0);
  let ws_b = ts.get(y + 1, 0);
  let ws = if jdn >= ws_b.day { ws_b } else { ws_a };
  amb |= (ws_a.ambiguous_day && (jdn - ws_a.day).abs() <= 82) || (ws_b.ambiguous_day && (jdn - ws_b.day).abs() <= 82);
  let off = jdn - ws.day;
  let nine = if (0..81).contains(&off) { Some((off / 9, off % 9)) } else { None };
  if off == 0 || off == 80 || off == 81 || off == -1 || (nine.is_some() && (off % 9 == 0 || off % 9 == 8)) {
    edge.any = true;
  }
  // Dog days
  let xz = ts.get(y, 12);
  let lq = ts.get(y, 15);
  amb |= (xz.ambiguous_day || lq.ambiguous_day) && (jdn - xz.day).abs() <= 80;
  let g = (6 - day_pillar(xz.day) % 10).rem_euclid(10);
  let start = xz.day + g + 20;
  let fifth = start + 20;
  let mid_len = if fifth < lq.day { 20 } else { 10 };
  edge.long_middle = mid_len == 20;
  edge.geng_on_solstice = g == 0;
  let d = jdn - start;
  let dog = if d < 0 {
    None
  } else if d < 10 {
    Some((0, d))
  } else if d < 10 + mid_len {
    Some((1, d - 10))
  } else if d < 20 + mid_len {
    Some((2, d - 10 - mid_len))
  } else {
    None
  };
  if [-1, 0, 9, 10, 19, 20, 29, 30, 39, 40].contains(&d) {
    edge.any = true;
  }
  // Plum rains
  let mz = ts.get(y, 11);
  let xs = ts.get(y, 13);
  amb |= (mz.ambiguous_day || xs.ambiguous_day) && (jdn - mz.day).abs() <= 60;
  let ps = mz.day + (2 - day_pillar(mz.day) % 10).rem_euclid(10);
  let pe = xs.day + (7 - day_pillar(xs.day) % 12).rem_euclid(12);
  let plum = if jdn < ps || jdn > pe {
    None
  } else if jdn == pe {
    Some((1, 0))
  } else {
    Some((0, jdn - ps))
  };
  if (jdn - ps).abs() <= 1 || (jdn - pe).abs() <= 1 {
    edge.any = true;
  }
  // pentads: three per term
  let p = ts.latest_by_day(jdn)?;
  let t = ts.list[p];
  amb |= t.ambiguous_day || (p + 1 < ts.list.len() && ts.list[p + 1].ambiguous_day && ts.list[p + 1].day - jdn <= 1);
  let di = jdn - t.day;
  let pi = (di / 5).min(2);
  let pentad = (t.index * 3 + pi, di - 5 * pi);
  if di == 0 || di == 4 || di == 5 || di == 9 || di == 10 || (p + 1 < ts.list.len() && ts.list[p + 1].day - jdn == 1) {
    edge.any = true;
  }
  // commanding stem: from the governing Jie
  let pj = if t.index % 2 == 1 { p } else { p.checked_sub(1)? };
  let j = ts.list[pj];
  amb |= j.ambiguous_day && jdn - j.day <= 40;
  let k = ((j.index - 1) / 2) as usize;
  let off = jdn - j.day;
  let (slot, stem, idx) = commanding(k, off);
  if idx == 0 || commanding(k, off + 1).0 != slot {
    edge.any = true;
  }
  Some((Series { nine, dog, plum, pentad, stem: (slot as i64, stem, idx) }, edge, amb))
}

fn type_code(t: HideHeavenStemType) -> i64 {
  match t {
    HideHeavenStemType::RESIDUAL => 0,
    HideHeavenStemType::MIDDLE => 1,
    HideHeavenStemType::MAIN => 2,
  }
}

thread_local! {
  static THREE: std::cell::Cell<(i64, i64)> = std::cell::Cell::new((0, 0));
}

impl C15 {
  fn eval_day(&self, env: &Env, out: &mut Out, case: &Case) {
    let c = cal();
    let i = case.a[0] as usize;
    let (y, m, d) = c.ymd(i);
    let jdn = c.jdn(i);
    let ts = ensure(y - 1, y + 1);
    let (exp, edge, amb) = match oracle(&ts, y, jdn) {
      Some(x) => x,
      None => {
        out.skip("date_before_first_listed_term");
        return;
      }
    };
    out.eval("day");
    let nt = edge.any;
    if nt {
      out.nontrivial("day", &[i as i64]);
    }
    if exp.dog.is_some() && edge.long_middle {
      out.class("dog_day_in_year_with_20_day_middle_period");
    }
    if exp.dog.is_some() && edge.geng_on_solstice {
      out.class("dog_day_in_year_with_geng_day_on_the_solstice");
    }
    if exp.nine.is_some() {
      out.class("date_in_the_nines");
    }
    if exp.plum.is_some() {
      out.class("date_in_plum_rains");
    }
    let k = [("y", y), ("m", m), ("d", d), ("jdn", jdn)];
    let s = sd_idx(c, i);
    let r = guard(|| {
      let nine = s.get_nine_day().map(|x| (x.get_nine().get_index() as i64, x.get_day_index() as i64));
      let dog = s.get_dog_day().map(|x| (x.get_dog().get_index() as i64, x.get_day_index() as i64));
      let plum = s.get_plum_rain_day().map(|x| (x.get_plum_rain().get_index() as i64, x.get_day_index() as i64));
      let ph = s.get_phenology_day();
      let hh = s.get_hide_heaven_stem_day();
      let hs = hh.get_hide_heaven_stem();
      // the pentad's position inside its term (first / second / last of the three) as the library names it
      THREE.with(|t| t.set((ph.get_phenology().get_three_phenology().get_index() as i64, ph.get_phenology().get_index() as i64)));
      Series { nine, dog, plum, pentad: (ph.get_phenology().get_index() as i64, ph.get_day_index() as i64), stem: (type_code(hs.get_type()), hs.get_heaven_stem().get_index() as i64, hh.get_day_index() as i64) }
    });
    let got = match r {
      Ok(g) => g,
      Err(e) => {
        out.fail(env, viol("day", "panics", case, &k, c.fmt(i), format!("{:?}", exp), e));
        return;
      }
    };
    let (three, pidx) = THREE.with(|t| t.get());
    if three != pidx % 3 {
      out.fail(env, viol("day", "pentad_position_in_term", case, &k, c.fmt(i), format!("pentad {} is number {} of its term", pidx, pidx % 3), three.to_string()));
    }
    if out.wants_sample("day", nt) {
      out.sample("day", nt, || json!({"date": c.fmt(i), "nine": got.nine, "dog": got.dog, "plum_rain": got.plum, "pentad": got.pentad, "commanding_stem": {"slot": got.stem.0, "stem": STEMS[got.stem.1 as usize], "day_index": got.stem.2}}));
    }
    if got == exp {
      return;
    }
    if amb {
      out.skip("anchoring_term_instant_within_0.6s_of_midnight");
      return;
    }
    if got.nine != exp.nine {
      out.fail(env, viol("day", "nine", case, &k, c.fmt(i), format!("{:?}", exp.nine), format!("{:?}", got.nine)));
    }
    if got.dog != exp.dog {
      out.fail(env, viol("day", "dog_day", case, &k, c.fmt(i), format!("{:?}", exp.dog), format!("{:?}", got.dog)));
    }
    if got.plum != exp.plum {
      out.fail(env, viol("day", "plum_rain", case, &k, c.fmt(i), format!("{:?}", exp.plum), format!("{:?}", got.plum)));
    }
    if got.pentad != exp.pentad {
      out.fail(env, viol("day", "pentad", case, &k, c.fmt(i), format!("{:?}", exp.pentad), format!("{:?}", got.pentad)));
    }
    if got.stem != exp.stem {
      out.fail(env, viol("day", "commanding_stem", case, &k, c.fmt(i), format!("slot {} {} day index {}", exp.stem.0, STEMS[exp.stem.1 as usize], exp.stem.2), format!("slot {} {} day index {}", got.stem.0, STEMS[got.stem.1 as usize], got.stem.2)));
    }
  }
}

/// JDNs around every series boundary of year y
fn boundary_days(ts: &Terms, y: i64) -> Vec<i64> {
  let mut v = vec![];
  let ws = ts.get(y, 0).day;
  for o in [-1, 0, 1, 8, 9, 10, 44, 45, 79, 80, 81, 82] {
    v.push(ws + o);
  }
  let xz = ts.get(y, 12);
  let g = (6 - day_pillar(xz.day) % 10).rem_euclid(10);
  let start = xz.day + g + 20;
  for o in [-1, 0, 1, 9, 10, 19, 20, 21, 29, 30, 31, 39, 40, 41] {
    v.push(start + o);
  }
  v.push(ts.get(y, 15).day);
  let mz = ts.get(y, 11);
  let xs = ts.get(y, 13);
  let ps = mz.day + (2 - day_pillar(mz.day) % 10).rem_euclid(10);
  let pe = xs.day + (7 - day_pillar(xs.day) % 12).rem_euclid(12);
  for o in [-1, 0, 1] {
    v.push(ps + o);
    v.push(pe + o);
    v.push(mz.day + o);
    v.push(xs.day + o);
  }
  for ti in 0..24 {
    let t = ts.get(y, ti);
    for o in [-1, 0, 4, 5, 9, 10, 14] {
      v.push(t.day + o);
    }
    if ti % 2 == 1 {
      let k = ((ti - 1) / 2) as usize;
      let mut acc = 0;
      for &(_, days) in ALLOT[k].iter() {
        if days > 0 && days < 99 {
          acc += days;
          v.push(t.day + acc - 1);
          v.push(t.day + acc);
          v.push(t.day + acc + 1);
        }
      }
    }
  }
  v
}

impl Prop for C15 {
  fn id(&self) -> &'static str {
    "C15"
  }
  fn meta(&self, env: &Env) -> Meta {
    Meta {
      rule: format!("Oracle re-derives all five series from the library's term days and (JDN+49) mod 60: Nines = 81 days from the latest winter-solstice day, nine days each; Dog days from the third Geng day on/after the summer-solstice day, 10 + (20 if the fifth Geng day precedes the Liqiu day else 10) + 10; Plum rains from the first Bing day on/after Mangzhong to the first Wei day on/after Xiaoshu (last day reported as 'out'); pentad = term*3 + min(day index/5, 2); commanding stem from an independent (stem, days) table of the classical allotment per Jie month, slot index counted from the slot's first day. Generator `day`: {}. Every date is compared on all five series. Non-trivial: the date is the first/last day of a series segment (or adjacent to one). Classes: years with a 20-day middle period, a Geng day on the solstice. Distinct = distinct dates.", env.tier.pick("every date of ~230 stratified years (every 50th + special years) and, for every 4th other year, ~250 dates around every series boundary (solstice +0/8/9/80/81, each Dog-day period change, Plum-rain ends, every pentad change, every allotment change)", "every civil date of years 2..9998 (exhaustive)")),
      assumptions: vec![
        "Term days are the library's own (C05/C06 judge them); anchoring terms within 0.6 s of midnight make the affected dates ambiguous (skipped, counted)".into(),
        "The commanding-stem table is a second transcription of the classical text, written as (stem, days) triples rather than the library's packed digit string".into(),
      ],
      level_text: String::new(),
    }
  }
  fn plan(&self, _env: &Env) -> Vec<TaskSpec> {
    vec![task("days", 32)]
  }
  fn run(&self, env: &Env, t: &str, shard: usize, nshards: usize, out: &mut Out) {
    let ev = |e: &Env, o: &mut Out, s: &str, cs: &Case| self.eval(e, o, s, cs);
    let c = cal();
    match t {
      "days" => {
        // route equivalence of the objects this property reads (see routes.rs)
        prop_run(env, out, "routes", env.tier.pick(1600, 64000) / nshards as u32, 8800 + shard as u64, crate::routes::date_strategy(), &ev);
        out.set_exhaustive("routes", false);
        // strided walks on fresh threads (see engine::stride_walks)
        stride_walks(env, out, "day", env.tier.pick(3200, 96000) / nshards as u32, 7000 + shard as u64, 366, (crate::model::NDAYS as i64) - 366, 800, &|x| vec![x], &ev);
        let (ylo, yhi) = shard_range(9997, shard, nshards);
        let (ylo, yhi) = (ylo as i64 + 2, yhi as i64 + 1);
        let ts = ensure(ylo - 1, yhi + 1);
        let mut rev = Reverse::new(5);
        for y in ylo..=yhi {
          let full = env.tier == Tier::Thorough || y % 50 == (env.seed % 50) as i64 || SPECIAL_YEARS.contains(&y);
          if full {
            for i in c.year_start[y as usize] as usize..c.year_start[y as usize + 1] as usize {
              run_case(env, out, "day", &Case::ints(&[i as i64]), &ev);
              rev.note("day", &Case::ints(&[i as i64]));
            }
          } else if y % 4 == (env.seed % 4) as i64 {
            let mut b = boundary_days(&ts, y);
            b.sort();
            b.dedup();
            for j in b {
              if let Some(i) = c.index_of_jdn(j) {
                run_case(env, out, "day", &Case::ints(&[i as i64]), &ev);
                rev.note("day", &Case::ints(&[i as i64]));
              }
            }
          }
        }
        rev.run(env, out, &ev);
        out.set_exhaustive("day", env.tier == Tier::Thorough);
      }
      _ => panic!("unknown task {}", t),
    }
  }
  fn cold_subs(&self) -> Vec<(&'static str, i64, i64, fn(i64) -> Vec<i64>)> {
    vec![("day", 366, crate::model::NDAYS as i64 - 366, |x| vec![x])]
  }
  fn eval(&self, env: &Env, out: &mut Out, sub: &str, case: &Case) {
    match sub {
      "day" => self.eval_day(env, out, case),
      "routes" => crate::routes::compare_day_routes(env, out, "routes", case, (case.a[0].clamp(0, crate::model::NDAYS as i64 - 1)) as usize, &crate::routes::fields_c15),
      _ => panic!("unknown sub-check {}", sub),
    }
  }
}
