//! C05 Solar terms and new moons sit at the true Sun/Moon longitudes

use crate::adapt::*;
use crate::astro;
use crate::engine::*;
use crate::lunmodel::*;
use proptest::prelude::*;
use serde_json::json;
use std::f64::consts::PI;
use tyme4rs::tyme::lunar::LunarMonth;
use tyme4rs::tyme::solar::SolarTerm;
use tyme4rs::tyme::util::ShouXingUtil as U;

pub struct C05;

fn viol(sub: &str, kind: &str, case: &Case, k: &[(&str, i64)], desc: String, expected: String, got: String) -> Viol {
  Viol { sub: sub.into(), kind: kind.into(), case: case.clone(), key: key(k), desc, expected, got }
}

const ARCSEC: f64 = PI / 180.0 / 3600.0;

/// tolerance (seconds of time) of the low-accuracy solar theory as a function of the distance from J2000 in centuries
fn sun_tol_s(t_cy: f64) -> f64 {
  // calibrated against the measured maxima of |Meeus - library| over every term (`--aux sunscan`): 925 s within +-10 cy,
  // 1115 s at -30 cy, 1405 s at +30 cy; about 2x margin everywhere, so a drift of the library's Sun of more than about
  // 20 minutes at +-3000 years (or 15 minutes today) is outside
  1800.0 + 1.0 * t_cy * t_cy
}
/// tolerance of the Meeus new-moon series against the library's precise conjunction (TT vs TT)
fn moon_tol_s(t_cy: f64) -> f64 {
  // re-measured with `--aux moonres` over every lunation of years 0..5000: 18.5 s near the present, 45.3 s in the first
  // centuries AD, 40.4 s around AD 4600 (was 60 s + 6 s/cy^2, far looser than the theory warrants)
  28.0 + 0.08 * t_cy * t_cy
}

fn lunation_first_jd(p: usize) -> f64 {
  let (y, m) = lunlist().at(p);
  LunarMonth::from_ym(y as isize, m as isize).get_first_julian_day().get_day()
}

/// the library's precise conjunction (days from J2000, TT) for the lunation whose first day is `first` (JD)
fn lib_conjunction_tt(first: f64) -> f64 {
  let w = ((first + 14.0 - 2451551.0) / 29.5306).floor() * 2.0 * PI;
  U::m_sa_lon_t(w) * 36525.0
}

impl C05 {
  /// a = [year, index, mode]: mode 0 = UT chain with the Espenak-Meeus Delta T, mode 1 = TT through the library's own Delta T
  fn eval_sun(&self, env: &Env, out: &mut Out, case: &Case) {
    let (y, i, mode) = (case.a[0], case.a[1], case.a[2]);
    out.eval("sun");
    let t = SolarTerm::from_index(y as isize, i as isize);
    let jd_local = t.get_julian_day().get_day();
    let yy = 2000.0 + (jd_local - 2451545.0) / 365.2425;
    let dt = if mode == 0 { astro::delta_t(yy) } else { U::dt_calc(yy) };
    let jde = jd_local - 8.0 / 24.0 + dt / 86400.0;
    let target = (270.0 + 15.0 * i as f64).rem_euclid(360.0);
    let mut diff = astro::sun_lon(jde) - target;
    if diff > 180.0 {
      diff -= 360.0;
    }
    if diff < -180.0 {
      diff += 360.0;
    }
    let secs = diff / (360.0 / 365.2422) * 86400.0;
    let t_cy = (jde - 2451545.0) / 36525.0;
    let tol = sun_tol_s(t_cy);
    let frac = (jd_local + 0.5) - (jd_local + 0.5).floor();
    let near_midnight = frac < 1200.0 / 86400.0 || frac > 1.0 - 1200.0 / 86400.0;
    if near_midnight {
      out.nontrivial("sun", &[y, i, mode]);
      out.class("term_within_20_min_of_local_midnight");
    }
    out.class_n(&format!("sun_abs_err_s_max_mode{}_century{}", mode, ((yy / 500.0).floor() * 500.0) as i64), 0);
    if out.wants_sample("sun", near_midnight) {
      out.sample("sun", near_midnight, || json!({"term": format!("{}#{}", y, i), "library_instant_jd_utc8": jd_local, "theory_minus_target_seconds": secs, "mode": if mode == 0 { "UT+EspenakMeeus" } else { "TT via library dT" }}));
    }
    if !(secs.abs() <= tol) {
      out.fail(env, viol("sun", "term_instant_vs_independent_theory", case, &[("ty", y), ("ti", i), ("mode", mode)], format!("term {}#{} at JD {} (UTC+8)", y, i, jd_local), format!("Sun at {} deg within {:.0} s", target, tol), format!("off by {:.0} s", secs)));
    }
    // the library's own longitude series at that instant equals the target to sub-arcsecond
    let tt_lib = (jd_local - 8.0 / 24.0 + U::dt_calc(yy) / 86400.0 - 2451545.0) / 36525.0;
    let lon = U::sa_lon(tt_lib, -1);
    let tgt = target * PI / 180.0;
    let mut d = (lon - tgt).rem_euclid(2.0 * PI);
    if d > PI {
      d -= 2.0 * PI;
    }
    // (measured maximum over -1000..5000: 0.0084"; the conversion UT -> TT uses the continuous dt_calc, so a TT-UT that is
    // applied differently from how it is tabulated shows up here)
    if !(d.abs() <= 0.1 * ARCSEC) {
      out.fail(env, viol("sun", "own_series_not_at_target", case, &[("ty", y), ("ti", i)], format!("term {}#{}", y, i), format!("library apparent longitude == {} deg within 0.1\"", target), format!("{:.3}\" off", d / ARCSEC)));
    }
  }

  /// a = [lunation position, day_check]: library conjunction vs Meeus ch. 49
  fn eval_moon(&self, env: &Env, out: &mut Out, case: &Case) {
    let p = case.a[0] as usize;
    let day_check = case.a[1] == 1;
    if p >= lunlist().len() {
      return;
    }
    out.eval("moon");
    let first = lunation_first_jd(p);
    let lib_jde = lib_conjunction_tt(first) + 2451545.0;
    let k = ((first - 2451550.09766) / 29.530588861).round();
    let mut best = f64::MAX;
    let mut bj = 0.0;
    for dk in [-1.0, 0.0, 1.0] {
      let j = astro::new_moon(k + dk);
      if (j - lib_jde).abs() < best {
        best = (j - lib_jde).abs();
        bj = j;
      }
    }
    let t_cy = (bj - 2451545.0) / 36525.0;
    let e = (lib_jde - bj) * 86400.0;
    let (ly, lm) = lunlist().at(p);
    let kk = [("ly", ly), ("lm", lm)];
    let yy = 2000.0 + (bj - 2451545.0) / 365.2425;
    let local = bj - astro::delta_t(yy) / 86400.0 + 8.0 / 24.0;
    let frac = (local + 0.5) - (local + 0.5).floor();
    let near = frac < 1200.0 / 86400.0 || frac > 1.0 - 1200.0 / 86400.0;
    if near {
      out.nontrivial("moon", &[p as i64]);
      out.class("conjunction_within_20_min_of_local_midnight");
    }
    if out.wants_sample("moon", near) {
      out.sample("moon", near, || json!({"lunar_month": [ly, lm], "first_day_jd": first, "library_minus_meeus_seconds": e}));
    }
    if !(e.abs() <= moon_tol_s(t_cy)) {
      out.fail(env, viol("moon", "conjunction_vs_independent_theory", case, &kk, format!("lunation L({},{}) first day JD {}", ly, lm, first), format!("within {:.0} s of the Meeus new moon", moon_tol_s(t_cy)), format!("{:.0} s", e)));
    }
    if day_check {
      // first day of the month == UTC+8 civil day of the (independent) conjunction, unless that is within 2 min of midnight
      let civil = (local + 0.5).floor();
      if frac < 120.0 / 86400.0 || frac > 1.0 - 120.0 / 86400.0 {
        out.skip("independent_conjunction_within_2_min_of_midnight");
      } else if civil != first.round() {
        out.fail(env, viol("moon", "first_day_vs_independent_conjunction_day", case, &kk, format!("lunation L({},{})", ly, lm), format!("JDN {}", civil), format!("JDN {}", first.round())));
      }
    }
  }

  /// a = [year, index]: calendar-making day == civil day of the precise instant (1961..9999)
  fn eval_pathterm(&self, env: &Env, out: &mut Out, case: &Case) {
    let (y, i) = (case.a[0], case.a[1]);
    out.eval("pathterm");
    let t = SolarTerm::from_index(y as isize, i as isize);
    let c = t.get_cursory_julian_day();
    let p = t.get_julian_day().get_day() - 2451545.0;
    let pd = (p + 0.5).floor();
    let f = (p + 0.5) - pd;
    let near = f < 1200.0 / 86400.0 || f > 1.0 - 1200.0 / 86400.0;
    if near {
      out.nontrivial("pathterm", &[y, i]);
    }
    if out.wants_sample("pathterm", near) {
      out.sample("pathterm", near, || json!({"term": format!("{}#{}", y, i), "calendar_day": c, "precise_instant_days_from_j2000": p}));
    }
    if pd != c {
      out.fail(env, viol("pathterm", "calendar_day_vs_precise_day", case, &[("ty", y), ("ti", i)], format!("term {}#{}", y, i), format!("day {} (of precise instant {})", pd, p), format!("calendar-making day {}", c)));
    }
  }

  /// a = [lunation position]: first day == civil day of the precise conjunction (1961..8000)
  fn eval_pathmoon(&self, env: &Env, out: &mut Out, case: &Case) {
    let p = case.a[0] as usize;
    out.eval("pathmoon");
    let first = lunation_first_jd(p) - 2451545.0;
    let t = lib_conjunction_tt(first + 2451545.0);
    let local = t - U::dtt(t) + 8.0 / 24.0;
    let pd = (local + 0.5).floor();
    let f = (local + 0.5) - pd;
    let near = f < 1800.0 / 86400.0 || f > 1.0 - 1800.0 / 86400.0;
    let (ly, lm) = lunlist().at(p);
    if near {
      out.nontrivial("pathmoon", &[p as i64]);
    }
    if out.wants_sample("pathmoon", near) {
      out.sample("pathmoon", near, || json!({"lunar_month": [ly, lm], "first_day": first, "precise_conjunction_utc8_days_from_j2000": local}));
    }
    // successive lunar months belong to successive conjunctions (one synodic month apart): a month whose first day was
    // taken from a neighbouring lunation would agree with THAT conjunction and pass the day comparison above
    if p >= 1 {
      let (py, pm) = lunlist().at(p - 1);
      let t_prev = lib_conjunction_tt(lunation_first_jd(p - 1));
      let gap = t - t_prev;
      let known_irregular = [(8i64, 12i64), (23, 12), (24, 12), (239, 12)].contains(&(py, pm));
      if !(29.2..=29.9).contains(&gap) && !known_irregular {
        out.fail(env, viol("pathmoon", "conjunctions_of_successive_months_not_a_lunation_apart", case, &[("ly", ly), ("lm", lm)], format!("L({},{}) after L({},{})", ly, lm, py, pm), "29.2..29.9 days between their precise conjunctions".into(), format!("{:.4} days", gap)));
      }
    }
    if pd != first {
      out.fail(env, viol("pathmoon", "first_day_vs_precise_conjunction_day", case, &[("ly", ly), ("lm", lm)], format!("lunation L({},{})", ly, lm), format!("day {} (precise conjunction {})", pd, local), format!("first day {}", first)));
    }
  }

  /// f = [w]: inverse solvers return times at which the library's own series equal the target
  fn eval_inverse(&self, env: &Env, out: &mut Out, sub: &str, case: &Case) {
    let w = case.f[0];
    out.eval(sub);
    let (t, r) = if sub == "inverse_sun" {
      let t = U::sa_lon_t(w);
      (t, (U::sa_lon(t, -1) - w).abs())
    } else {
      let t = U::m_sa_lon_t(w);
      (t, (U::m_sa_lon(t, -1, 60) - w).abs())
    };
    let year = 2000.0 + t * 100.0;
    let exact = case.a.get(0).cloned().unwrap_or(0) == 1;
    if exact {
      out.nontrivial(sub, &[w.to_bits() as i64]);
    }
    // epoch zone = millennium of the solved instant (the truncated lunar solver is sub-arcsecond only in its core window)
    let zone = if sub == "inverse_sun" { 0 } else { (year / 1000.0).floor().clamp(-9.0, 10.0) as i64 };
    let asec = r / ARCSEC;
    if out.wants_sample(sub, exact) {
      out.sample(sub, exact, || json!({"target_longitude_rad": w, "solved_time_julian_centuries": t, "residual_arcsec": asec}));
    }
    if !t.is_finite() || !(asec <= 1.0) {
      let k = [("zone", zone), ("arcsec_x100", (asec * 100.0).min(1e12) as i64), ("year", year.clamp(-1e6, 1e6) as i64)];
      out.fail(env, viol(sub, "residual_over_1_arcsec", case, &k, format!("target {} rad (year {:.0})", w, year), "<= 1\"".into(), format!("{:.3}\"", asec)));
    }
  }

  /// a = [year*100]: Delta T finite and continuous
  fn eval_dt(&self, env: &Env, out: &mut Out, case: &Case) {
    let y = case.a[0] as f64 / 100.0;
    out.eval("dt");
    let a = U::dt_calc(y);
    let b = U::dt_calc(y + 0.01);
    // segment joins of the table are the interesting points
    let joins = [-4000.0, -500.0, -150.0, 150.0, 500.0, 900.0, 1300.0, 1600.0, 1700.0, 1800.0, 1830.0, 1860.0, 1880.0, 1900.0, 1920.0, 1940.0, 1960.0, 1980.0, 2000.0, 2005.0, 2012.0, 2018.0, 2028.0, 2128.0];
    let at_join = joins.iter().any(|j| *j > y - 0.005 && *j <= y + 0.015);
    if at_join {
      out.nontrivial("dt", &[case.a[0]]);
      out.sample("dt", true, || json!({"year": y, "delta_t": a, "delta_t_0.01y_later": b}));
    }
    // the correction as it is applied to instants (dtt, argument in days from J2000) is the same smooth function
    let td = (y - 2000.0) * 365.2425;
    let (a2, b2) = (U::dtt(td) * 86400.0, U::dtt(td + 0.01 * 365.2425) * 86400.0);
    if !a2.is_finite() || (b2 - a2).abs() >= 6.0 || (a2 - a).abs() > 1.0 {
      out.fail(env, viol("dt", "applied_delta_t_jump_or_differs_from_table", case, &[("y100", case.a[0])], format!("dtt at year {:.2} and {:.2}", y, y + 0.01), format!("step < 6 s and within 1 s of dt_calc = {:.2} s", a), format!("{:.2} s -> {:.2} s", a2, b2)));
    }
    if !a.is_finite() || !b.is_finite() || (b - a).abs() >= 6.0 {
      out.fail(env, viol("dt", "delta_t_jump", case, &[("y100", case.a[0])], format!("Delta T at {:.2} and {:.2}", y, y + 0.01), "finite, step < 6 s".into(), format!("{} -> {}", a, b)));
    }
  }
}

/// the astronomical quantities whose value must be a function of the arguments alone
fn pure_value(kind: i64, p1: i64, p2: i64) -> Vec<u64> {
  match kind {
    0 => {
      let t = SolarTerm::from_index(p1 as isize, p2 as isize);
      vec![t.get_julian_day().get_day().to_bits(), t.get_cursory_julian_day().to_bits()]
    }
    1 => vec![U::dt_calc(p1 as f64 / 100.0).to_bits()],
    2 => {
      // day-level and precise solvers at an arbitrary day offset from J2000
      let jd = p1 as f64 + p2 as f64 / 1000.0;
      vec![U::calc_qi(jd).to_bits(), U::calc_shuo(jd).to_bits(), U::qi_accurate2(jd).to_bits(), U::qi_high(jd / 365.2422 * 2.0 * PI).to_bits(), U::shuo_high(jd / 29.5306 * 2.0 * PI).to_bits()]
    }
    _ => vec![],
  }
}

impl C05 {
  /// a = [T * 100000]: nutation in longitude vs the independent four-term series (measured agreement 0.47" over +-100
  /// centuries, `--aux nutscan`); the apparent longitude that defines the terms contains this quantity
  fn eval_nutation(&self, env: &Env, out: &mut Out, case: &Case) {
    let t = case.a[0] as f64 / 100000.0;
    out.eval("nutation");
    let lib = U::nutation_lon2(t) / ARCSEC;
    let ind = astro::nutation_lon_arcsec(t);
    if t.abs() > 30.0 {
      out.nontrivial("nutation", &case.a);
    }
    if out.wants_sample("nutation", t.abs() > 30.0) {
      out.sample("nutation", t.abs() > 30.0, || json!({"centuries_from_j2000": t, "library_arcsec": lib, "independent_arcsec": ind}));
    }
    if !((lib - ind).abs() <= 1.0) {
      out.fail(env, viol("nutation", "nutation_in_longitude_vs_independent_series", case, &[("t100000", case.a[0])], format!("nutation in longitude at T = {:.5} centuries", t), format!("{:.3}\" within 1\"", ind), format!("{:.3}\"", lib)));
    }
  }

  /// a = [kind, p1, p2]: the value obtained on this (used) thread equals the value obtained alone on a brand-new thread
  fn eval_pure(&self, env: &Env, out: &mut Out, case: &Case) {
    let (kind, p1, p2) = (case.a[0], case.a[1], case.a[2]);
    out.eval("pure");
    out.nontrivial("pure", &case.a);
    let here = guard(|| pure_value(kind, p1, p2));
    let alone = std::thread::spawn(move || guard(|| pure_value(kind, p1, p2))).join().unwrap_or_else(|_| Err("thread panicked".into()));
    let what = match kind {
      0 => format!("SolarTerm::from_index({}, {}) instant and cursory day", p1, p2),
      1 => format!("dt_calc({:.2})", p1 as f64 / 100.0),
      _ => format!("calc_qi/calc_shuo/qi_accurate2/qi_high/shuo_high at day offset {}", p1 as f64 + p2 as f64 / 1000.0),
    };
    if out.wants_sample("pure", true) {
      out.sample("pure", true, || json!({"query": what, "bits": here.clone().unwrap_or_default()}));
    }
    if here != alone {
      let f = |r: &Result<Vec<u64>, String>| match r {
        Ok(v) => format!("{:?}", v.iter().map(|b| f64::from_bits(*b)).collect::<Vec<_>>()),
        Err(e) => format!("panic {}", e),
      };
      out.fail(env, viol("pure", "value_depends_on_earlier_queries_of_the_thread", case, &[("kind", kind), ("p1", p1), ("p2", p2)], what, format!("{} (alone on a new thread)", f(&alone)), f(&here)));
    }
  }
}

impl Prop for C05 {
  fn id(&self) -> &'static str {
    "C05"
  }
  fn meta(&self, env: &Env) -> Meta {
    Meta {
      rule: format!("Sub-checks: `sun` every term (24 x 251) of 1900..2150 through the UT chain (library instant UTC+8 -> UT -> TT with the Espenak-Meeus Delta T) and {} through TT (library's own Delta T, so Delta T models do not enter): Meeus ch.25 apparent longitude at that instant equals 270+15k deg within the theory's accuracy (1800 s + 1 s/cy^2, about twice the measured maximum over every term of -1000..5000), and the library's own longitude series is at the target within 0.1 arcsec; `moon` every lunation of 1900..2150 (with civil-day agreement) and {}: library precise conjunction vs Meeus ch.49 (25 periodic + 14 planetary terms) within 28 s + 0.08 s/cy^2; `pathterm` every term 1961..9999 (192,936): calendar-making day == UTC+8 civil day of the precise instant; `pathmoon` every lunation 1961..8000: first day == civil day of the precise conjunction; `inverse_sun`/`inverse_moon`: all exact multiples of pi/12 resp. 2pi over +-10,000 years and proptest f64 targets: |series(solver(w)) - w| <= 1 arcsec; `dt`: Delta T finite with steps < 6 s per 0.01 y over -4000..10000 ({}); `nutation`: nutation in longitude vs an independent four-term series within 1 arcsec on a grid over +-100 centuries; `pure`: proptest queries (term instants, Delta T, day-level and precise solvers) answered on a thread with a long random history are bit-identical to the same query alone on a brand-new thread. Non-trivial: events within 20 (30) minutes of local midnight; exact-multiple targets; Delta T table joins.", env.tier.pick("every term of every 10th year in -1000..5000", "every term of every year in -1000..5000"), env.tier.pick("every 7th lunation of -1000..5000", "every lunation of -1000..5000"), env.tier.pick("every 0.05 y plus +-0.5 y around each table join at 0.01 y", "every 0.01 y")),
      assumptions: vec![
        "Independent theory: Meeus ch. 25 low-accuracy Sun (0.01 deg), ch. 49 new moons, Espenak-Meeus Delta T; a perturbation of the library below that accuracy (about 15 min Sun, 40 s Moon) is invisible to `sun`/`moon` and only seen by `pathterm`/`pathmoon` when it moves an event across midnight on one path only".into(),
        "Beyond AD 8000 the truncated lunar solver leaves its guard band; the property excludes those lunations from day agreement".into(),
      ],
      level_text: String::new(),
    }
  }
  fn plan(&self, _env: &Env) -> Vec<TaskSpec> {
    vec![task("theory", 16), task("path", 16), task("inverse", 8), task("dt", 4)]
  }
  fn run(&self, env: &Env, t: &str, shard: usize, nshards: usize, out: &mut Out) {
    let ev = |e: &Env, o: &mut Out, s: &str, cs: &Case| self.eval(e, o, s, cs);
    let l = lunlist();
    match t {
      "theory" => {
        for y in 1900..=2150i64 {
          if y as usize % nshards != shard {
            continue;
          }
          for i in 0..24 {
            run_case(env, out, "sun", &Case::ints(&[y, i, 0]), &ev);
          }
          for p in l.year_start[y as usize] as usize..l.year_start[y as usize + 1] as usize {
            // day agreement is claimed from 1961 on (earlier months follow the historical almanac corrections)
            run_case(env, out, "moon", &Case::ints(&[p as i64, (y >= 1961) as i64]), &ev);
          }
        }
        // +-3000-year window in TT (years 0..5000 are inside the lunar list; earlier years through the term list only)
        for y in -1000..=5000i64 {
          if (y + 1000) as usize % nshards != shard {
            continue;
          }
          if env.tier == Tier::Thorough || y.rem_euclid(10) == (env.seed % 10) as i64 {
            for i in 0..24 {
              run_case(env, out, "sun", &Case::ints(&[y, i, 1]), &ev);
            }
          }
          if y >= 0 {
            for p in l.year_start[y as usize] as usize..l.year_start[y as usize + 1] as usize {
              if env.tier == Tier::Thorough || p % 7 == (env.seed % 7) as usize {
                run_case(env, out, "moon", &Case::ints(&[p as i64, 0]), &ev);
              }
            }
          }
        }
        out.set_exhaustive("sun", false);
        out.set_exhaustive("moon", false);
      }
      "path" => {
        for y in 1961..=9999i64 {
          if y as usize % nshards != shard {
            continue;
          }
          for i in 0..24 {
            run_case(env, out, "pathterm", &Case::ints(&[y, i]), &ev);
          }
          if y <= 8000 {
            for p in l.year_start[y as usize] as usize..l.year_start[y as usize + 1] as usize {
              run_case(env, out, "pathmoon", &Case::ints(&[p as i64]), &ev);
            }
          }
        }
        out.set_exhaustive("pathterm", true);
        out.set_exhaustive("pathmoon", true);
      }
      "inverse" => {
        // exact multiples
        let mut kq = -240_000i64 + shard as i64;
        while kq < 240_000 {
          if env.tier == Tier::Thorough || kq.rem_euclid(16) == 0 {
            run_case(env, out, "inverse_sun", &Case { a: vec![1], f: vec![kq as f64 * PI / 12.0], s: vec![], pre: vec![] }, &ev);
          }
          kq += nshards as i64;
        }
        let mut km = -123_000i64 + shard as i64;
        while km < 99_000 {
          if env.tier == Tier::Thorough || km.rem_euclid(8) == 0 {
            run_case(env, out, "inverse_moon", &Case { a: vec![1], f: vec![km as f64 * 2.0 * PI], s: vec![], pre: vec![] }, &ev);
          }
          km += nshards as i64;
        }
        // per millennium: the worst target of a fixed grid (re-observes every recorded envelope, and probes each bound)
        for mil in -8i64..10 {
          if (mil + 8) as usize % nshards != shard {
            continue;
          }
          let mut worst = (0.0f64, 0.0f64);
          for g in 0..4000 {
            let yr = mil as f64 * 1000.0 + g as f64 * 0.25 - 2000.0;
            let w = yr * 12.3685 * 2.0 * PI;
            let t = U::m_sa_lon_t(w);
            let r = (U::m_sa_lon(t, -1, 60) - w).abs();
            if r > worst.0 {
              worst = (r, w);
            }
          }
          run_case(env, out, "inverse_moon", &Case { a: vec![2], f: vec![worst.1], s: vec![], pre: vec![] }, &ev);
        }
        let total: u32 = env.tier.pick(40_000, 800_000);
        prop_run(env, out, "inverse_sun", total / nshards as u32, shard as u64, (-10_000.0f64..10_000.0).prop_map(|yr| Case { a: vec![0], f: vec![yr * 2.0 * PI], s: vec![], pre: vec![] }), &ev);
        prop_run(env, out, "inverse_moon", total / nshards as u32, shard as u64, (-10_000.0f64..8_000.0).prop_map(|yr| Case { a: vec![0], f: vec![yr * 12.3685 * 2.0 * PI], s: vec![], pre: vec![] }), &ev);
        out.set_exhaustive("inverse_sun", false);
        out.set_exhaustive("inverse_moon", false);
      }
      "dt" => {
        let joins = [-4000i64, -500, -150, 150, 500, 900, 1300, 1600, 1700, 1800, 1830, 1860, 1880, 1900, 1920, 1940, 1960, 1980, 2000, 2005, 2012, 2018, 2028, 2128];
        let mut y100 = -400_000i64 + shard as i64;
        while y100 < 1_000_000 {
          let near = joins.iter().any(|j| (y100 - j * 100).abs() <= 50);
          if env.tier == Tier::Thorough || near || y100.rem_euclid(5) == 0 {
            run_case(env, out, "dt", &Case::ints(&[y100]), &ev);
          }
          y100 += nshards as i64;
        }
        out.set_exhaustive("dt", env.tier == Tier::Thorough);
        // nutation in longitude on a grid over +-100 centuries (the two ends of the grid belong to different shards)
        {
          let step = env.tier.pick(3700i64, 370);
          let mut x = -10_000_000i64 + shard as i64 * step;
          while x <= 10_000_000 {
            run_case(env, out, "nutation", &Case::ints(&[x]), &ev);
            x += step * nshards as i64;
          }
          out.set_exhaustive("nutation", false);
        }
        // order independence: random queries on this thread (which by now has a long history) vs a brand-new thread
        let strat = prop_oneof![
          3 => (1i64..=9999, -2i64..=26).prop_map(|(y, k)| Case::ints(&[0, y, k])),
          3 => (-400_000i64..1_000_000).prop_map(|y| Case::ints(&[1, y, 0])),
          2 => (-1_100_000i64..2_900_000, 0i64..1000).prop_map(|(d, f)| Case::ints(&[2, d, f])),
        ];
        prop_run(env, out, "pure", env.tier.pick(6_000, 200_000) / nshards as u32, 300 + shard as u64, strat, &ev);
        out.set_exhaustive("pure", false);
      }
      _ => panic!("unknown task {}", t),
    }
  }
  fn aux(&self, _env: &Env, name: &str, _arg: &str) -> i32 {
    // calibration aid: maximum lunar inverse-solver residual per millennium over a dense grid of targets
    if name == "nutscan" {
      for c0 in (-100i64..100).step_by(10) {
        let mut mx = 0.0f64;
        let mut t = c0 as f64;
        while t < c0 as f64 + 10.0 {
          let d = (U::nutation_lon2(t) / ARCSEC - astro::nutation_lon_arcsec(t)).abs();
          if d > mx { mx = d; }
          t += 0.00137;
        }
        println!("centuries {}..{}: max |library - Meeus 4-term| = {:.3} arcsec", c0, c0 + 10, mx);
      }
      return 0;
    }
    if name == "moonres" {
      // calibration aid: maximum |library conjunction - Meeus ch.49| in seconds per 250 years, and the maximum own-series
      // residual of the term instants in arcsec
      let l = lunlist();
      let mut bins: std::collections::BTreeMap<i64, f64> = std::collections::BTreeMap::new();
      for p in 0..l.len() {
        let (ly, _) = l.at(p);
        if ly < -1000 || ly > 5000 { continue; }
        let first = lunation_first_jd(p);
        let lib_jde = lib_conjunction_tt(first) + 2451545.0;
        let k = ((first - 2451550.09766) / 29.530588861).round();
        let mut best = f64::MAX;
        for dk in [-1.0, 0.0, 1.0] {
          let j = astro::new_moon(k + dk);
          if (j - lib_jde).abs() < best { best = (j - lib_jde).abs(); }
        }
        let b = ly.div_euclid(250) * 250;
        let e = bins.entry(b).or_insert(0.0);
        if best * 86400.0 > *e { *e = best * 86400.0; }
      }
      for (b, v) in &bins {
        println!("lunations of years {}..{}: max |lib - Meeus| {:.1} s (tolerance now {:.0} s)", b, b + 249, v, moon_tol_s((*b as f64 + 125.0 - 2000.0) / 100.0));
      }
      let mut mx = 0.0f64;
      for y in (-1000i64..=5000).step_by(7) {
        for i in 0..24 {
          let t = SolarTerm::from_index(y as isize, i as isize);
          let jd_local = t.get_julian_day().get_day();
          let yy = 2000.0 + (jd_local - 2451545.0) / 365.2425;
          let tt_lib = (jd_local - 8.0 / 24.0 + U::dt_calc(yy) / 86400.0 - 2451545.0) / 36525.0;
          let tgt = (270.0 + 15.0 * i as f64).rem_euclid(360.0) * PI / 180.0;
          let mut d = (U::sa_lon(tt_lib, -1) - tgt).rem_euclid(2.0 * PI);
          if d > PI { d -= 2.0 * PI; }
          if d.abs() / ARCSEC > mx { mx = d.abs() / ARCSEC; }
        }
      }
      println!("own-series residual of term instants, max over -1000..5000: {:.4} arcsec", mx);
      return 0;
    }
    if name == "sunscan" {
      // calibration aid: maximum |theory - target| in seconds per 250 years for both modes
      for mode in [0i64, 1] {
        let (lo, hi) = if mode == 0 { (1900i64, 2150i64) } else { (-1000, 5000) };
        let mut y = lo;
        while y <= hi {
          let mut mx = 0.0f64;
          for yy in y..(y + 250).min(hi + 1) {
            for i in 0..24 {
              let t = SolarTerm::from_index(yy as isize, i as isize);
              let jd_local = t.get_julian_day().get_day();
              let yf = 2000.0 + (jd_local - 2451545.0) / 365.2425;
              let dt = if mode == 0 { astro::delta_t(yf) } else { U::dt_calc(yf) };
              let jde = jd_local - 8.0 / 24.0 + dt / 86400.0;
              let target = (270.0 + 15.0 * i as f64).rem_euclid(360.0);
              let mut diff = astro::sun_lon(jde) - target;
              if diff > 180.0 { diff -= 360.0; }
              if diff < -180.0 { diff += 360.0; }
              let secs = (diff / (360.0 / 365.2422) * 86400.0).abs();
              if secs > mx { mx = secs; }
            }
          }
          println!("mode {} years {}..{}: max {:.0} s (tolerance now {:.0} s)", mode, y, y + 249, mx, sun_tol_s((y as f64 + 125.0 - 2000.0) / 100.0));
          y += 250;
        }
      }
      return 0;
    }
    if name == "moonscan" {
      let mut y = -8000.0f64;
      while y < 10000.0 {
        let mut mx = 0.0f64;
        let mut k = 0;
        while k < 20000 {
          let yr = y + 1000.0 * (k as f64) / 20000.0 - 2000.0;
          let w = yr * 12.3685 * 2.0 * PI;
          let t = U::m_sa_lon_t(w);
          let r = (U::m_sa_lon(t, -1, 60) - w).abs() / ARCSEC;
          if r > mx {
            mx = r;
          }
          k += 1;
        }
        println!("years {:.0}..{:.0}: max residual {:.3} arcsec", y, y + 1000.0, mx);
        y += 1000.0;
      }
      return 0;
    }
    2
  }
  fn eval(&self, env: &Env, out: &mut Out, sub: &str, case: &Case) {
    match sub {
      "sun" => self.eval_sun(env, out, case),
      "moon" => self.eval_moon(env, out, case),
      "pathterm" => self.eval_pathterm(env, out, case),
      "pathmoon" => self.eval_pathmoon(env, out, case),
      "inverse_sun" | "inverse_moon" => self.eval_inverse(env, out, sub, case),
      "dt" => self.eval_dt(env, out, case),
      "pure" => self.eval_pure(env, out, case),
      "nutation" => self.eval_nutation(env, out, case),
      _ => panic!("unknown sub-check {}", sub),
    }
  }
}

#[allow(dead_code)]
fn _u() {
  let _ = lm_first_jdn;
}
