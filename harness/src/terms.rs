//! The library's own solar-term instants, read through SolarTerm::from_index(..).get_julian_day() only
//! (DESIGN 3.3). C06/C08/C15/C16/C17/C20 define their series relative to these instants; the instants
//! themselves are judged by C05.

use crate::model::JDN0;
use tyme4rs::tyme::solar::SolarTerm;

#[derive(Clone, Copy, Debug)]
pub struct TermInfo {
  pub year: i64,
  pub index: i64,
  /// precise instant as a Julian date on the library's civil (UTC+8) time line
  pub jd: f64,
  /// civil day (JDN) the library reports for the instant (instant rounded to the second, then its day)
  pub day: i64,
  /// seconds since 0001-01-01 00:00:00, rounded to the nearest second as get_solar_time does
  pub sec: i64,
  /// the second-rounding itself is ambiguous right before midnight (within 2 ms of hh:59:59.5)
  pub ambiguous_day: bool,
  /// rounding to the second is within 2 ms of a half second
  pub ambiguous_sec: bool,
  /// calendar-making day of the term
  pub cursory: i64,
}

pub struct Terms {
  pub y0: i64,
  pub list: Vec<TermInfo>,
}

pub fn term_info(year: i64, index: i64) -> TermInfo {
  let t = SolarTerm::from_index(year as isize, index as isize);
  let jd = t.get_julian_day().get_day();
  // "The term's day" is the day the library reports for the instant: the instant rounded to the nearest
  // second (as JulianDay::get_solar_time does), then its civil day. Only an instant within 2 ms of a half
  // second next to midnight is still ambiguous.
  let secs = (jd + 0.5 - JDN0 as f64) * 86400.0;
  let fs = secs - secs.floor();
  let ambiguous_sec = (fs - 0.5).abs() < 0.002;
  let sec = secs.round() as i64;
  let day = JDN0 + sec.div_euclid(86400);
  let s_in_day = secs - (secs / 86400.0).floor() * 86400.0;
  let ambiguous_day = ambiguous_sec && (s_in_day > 86400.0 - 0.6);
  TermInfo { year, index, jd, day, sec, ambiguous_day, ambiguous_sec, cursory: (t.get_cursory_julian_day() + 2451545.0 + 0.5).floor() as i64 }
}

impl Terms {
  /// all terms of years y0..=y1 (24 each), position (year-y0)*24+index
  pub fn for_years(y0: i64, y1: i64) -> Self {
    let mut list = Vec::with_capacity(((y1 - y0 + 1) * 24) as usize);
    for y in y0..=y1 {
      for i in 0..24 {
        list.push(term_info(y, i));
      }
    }
    Terms { y0, list }
  }
  pub fn get(&self, year: i64, index: i64) -> &TermInfo {
    &self.list[((year - self.y0) * 24 + index) as usize]
  }
  pub fn pos(&self, year: i64, index: i64) -> usize {
    ((year - self.y0) * 24 + index) as usize
  }
  /// position of the latest term whose civil day is <= jdn (None if before the first listed term)
  pub fn latest_by_day(&self, jdn: i64) -> Option<usize> {
    let k = self.list.partition_point(|t| t.day <= jdn);
    if k == 0 {
      None
    } else {
      Some(k - 1)
    }
  }
  /// position of the latest term whose rounded instant is <= sec
  pub fn latest_by_sec(&self, sec: i64) -> Option<usize> {
    let k = self.list.partition_point(|t| t.sec <= sec);
    if k == 0 {
      None
    } else {
      Some(k - 1)
    }
  }
}

pub const TERM_NAMES: [&str; 24] = ["冬至", "小寒", "大寒", "立春", "雨水", "惊蛰", "春分", "清明", "谷雨", "立夏", "小满", "芒种", "夏至", "小暑", "大暑", "立秋", "处暑", "白露", "秋分", "寒露", "霜降", "立冬", "小雪", "大雪"];

thread_local! {
  static CACHE: std::cell::RefCell<Option<std::rc::Rc<Terms>>> = std::cell::RefCell::new(None);
}

/// Terms covering at least years y0..=y1 (clamped to 0..=10000). Sweeps call this once with their whole
/// range; single-case evaluation (replay) builds just the few years it needs.
pub fn ensure(y0: i64, y1: i64) -> std::rc::Rc<Terms> {
  let (y0, y1) = (y0.max(0), y1.min(10000));
  CACHE.with(|c| {
    let mut c = c.borrow_mut();
    if let Some(t) = c.as_ref() {
      let have1 = t.y0 + (t.list.len() as i64) / 24 - 1;
      if t.y0 <= y0 && have1 >= y1 {
        return t.clone();
      }
    }
    let t = std::rc::Rc::new(Terms::for_years(y0, y1));
    *c = Some(t.clone());
    t
  })
}
