//! Independent low-precision solar/lunar theory (Meeus, Astronomical Algorithms, ch. 25 and 49) and the
//! Espenak-Meeus Delta-T polynomials, written from the published formulae. Shares nothing with util.rs.

use std::f64::consts::PI;

fn rad(d: f64) -> f64 {
  d * PI / 180.0
}

/// apparent geocentric longitude of the Sun in degrees [0,360) at JDE (TT); accuracy about 0.01 deg near J2000
pub fn sun_lon(jde: f64) -> f64 {
  let t = (jde - 2451545.0) / 36525.0;
  let l0 = 280.46646 + 36000.76983 * t + 0.0003032 * t * t;
  let m = 357.52911 + 35999.05029 * t - 0.0001537 * t * t;
  let c = (1.914602 - 0.004817 * t - 0.000014 * t * t) * rad(m).sin() + (0.019993 - 0.000101 * t) * rad(2.0 * m).sin() + 0.000289 * rad(3.0 * m).sin();
  let om = 125.04 - 1934.136 * t;
  (l0 + c - 0.00569 - 0.00478 * rad(om).sin()).rem_euclid(360.0)
}

/// Delta T = TT - UT in seconds (Espenak & Meeus polynomial expressions)
pub fn delta_t(y: f64) -> f64 {
  if (2005.0..2050.0).contains(&y) {
    let t = y - 2000.0;
    62.92 + 0.32217 * t + 0.005589 * t * t
  } else if (1986.0..2005.0).contains(&y) {
    let t = y - 2000.0;
    63.86 + 0.3345 * t - 0.060374 * t * t + 0.0017275 * t.powi(3) + 0.000651814 * t.powi(4) + 0.00002373599 * t.powi(5)
  } else if (1961.0..1986.0).contains(&y) {
    let t = y - 1975.0;
    45.45 + 1.067 * t - t * t / 260.0 - t.powi(3) / 718.0
  } else if (1941.0..1961.0).contains(&y) {
    let t = y - 1950.0;
    29.07 + 0.407 * t - t * t / 233.0 + t.powi(3) / 2547.0
  } else if (1920.0..1941.0).contains(&y) {
    let t = y - 1920.0;
    21.20 + 0.84493 * t - 0.076100 * t * t + 0.0020936 * t.powi(3)
  } else if (1900.0..1920.0).contains(&y) {
    let t = y - 1900.0;
    -2.79 + 1.494119 * t - 0.0598939 * t * t + 0.0061966 * t.powi(3) - 0.000197 * t.powi(4)
  } else if (2050.0..2150.0).contains(&y) {
    -20.0 + 32.0 * ((y - 1820.0) / 100.0).powi(2) - 0.5628 * (2150.0 - y)
  } else {
    let u = (y - 1820.0) / 100.0;
    -20.0 + 32.0 * u * u
  }
}

/// JDE (TT) of the mean-corrected new moon number k (k = 0 is the new moon of 2000-01-06); Meeus ch. 49
pub fn new_moon(k: f64) -> f64 {
  let t = k / 1236.85;
  let t2 = t * t;
  let t3 = t2 * t;
  let t4 = t3 * t;
  let mut jde = 2451550.09766 + 29.530588861 * k + 0.00015437 * t2 - 0.000000150 * t3 + 0.00000000073 * t4;
  let e = 1.0 - 0.002516 * t - 0.0000074 * t2;
  let m = rad(2.5534 + 29.10535670 * k - 0.0000014 * t2 - 0.00000011 * t3);
  let mp = rad(201.5643 + 385.81693528 * k + 0.0107582 * t2 + 0.00001238 * t3 - 0.000000058 * t4);
  let f = rad(160.7108 + 390.67050284 * k - 0.0016118 * t2 - 0.00000227 * t3 + 0.000000011 * t4);
  let om = rad(124.7746 - 1.56375588 * k + 0.0020672 * t2 + 0.00000215 * t3);
  jde += -0.40720 * mp.sin() + 0.17241 * e * m.sin() + 0.01608 * (2.0 * mp).sin() + 0.01039 * (2.0 * f).sin() + 0.00739 * e * (mp - m).sin() - 0.00514 * e * (mp + m).sin() + 0.00208 * e * e * (2.0 * m).sin() - 0.00111 * (mp - 2.0 * f).sin() - 0.00057 * (mp + 2.0 * f).sin()
    + 0.00056 * e * (2.0 * mp + m).sin()
    - 0.00042 * (3.0 * mp).sin()
    + 0.00042 * e * (m + 2.0 * f).sin()
    + 0.00038 * e * (m - 2.0 * f).sin()
    - 0.00024 * e * (2.0 * mp - m).sin()
    - 0.00017 * om.sin()
    - 0.00007 * (mp + 2.0 * m).sin()
    + 0.00004 * (2.0 * mp - 2.0 * f).sin()
    + 0.00004 * (3.0 * m).sin()
    + 0.00003 * (mp + m - 2.0 * f).sin()
    + 0.00003 * (2.0 * mp + 2.0 * f).sin()
    - 0.00003 * (mp + m + 2.0 * f).sin()
    + 0.00003 * (mp - m + 2.0 * f).sin()
    - 0.00002 * (mp - m - 2.0 * f).sin()
    - 0.00002 * (3.0 * mp + m).sin()
    + 0.00002 * (4.0 * mp).sin();
  let a = [
    299.77 + 0.107408 * k - 0.009173 * t2,
    251.88 + 0.016321 * k,
    251.83 + 26.651886 * k,
    349.42 + 36.412478 * k,
    84.66 + 18.206239 * k,
    141.74 + 53.303771 * k,
    207.14 + 2.453732 * k,
    154.84 + 7.306860 * k,
    34.52 + 27.261239 * k,
    207.19 + 0.121824 * k,
    291.34 + 1.844379 * k,
    161.72 + 24.198154 * k,
    239.56 + 25.513099 * k,
    331.55 + 3.592518 * k,
  ];
  let c = [0.000325, 0.000165, 0.000164, 0.000126, 0.000110, 0.000062, 0.000060, 0.000056, 0.000047, 0.000042, 0.000040, 0.000037, 0.000035, 0.000023];
  for i in 0..14 {
    jde += c[i] * rad(a[i]).sin();
  }
  jde
}

/// Nutation in longitude in arcseconds, low-accuracy series of Meeus ch. 22 (four terms, good to about 0.5"), with the
/// secular change of the main term's amplitude of the IAU 1980 theory; t = Julian centuries from J2000
pub fn nutation_lon_arcsec(t: f64) -> f64 {
  let om = rad(125.04452 - 1934.136261 * t + 0.0020708 * t * t);
  let l = rad(280.4665 + 36000.7698 * t);
  let lp = rad(218.3165 + 481267.8813 * t);
  (-17.1996 - 0.01742 * t) * om.sin() - 1.3187 * (2.0 * l).sin() - 0.2274 * (2.0 * lp).sin() + 0.2062 * (2.0 * om).sin()
}
