//! Byte-level entry point for the coverage-guided driver (cargo-fuzz / libFuzzer).
//!
//! One fuzz input = one case of one sub-check: byte 0 selects a (property, sub-check) shape among those
//! enabled (all, or the property named in VERIF_FUZZ_PROP), the following bytes are decoded into the
//! case's integer/float arguments inside the ranges the sub-check accepts (8 bytes per bounded integer,
//! taken modulo the range). The semantic oracle is the very same evaluator the enumerators and proptest
//! strategies use (`Prop::eval`); a violation that no open known finding covers makes the target panic, so
//! libFuzzer saves the input. No global state survives an iteration except the library's own memo, which
//! is what C10 is about (its evaluator resets it through the guarded hooks).

use crate::engine::*;
use crate::model::NDAYS;
use crate::props;
use std::sync::OnceLock;

#[derive(Clone, Debug)]
pub enum Arg {
  /// bounded integer (inclusive)
  Int(i64, i64),
  /// float in [lo, hi)
  Float(f64, f64),
  /// variable-length list of groups of `width` bounded integers (same bound for every position), at most `max` groups
  Groups(usize, usize, i64, i64),
}

#[derive(Clone, Debug)]
pub struct Shape {
  pub prop: &'static str,
  pub sub: &'static str,
  pub args: Vec<Arg>,
}

const SECS: i64 = NDAYS as i64 * 86400;

pub fn shapes() -> Vec<Shape> {
  let d = NDAYS as i64 - 1;
  let sh = |prop: &'static str, sub: &'static str, args: Vec<Arg>| Shape { prop, sub, args };
  use Arg::*;
  vec![
    sh("C01", "pair", vec![Int(0, d), Int(0, d)]),
    sh("C01", "accept", vec![Int(-1, 10001), Int(0, 13), Int(0, 32)]),
    sh("C02", "s2l", vec![Int(0, d)]),
    sh("C02", "l2s", vec![Int(0, 9999), Int(-12, 12), Int(0, 31)]),
    sh("C02", "order", vec![Int(0, 9999), Int(-12, 12), Int(1, 30), Int(0, 9999), Int(-12, 12), Int(1, 30)]),
    sh("C02", "lnext", vec![Int(0, d), Int(0, d), Int(0, 1)]),
    sh("C03", "adjacent", vec![Int(0, 9999), Int(-12, 12)]),
    sh("C03", "far", vec![Int(0, 9999), Int(-12, 12), Int(-1500, 1500)]),
    sh("C06", "day2term", vec![Int(0, d)]),
    sh("C06", "time2term", vec![Int(0, d), Int(0, 86399)]),
    sh("C06", "step", vec![Int(1, 9999), Int(0, 23), Int(-600, 600)]),
    sh("C07", "scd", vec![Int(0, d), Int(1, 1)]),
    sh("C07", "walk", vec![Int(9000, d - 500), Int(5, 60), Int(0, 1)]),
    sh("C08", "day", vec![Int(0, d - 366)]),
    sh("C08", "time", vec![Int(0, d - 366), Int(0, 86399)]),
    sh("C09", "hour_rand", vec![Int(0, d), Int(0, 23), Int(0, 59), Int(0, 59)]),
    sh("C09", "compose", vec![Int(0, d - 366), Int(0, 86399)]),
    sh("C09", "stepped", vec![Int(8766, d - 5), Int(0, 86399), Int(-30, 30), Int(0, 1)]),
    sh("C09", "inverse", vec![Int(0, d - 366), Int(0, 86399), Int(0, 60), Int(0, 120)]),
    sh("C10", "history", vec![Groups(5, 24, -20, 10001)]),
    sh("C11", "cyc", vec![Int(0, 41), Int(0, 150), Int(-(1 << 40), 1 << 40)]),
    sh("C11", "cyc_laws", vec![Int(0, 41), Int(0, 150), Int(-100000, 100000), Int(-100000, 100000)]),
    sh("C11", "wrap", vec![Int(0, 41), Int(-(1 << 62), 1 << 62)]),
    sh("C11", "lin", vec![Int(0, 19), Int(-12, SECS), Int(-3000, 3000), Int(-3000, 3000)]),
    sh("C12", "step", vec![Int(0, SECS - 1), Int(0, SECS - 1)]),
    sh("C12", "rt", vec![Int(0, SECS - 1)]),
    sh("C12", "jd", vec![Int(0, SECS - 1), Float(0.0, 1.0)]),
    sh("C13", "cmonth", vec![Int(1, 9999), Int(1, 12)]),
    sh("C13", "hours", vec![Int(0, d)]),
    sh("C13", "lmonth", vec![Int(0, 9999), Int(-12, 12)]),
    sh("C14", "mweeks", vec![Int(1, 9999), Int(1, 12), Int(0, 6)]),
    sh("C14", "dweek", vec![Int(40, d - 40), Int(0, 6), Int(-60, 60), Int(0, 1)]),
    sh("C14", "lweeks", vec![Int(1, 9998), Int(-12, 12), Int(0, 6), Int(-60, 60)]),
    sh("C15", "day", vec![Int(366, d - 366)]),
    sh("C16", "limit", vec![Int(366, d - 4400), Int(0, 86399), Int(0, 1)]),
    sh("C16", "provider", vec![Int(366, d - 4400), Int(0, 86399), Int(0, 1), Int(0, 3)]),
    sh("C17", "day", vec![Int(0, d - 366)]),
    sh("C17", "hour", vec![Int(0, d - 366), Int(0, 23)]),
    sh("C17", "day", vec![Int(400, d - 766), Int(-400, 400), Int(0, 1)]),
    sh("C05", "pure", vec![Int(0, 1), Int(1, 9999), Int(-2, 26)]),
    sh("C18", "object", vec![Int(0, d - 366), Int(0, 23)]),
    sh("C18", "day_cell", vec![Int(0, 11), Int(0, 59)]),
    sh("C18", "hour_cell", vec![Int(0, 59), Int(0, 11)]),
    sh("C19", "derived", vec![Int(0, 9), Int(0, 59), Int(0, 59), Int(0, 59)]),
    sh("C19", "stem_pair", vec![Int(0, 9), Int(0, 9)]),
    sh("C20", "sindex", vec![Int(1900, 2100), Int(0, 9), Int(-40, 40)]),
    sh("C20", "lindex", vec![Int(1, 9998), Int(0, 12), Int(-30, 30)]),
    sh("C20", "holiday", vec![Int(0, 820), Int(-830, 830)]),
    // route equivalence (routes.rs)
    sh("C02", "routes", vec![Int(60, d - 60)]),
    sh("C06", "routes", vec![Int(60, d - 60)]),
    sh("C07", "routes", vec![Int(60, d - 60)]),
    sh("C08", "routes", vec![Int(60, d - 60)]),
    sh("C15", "routes", vec![Int(60, d - 60)]),
    sh("C17", "routes", vec![Int(60, d - 60)]),
    sh("C18", "routes", vec![Int(60, d - 60)]),
    sh("C19", "routes", vec![Int(60, d - 60)]),
    sh("C20", "routes", vec![Int(60, d - 60)]),
    sh("C08", "hroutes", vec![Int(60, d - 60), Int(2, 22)]),
    sh("C09", "hroutes", vec![Int(60, d - 60), Int(2, 22)]),
    sh("C17", "hroutes", vec![Int(60, d - 60), Int(2, 22)]),
    sh("C18", "hroutes", vec![Int(60, d - 60), Int(2, 22)]),
  ]
}

fn take_u64(data: &[u8], pos: &mut usize) -> Option<u64> {
  if *pos + 8 > data.len() {
    // pad the tail with zeros so that short inputs still decode (libFuzzer starts with tiny inputs)
    if *pos >= data.len() {
      return None;
    }
    let mut b = [0u8; 8];
    let n = data.len() - *pos;
    b[..n].copy_from_slice(&data[*pos..]);
    *pos = data.len();
    return Some(u64::from_le_bytes(b));
  }
  let mut b = [0u8; 8];
  b.copy_from_slice(&data[*pos..*pos + 8]);
  *pos += 8;
  Some(u64::from_le_bytes(b))
}

fn in_range(v: u64, lo: i64, hi: i64) -> i64 {
  let span = (hi as i128 - lo as i128 + 1) as u128;
  (lo as i128 + (v as u128 % span) as i128) as i64
}

/// the shapes enabled for this process (VERIF_FUZZ_PROP restricts to one property)
pub fn enabled() -> &'static Vec<Shape> {
  static E: OnceLock<Vec<Shape>> = OnceLock::new();
  E.get_or_init(|| {
    let only = std::env::var("VERIF_FUZZ_PROP").ok();
    shapes().into_iter().filter(|s| only.as_deref().map(|o| o == s.prop).unwrap_or(true)).collect()
  })
}

pub fn decode(data: &[u8]) -> Option<(Shape, Case)> {
  let en = enabled();
  if data.is_empty() || en.is_empty() {
    return None;
  }
  let shape = en[data[0] as usize % en.len()].clone();
  let mut pos = 1usize;
  let mut case = Case::default();
  for a in &shape.args {
    match a {
      Arg::Int(lo, hi) => case.a.push(in_range(take_u64(data, &mut pos).unwrap_or(0), *lo, *hi)),
      Arg::Float(lo, hi) => {
        let v = take_u64(data, &mut pos).unwrap_or(0);
        let u = (v >> 11) as f64 / (1u64 << 53) as f64;
        case.f.push(lo + u * (hi - lo));
      }
      Arg::Groups(width, max, lo, hi) => {
        let mut groups = 0;
        while groups < *max {
          let mut g = vec![];
          for _ in 0..*width {
            match take_u64(data, &mut pos) {
              Some(v) => g.push(in_range(v, *lo, *hi)),
              None => break,
            }
          }
          if g.len() < *width {
            break;
          }
          // first element of a group is an op kind for C10: fold it into the supported kinds
          if shape.prop == "C10" {
            g[0] = g[0].rem_euclid(24);
            g[4] = g[4].rem_euclid(600);
          }
          case.a.extend(g);
          groups += 1;
        }
      }
    }
  }
  Some((shape, case))
}

/// inverse of `decode` for fixed-shape cases (used to seed the corpus from the regress files)
pub fn encode(prop: &str, sub: &str, case: &Case) -> Option<Vec<u8>> {
  let en = enabled();
  let idx = en.iter().position(|s| s.prop == prop && s.sub == sub)?;
  let shape = &en[idx];
  let mut out = vec![idx as u8];
  let mut ai = 0;
  let mut fi = 0;
  for a in &shape.args {
    match a {
      Arg::Int(lo, hi) => {
        let v = *case.a.get(ai)?;
        ai += 1;
        if v < *lo || v > *hi {
          return None;
        }
        out.extend(((v as i128 - *lo as i128) as u64).to_le_bytes());
      }
      Arg::Float(lo, hi) => {
        let v = *case.f.get(fi)?;
        fi += 1;
        let u = ((v - lo) / (hi - lo)).clamp(0.0, 0.999_999_999);
        out.extend((((u * (1u64 << 53) as f64) as u64) << 11).to_le_bytes());
      }
      Arg::Groups(_, _, lo, _) => {
        while ai < case.a.len() {
          out.extend(((case.a[ai] as i128 - *lo as i128) as u64).to_le_bytes());
          ai += 1;
        }
      }
    }
  }
  Some(out)
}

fn fuzz_env(prop: &str) -> Env {
  Env { prop: prop.to_string(), tier: Tier::Thorough, seed: 0, findings: Findings::load(prop), strict: false }
}

/// Evaluate one fuzz input. Returns a description of the violation, if any.
pub fn run_one(data: &[u8]) -> Option<String> {
  thread_local! {
    static ENVS: std::cell::RefCell<std::collections::HashMap<String, std::rc::Rc<Env>>> = std::cell::RefCell::new(std::collections::HashMap::new());
  }
  let (shape, case) = decode(data)?;
  let env = ENVS.with(|m| m.borrow_mut().entry(shape.prop.to_string()).or_insert_with(|| std::rc::Rc::new(fuzz_env(shape.prop))).clone());
  let p = props::get(shape.prop)?;
  let mut out = Out::new();
  run_case(&env, &mut out, shape.sub, &case, &|e, o, s, c| p.eval(e, o, s, c));
  if out.has_unknown() {
    let v = &out.viols[0];
    return Some(format!("VIOLATION property={} sub={} kind={} input={} expected={} got={} case={:?}", shape.prop, v.sub, v.kind, v.desc, v.expected, v.got, case.a));
  }
  None
}

/// Turn a fuzz input (e.g. a libFuzzer crash artifact) into a replay file; returns (property, path) if it violates.
pub fn artifact_to_replay(data: &[u8]) -> Option<(String, std::path::PathBuf)> {
  let (shape, case) = decode(data)?;
  let env = fuzz_env(shape.prop);
  let p = props::get(shape.prop)?;
  let mut out = Out::new();
  run_case(&env, &mut out, shape.sub, &case, &|e, o, s, c| p.eval(e, o, s, c));
  if out.has_unknown() {
    let path = write_replay(shape.prop, &out.viols[0]);
    println!("VIOLATION property={} replay={}", shape.prop, path.display());
    println!("  signature={} input={} expected={} got={}", out.viols[0].signature(), out.viols[0].desc, out.viols[0].expected, out.viols[0].got);
    return Some((shape.prop.to_string(), path));
  }
  None
}
