use tyme_verif::engine::*;
use tyme_verif::props;

fn usage() -> ! {
  eprintln!("usage: vcheck <Cxx> [--tier quick|thorough] [--seed N] [--replay FILE]");
  std::process::exit(2);
}

fn main() {
  let args: Vec<String> = std::env::args().collect();
  if args.len() < 2 {
    usage();
  }
  let id = args[1].clone();
  let mut tier = match std::env::var("VERIF_TIER").as_deref() {
    Ok("thorough") => Tier::Thorough,
    _ => Tier::Quick,
  };
  let mut seed: u64 = std::env::var("VERIF_SEED").ok().and_then(|s| s.trim().parse::<i128>().ok()).map(|x| x as u64).unwrap_or(20260926);
  let mut replay: Option<String> = None;
  let mut worker: Option<(String, usize, usize, String)> = None;
  let mut aux: Option<(String, String)> = None;
  let mut fuzz_stage: Option<u64> = None;
  let mut fuzz_artifact: Option<String> = None;
  let mut i = 2;
  while i < args.len() {
    match args[i].as_str() {
      "--tier" => {
        tier = if args[i + 1] == "thorough" { Tier::Thorough } else { Tier::Quick };
        i += 2;
      }
      "--seed" => {
        seed = args[i + 1].parse::<i128>().map(|x| x as u64).unwrap_or(seed);
        i += 2;
      }
      "--replay" => {
        replay = Some(args[i + 1].clone());
        i += 2;
      }
      "--fuzz-stage" => {
        fuzz_stage = Some(args[i + 1].parse().unwrap_or(100_000));
        i += 2;
      }
      "--fuzz-artifact" => {
        fuzz_artifact = Some(args[i + 1].clone());
        i += 2;
      }
      "--aux" => {
        aux = Some((args[i + 1].clone(), args[i + 2].clone()));
        i += 3;
      }
      "--worker" => {
        worker = Some((args[i + 1].clone(), args[i + 2].parse().unwrap(), args[i + 3].parse().unwrap(), args[i + 4].clone()));
        i += 5;
      }
      _ => usage(),
    }
  }
  let p = match props::get(&id) {
    Some(p) => p,
    None => {
      eprintln!("unknown property {}", id);
      std::process::exit(2);
    }
  };
  install_panic_hook();
  let env = Env { prop: id.clone(), tier, seed, findings: Findings::load(&id), strict: replay.is_some() };
  let code = if let Some(runs) = fuzz_stage {
    tyme_verif::fuzzstage::run(&id, runs, seed)
  } else if let Some(f) = fuzz_artifact {
    std::env::set_var("VERIF_FUZZ_PROP", &id);
    let data = std::fs::read(&f).expect("cannot read artifact");
    match tyme_verif::fuzz::artifact_to_replay(&data) {
      Some(_) => 1,
      None => {
        println!("artifact {}: no violation", f);
        0
      }
    }
  } else if let Some((n, a)) = aux {
    // an auxiliary child never outlives its usefulness: if the worker that started it is killed (watchdog) while the
    // library spins or blocks in here, nobody would reap it
    std::thread::spawn(|| {
      std::thread::sleep(std::time::Duration::from_secs(std::env::var("VERIF_AUX_MAX_S").ok().and_then(|v| v.parse::<u64>().ok()).unwrap_or(900)));
      std::process::exit(3);
    });
    p.aux(&env, &n, &a)
  } else if let Some(f) = replay {
    run_replay(p.as_ref(), &env, &f)
  } else if let Some((t, s, n, f)) = worker {
    run_worker(p.as_ref(), &env, &t, s, n, &f)
  } else {
    run_parent(p.as_ref(), &env)
  };
  std::process::exit(code);
}
