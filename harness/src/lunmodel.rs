//! Label model of the lunar calendar: the sequence of (year, month-with-leap) labels implied by the
//! library's leap-month table (`LunarYear::get_leap_month`, judged separately by C04) and the rule
//! "months 1..12, the leap month directly follows the regular month of the same number".

use std::sync::OnceLock;
use tyme4rs::tyme::lunar::LunarYear;

pub struct LunList {
  /// every lunation label of lunar years 0..=9999 in order
  pub labels: Vec<(i32, i8)>,
  /// index of (y, 1) for y in 0..=9999, entry 10000 = labels.len()
  pub year_start: Vec<u32>,
  pub leap: Vec<i8>,
}

impl LunList {
  fn build() -> Self {
    let mut labels = Vec::with_capacity(124_000);
    let mut year_start = vec![0u32; 10001];
    let mut leap = vec![0i8; 10000];
    for y in 0..=9999i32 {
      year_start[y as usize] = labels.len() as u32;
      let l = LunarYear::from_year(y as isize).get_leap_month() as i8;
      leap[y as usize] = l;
      for k in 1..=12i8 {
        labels.push((y, k));
        if l == k {
          labels.push((y, -k));
        }
      }
    }
    year_start[10000] = labels.len() as u32;
    LunList { labels, year_start, leap }
  }
  pub fn len(&self) -> usize {
    self.labels.len()
  }
  pub fn pos(&self, y: i64, m: i64) -> Option<usize> {
    if !(0..=9999).contains(&y) || m == 0 || m.abs() > 12 {
      return None;
    }
    let l = self.leap[y as usize] as i64;
    if m < 0 && -m != l {
      return None;
    }
    let mut idx = m.abs() - 1;
    if m < 0 || (l > 0 && m > l) {
      idx += 1;
    }
    Some(self.year_start[y as usize] as usize + idx as usize)
  }
  pub fn at(&self, p: usize) -> (i64, i64) {
    let (y, m) = self.labels[p];
    (y as i64, m as i64)
  }
  pub fn months_of(&self, y: i64) -> Vec<i64> {
    let lo = self.year_start[y as usize] as usize;
    let hi = self.year_start[y as usize + 1] as usize;
    self.labels[lo..hi].iter().map(|x| x.1 as i64).collect()
  }
}

pub fn lunlist() -> &'static LunList {
  static L: OnceLock<LunList> = OnceLock::new();
  L.get_or_init(LunList::build)
}
