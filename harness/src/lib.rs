//! tyme-verif: property checks for tyme4rs (library part; `vcheck` is the command-line driver, `fuzz/` the
//! coverage-guided driver). See /verif/DESIGN.md.
pub mod adapt;
pub mod astro;
pub mod engine;
pub mod fuzz;
pub mod fuzzstage;
pub mod lunmodel;
pub mod model;
pub mod props;
pub mod routes;
pub mod terms;
