//! Coverage-guided stage of the thorough tier: runs the libFuzzer target `props` (harness/fuzz) restricted to
//! one property, converts a crash artifact into a VIOLATION + replay file and merges the run's statistics
//! into the evidence file. If the nightly/cargo-fuzz tool chain cannot build the target the stage is skipped
//! with a NOTE (exit 0): the enumerators and proptest strategies remain the deciding machinery.

use crate::engine::*;
use crate::fuzz;
use serde_json::{json, Value};
use std::path::{Path, PathBuf};
use std::process::Command;

fn fuzz_dir() -> PathBuf {
  Path::new(&verif_dir()).join("harness")
}

/// write the seed corpus: every regress case of the property that has a fuzz shape, plus one zero input per shape
fn seed_corpus(prop: &str, dir: &Path) -> usize {
  std::fs::create_dir_all(dir).ok();
  let mut n = 0;
  let reg = Path::new(&verif_dir()).join("regress");
  if let Ok(rd) = std::fs::read_dir(&reg) {
    for e in rd.filter_map(|e| e.ok()) {
      let name = e.file_name().to_string_lossy().to_string();
      if !name.starts_with(&format!("{}-", prop)) || !name.ends_with(".json") {
        continue;
      }
      if let Ok(txt) = std::fs::read_to_string(e.path()) {
        if let Ok(v) = serde_json::from_str::<Value>(&txt) {
          let sub = v.get("sub").and_then(|x| x.as_str()).unwrap_or("");
          let case = Case::from_json(v.get("case").unwrap_or(&Value::Null));
          if let Some(bytes) = fuzz::encode(prop, sub, &case) {
            std::fs::write(dir.join(format!("regress-{}", name.trim_end_matches(".json"))), bytes).ok();
            n += 1;
          }
        }
      }
    }
  }
  for (i, _) in fuzz::enabled().iter().enumerate() {
    let mut b = vec![i as u8];
    b.extend(std::iter::repeat(0x55u8).take(40));
    std::fs::write(dir.join(format!("shape-{}", i)), b).ok();
    n += 1;
  }
  n
}

fn stat(out: &str, key: &str) -> Option<u64> {
  out.lines().filter_map(|l| l.strip_prefix(&format!("stat::{}:", key))).filter_map(|v| v.trim().parse().ok()).last()
}

pub fn run(prop: &str, runs: u64, seed: u64) -> i32 {
  std::env::set_var("VERIF_FUZZ_PROP", prop);
  let shapes = fuzz::enabled().len();
  if shapes == 0 {
    println!("NOTE: fuzz stage: no byte-level shape registered for {}", prop);
    return 0;
  }
  let hd = fuzz_dir();
  let corpus = hd.join("fuzz/corpus").join(format!("props-{}", prop));
  let artifacts = hd.join("fuzz/artifacts").join(format!("props-{}", prop));
  let _ = std::fs::remove_dir_all(&corpus);
  let _ = std::fs::remove_dir_all(&artifacts);
  std::fs::create_dir_all(&artifacts).ok();
  let seeded = seed_corpus(prop, &corpus);
  // build first so that a tool-chain problem is told apart from a finding
  let b = Command::new("cargo").current_dir(&hd).env("CARGO_NET_OFFLINE", "true").args(["+nightly", "fuzz", "build", "props"]).output();
  match b {
    Ok(o) if o.status.success() => {}
    Ok(o) => {
      println!("NOTE: fuzz stage skipped: `cargo +nightly fuzz build` failed: {}", String::from_utf8_lossy(&o.stderr).lines().rev().take(3).collect::<Vec<_>>().join(" / "));
      merge_evidence(prop, json!({"status": "skipped: fuzz target does not build in this environment"}));
      return 0;
    }
    Err(e) => {
      println!("NOTE: fuzz stage skipped: cannot run cargo +nightly fuzz: {}", e);
      merge_evidence(prop, json!({"status": "skipped: cargo-fuzz not available"}));
      return 0;
    }
  }
  let t0 = std::time::Instant::now();
  let o = Command::new("cargo")
    .current_dir(&hd)
    .env("CARGO_NET_OFFLINE", "true")
    .env("VERIF_FUZZ_PROP", prop)
    .env("VERIF_ROOT", verif_dir())
    .args(["+nightly", "fuzz", "run", "props"])
    .arg(&corpus)
    .arg("--")
    .arg(format!("-runs={}", runs))
    .arg(format!("-seed={}", if seed % 0xffff_ffff == 0 { 1 } else { seed % 0xffff_ffff }))
    .args(["-max_len=1024", "-len_control=0", "-print_final_stats=1", "-timeout=300", "-rss_limit_mb=4096"])
    // fixed work (-runs) is the budget; the wall-clock cap only stops a stage whose cases are slow (a stop is not a verdict)
    .arg(format!("-max_total_time={}", std::env::var("VERIF_FUZZ_MAX_S").ok().and_then(|v| v.parse::<u64>().ok()).unwrap_or(900)))
    .arg(format!("-artifact_prefix={}/", artifacts.display()))
    .output();
  let o = match o {
    Ok(o) => o,
    Err(e) => {
      println!("NOTE: fuzz stage skipped: {}", e);
      return 0;
    }
  };
  let err = String::from_utf8_lossy(&o.stderr).to_string();
  let execs = stat(&err, "number_of_executed_units").unwrap_or(0);
  let cov = err.lines().rev().find(|l| l.contains(" cov: ")).map(|l| l.trim().to_string()).unwrap_or_default();
  let corpus_files = std::fs::read_dir(&corpus).map(|r| r.count()).unwrap_or(0);
  let mut stats = json!({"status": "ran", "engine": "cargo-fuzz / libFuzzer, target props, VERIF_FUZZ_PROP restricts the shapes", "shapes": fuzz::enabled().iter().map(|s| format!("{}/{}", s.prop, s.sub)).collect::<Vec<_>>(), "requested_runs": runs, "executed_units": execs, "seed_corpus_files": seeded, "corpus_files_after": corpus_files, "last_status_line": cov, "wall_s": t0.elapsed().as_secs_f64()});
  // crash artifacts
  let mut rc = 0;
  if let Ok(rd) = std::fs::read_dir(&artifacts) {
    for e in rd.filter_map(|e| e.ok()) {
      let name = e.file_name().to_string_lossy().to_string();
      let data = std::fs::read(e.path()).unwrap_or_default();
      if name.starts_with("crash-") {
        match fuzz::artifact_to_replay(&data) {
          Some((_, path)) => {
            stats["violation_replay"] = json!(path.display().to_string());
            rc = 1;
          }
          None => {
            println!("NOTE: fuzz stage: artifact {} does not reproduce as a violation (crash outside the oracle?): kept at {}", name, e.path().display());
            stats["unreproduced_artifact"] = json!(e.path().display().to_string());
          }
        }
      } else if name.starts_with("slow-unit-") {
        // libFuzzer's report that one unit took longer than its reporting threshold (10 s): not an error, the campaign went on.
        // Under machine load the heavier shapes (route equivalence in the instrumented build) reach it; removed, counted.
        stats["slow_units"] = json!(stats.get("slow_units").and_then(|x| x.as_u64()).unwrap_or(0) + 1);
        let _ = std::fs::remove_file(e.path());
      } else if name.starts_with("timeout-") || name.starts_with("oom-") {
        // the additional stage never decides on its own that a run is inconclusive: on an unloaded machine no unit of the
        // unchanged tree comes near the limits, and a library that really hangs is caught by the watchdog of the main tier
        println!("NOTE: fuzz stage: libFuzzer stopped on {} (kept at {}); the verdict is that of the enumerators/proptest tier", name, e.path().display());
        stats["resource_artifact"] = json!(e.path().display().to_string());
      }
    }
  }
  println!("{} fuzz stage: executed_units={} shapes={} corpus={} {} wall={:.1}s", prop, execs, shapes, corpus_files, cov, t0.elapsed().as_secs_f64());
  if rc == 0 && !o.status.success() && execs == 0 {
    println!("NOTE: fuzz stage ended abnormally without executing inputs: {}", err.lines().rev().take(2).collect::<Vec<_>>().join(" / "));
    stats["status"] = json!("abnormal end, no inputs executed");
  }
  merge_evidence(prop, stats);
  rc
}

fn merge_evidence(prop: &str, stats: Value) {
  let p = Path::new(&verif_dir()).join("evidence").join(format!("{}.json", prop));
  if let Ok(txt) = std::fs::read_to_string(&p) {
    if let Ok(mut v) = serde_json::from_str::<Value>(&txt) {
      if let Some(c) = v.get_mut("coverage").and_then(|c| c.as_object_mut()) {
        c.insert("fuzz_stage".into(), stats);
      }
      std::fs::write(&p, serde_json::to_string_pretty(&v).unwrap()).ok();
    }
  }
}
