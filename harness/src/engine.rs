//! Engine shared by all property checks: cases, outcomes, known-finding matching,
//! worker processes, proptest driver, evidence and replay files.

use proptest::strategy::{Strategy, ValueTree};
use proptest::test_runner::{Config, RngAlgorithm, RngSeed, TestCaseError, TestError, TestRunner};
use serde_json::{json, Map, Value};
use std::cell::RefCell;
use std::collections::{BTreeMap, HashSet};
use std::panic::{catch_unwind, AssertUnwindSafe};
use std::path::{Path, PathBuf};
use std::time::{Duration, Instant};

/// root of the verification tree: $VERIF_ROOT if set (the ./check script sets it to its own directory), else /verif
pub fn verif_dir() -> String {
  std::env::var("VERIF_ROOT").unwrap_or_else(|_| "/verif".to_string())
}

#[derive(Clone, Copy, PartialEq, Eq, Debug)]
pub enum Tier {
  Quick,
  Thorough,
}

impl Tier {
  pub fn name(&self) -> &'static str {
    match self {
      Tier::Quick => "quick",
      Tier::Thorough => "thorough",
    }
  }
  pub fn pick<T>(&self, q: T, t: T) -> T {
    match self {
      Tier::Quick => q,
      Tier::Thorough => t,
    }
  }
}

// ---------------------------------------------------------------- panics

thread_local! {
  static LAST_PANIC: RefCell<String> = RefCell::new(String::new());
}

pub fn install_panic_hook() {
  std::panic::set_hook(Box::new(|info| {
    let msg = if let Some(s) = info.payload().downcast_ref::<&str>() {
      s.to_string()
    } else if let Some(s) = info.payload().downcast_ref::<String>() {
      s.clone()
    } else {
      "panic".to_string()
    };
    let loc = info.location().map(|l| format!(" @{}:{}", l.file(), l.line())).unwrap_or_default();
    LAST_PANIC.with(|p| *p.borrow_mut() = format!("{}{}", msg, loc));
  }));
}

/// Run a library call; a panic becomes Err(message).
pub fn guard<T>(f: impl FnOnce() -> T) -> Result<T, String> {
  match catch_unwind(AssertUnwindSafe(f)) {
    Ok(v) => Ok(v),
    Err(_) => Err(LAST_PANIC.with(|p| p.borrow().clone())),
  }
}

/// Short stable tag of a panic message (used in signatures): text before the first ':' / digits stripped.
pub fn panic_tag(msg: &str) -> String {
  let mut s: String = msg.chars().filter(|c| !c.is_ascii_digit()).collect();
  if let Some(i) = s.find(" @") {
    s.truncate(i);
  }
  s.truncate(60);
  s
}

// ---------------------------------------------------------------- cases

#[derive(Clone, Debug, Default, PartialEq)]
pub struct Case {
  pub a: Vec<i64>,
  pub f: Vec<f64>,
  pub s: Vec<String>,
  /// cases (sub-check, integer arguments) that were evaluated on the same fresh thread before this one when it failed in
  /// an order-sensitive pass (descending / shuffled / concurrent / strided walk); replay evaluates them first
  pub pre: Vec<(String, Vec<i64>)>,
}

impl Case {
  pub fn ints(a: &[i64]) -> Self {
    Case { a: a.to_vec(), f: vec![], s: vec![], pre: vec![] }
  }
  pub fn to_json(&self) -> Value {
    let mut m = Map::new();
    m.insert("a".into(), json!(self.a));
    if !self.f.is_empty() {
      // f64 kept exactly through its bit pattern, plus a readable copy
      m.insert("f_bits".into(), json!(self.f.iter().map(|x| x.to_bits()).collect::<Vec<u64>>()));
      m.insert("f".into(), json!(self.f));
    }
    if !self.s.is_empty() {
      m.insert("s".into(), json!(self.s));
    }
    if !self.pre.is_empty() {
      m.insert("prelude".into(), json!(self.pre.iter().map(|(s, a)| json!({"sub": s, "a": a})).collect::<Vec<_>>()));
    }
    Value::Object(m)
  }
  pub fn from_json(v: &Value) -> Self {
    let a = v.get("a").and_then(|x| x.as_array()).map(|x| x.iter().map(|y| y.as_i64().unwrap_or(0)).collect()).unwrap_or_default();
    let f = if let Some(bits) = v.get("f_bits").and_then(|x| x.as_array()) {
      bits.iter().map(|y| f64::from_bits(y.as_u64().unwrap_or(0))).collect()
    } else {
      v.get("f").and_then(|x| x.as_array()).map(|x| x.iter().map(|y| y.as_f64().unwrap_or(0.0)).collect()).unwrap_or_default()
    };
    let s = v.get("s").and_then(|x| x.as_array()).map(|x| x.iter().map(|y| y.as_str().unwrap_or("").to_string()).collect()).unwrap_or_default();
    let pre = v.get("prelude").and_then(|x| x.as_array()).map(|x| x.iter().map(|y| (y.get("sub").and_then(|z| z.as_str()).unwrap_or("").to_string(), y.get("a").and_then(|z| z.as_array()).map(|z| z.iter().map(|w| w.as_i64().unwrap_or(0)).collect()).unwrap_or_default())).collect()).unwrap_or_default();
    Case { a, f, s, pre }
  }
}

#[derive(Clone, Debug)]
pub struct Viol {
  pub sub: String,
  pub kind: String,
  pub case: Case,
  pub key: BTreeMap<String, i64>,
  pub desc: String,
  pub expected: String,
  pub got: String,
}

impl Viol {
  pub fn signature(&self) -> String {
    format!("{}/{}", self.sub, self.kind)
  }
  pub fn to_json(&self, prop: &str) -> Value {
    json!({
      "property": prop, "sub": self.sub, "kind": self.kind, "case": self.case.to_json(),
      "key": self.key, "input": self.desc, "expected": self.expected, "got": self.got,
      "signature": self.signature(),
    })
  }
  pub fn from_json(v: &Value) -> Self {
    let mut key = BTreeMap::new();
    if let Some(m) = v.get("key").and_then(|x| x.as_object()) {
      for (k, x) in m {
        key.insert(k.clone(), x.as_i64().unwrap_or(0));
      }
    }
    let g = |k: &str| v.get(k).and_then(|x| x.as_str()).unwrap_or("").to_string();
    Viol { sub: g("sub"), kind: g("kind"), case: Case::from_json(v.get("case").unwrap_or(&Value::Null)), key, desc: g("input"), expected: g("expected"), got: g("got") }
  }
}

pub fn key(pairs: &[(&str, i64)]) -> BTreeMap<String, i64> {
  pairs.iter().map(|(k, v)| (k.to_string(), *v)).collect()
}

// ---------------------------------------------------------------- known findings

#[derive(Clone, Debug)]
pub struct Finding {
  pub id: String,
  pub property: String,
  pub open: bool,
  pub subs: Vec<String>,
  pub kinds: Vec<String>,
  pub wher: Vec<(String, Vec<(i64, i64)>)>,
  pub what: String,
}

#[derive(Clone, Debug, Default)]
pub struct Findings {
  pub list: Vec<Finding>,
}

fn str_list(v: Option<&Value>) -> Vec<String> {
  match v {
    Some(Value::String(s)) => vec![s.clone()],
    Some(Value::Array(a)) => a.iter().filter_map(|x| x.as_str().map(|s| s.to_string())).collect(),
    _ => vec![],
  }
}

fn ranges(v: &Value) -> Vec<(i64, i64)> {
  match v {
    Value::Number(n) => {
      let x = n.as_i64().unwrap_or(0);
      vec![(x, x)]
    }
    Value::Array(a) if a.len() == 2 && a[0].is_number() && a[1].is_number() => vec![(a[0].as_i64().unwrap(), a[1].as_i64().unwrap())],
    Value::Object(m) => match m.get("in") {
      Some(Value::Array(a)) => a.iter().flat_map(ranges).collect(),
      _ => vec![],
    },
    Value::Array(a) => a.iter().flat_map(ranges).collect(),
    _ => vec![],
  }
}

impl Findings {
  pub fn load(property: &str) -> Self {
    let p = Path::new(&verif_dir()).join("known_findings.json");
    let txt = match std::fs::read_to_string(&p) {
      Ok(t) => t,
      Err(_) => return Findings::default(),
    };
    let v: Value = serde_json::from_str(&txt).expect("known_findings.json is not valid JSON");
    let mut list = vec![];
    for f in v.get("findings").and_then(|x| x.as_array()).cloned().unwrap_or_default() {
      let prop = f.get("property").and_then(|x| x.as_str()).unwrap_or("").to_string();
      if prop != property {
        continue;
      }
      let mut wher = vec![];
      if let Some(m) = f.get("where").and_then(|x| x.as_object()) {
        for (k, x) in m {
          wher.push((k.clone(), ranges(x)));
        }
      }
      list.push(Finding {
        id: f.get("id").and_then(|x| x.as_str()).unwrap_or("?").to_string(),
        property: prop,
        open: f.get("status").and_then(|x| x.as_str()) == Some("open"),
        subs: str_list(f.get("sub")),
        kinds: str_list(f.get("kind")),
        wher,
        what: f.get("what").and_then(|x| x.as_str()).unwrap_or("").to_string(),
      });
    }
    Findings { list }
  }

  /// id of the first OPEN finding that matches the violation (fixed entries match nothing)
  pub fn matches(&self, v: &Viol) -> Option<&Finding> {
    'f: for f in &self.list {
      if !f.open {
        continue;
      }
      if !f.subs.is_empty() && !f.subs.iter().any(|s| s == &v.sub) {
        continue;
      }
      if !f.kinds.is_empty() && !f.kinds.iter().any(|s| s == &v.kind) {
        continue;
      }
      for (k, rs) in &f.wher {
        match v.key.get(k) {
          Some(x) => {
            if !rs.iter().any(|(lo, hi)| x >= lo && x <= hi) {
              continue 'f;
            }
          }
          None => continue 'f,
        }
      }
      return Some(f);
    }
    None
  }
}

// ---------------------------------------------------------------- environment and outcome

pub struct Env {
  pub prop: String,
  pub tier: Tier,
  pub seed: u64,
  pub findings: Findings,
  /// replay mode: known findings are not suppressed
  pub strict: bool,
}

const MAX_STORED_VIOLS: usize = 40;
const MAX_SAMPLES: usize = 6;

#[derive(Default)]
pub struct Out {
  pub evals: BTreeMap<String, u64>,
  pub classes: BTreeMap<String, u64>,
  pub skipped: BTreeMap<String, u64>,
  pub nontrivial: HashSet<u64>,
  pub samples: BTreeMap<String, Vec<Value>>,
  pub nt_samples: BTreeMap<String, Vec<Value>>,
  pub known: BTreeMap<String, u64>,
  pub known_samples: BTreeMap<String, Value>,
  pub viols: Vec<Viol>,
  pub viol_count: u64,
  pub notes: Vec<String>,
  pub exhaustive: BTreeMap<String, bool>,
  /// what an order-sensitive pass has evaluated before the current case on this thread (attached to violations)
  pub cur_prelude: Vec<(String, Vec<i64>)>,
}

pub fn hash64(parts: &[i64]) -> u64 {
  // FNV-1a over the bytes, deterministic across runs
  let mut h: u64 = 0xcbf29ce484222325;
  for p in parts {
    for b in p.to_le_bytes() {
      h ^= b as u64;
      h = h.wrapping_mul(0x100000001b3);
    }
  }
  h
}

pub fn hash_str(tag: &str, parts: &[i64]) -> u64 {
  let mut h: u64 = 0xcbf29ce484222325;
  for b in tag.bytes() {
    h ^= b as u64;
    h = h.wrapping_mul(0x100000001b3);
  }
  h ^ hash64(parts).rotate_left(17)
}

impl Out {
  pub fn new() -> Self {
    Out::default()
  }
  #[inline]
  pub fn eval(&mut self, sub: &str) {
    match self.evals.get_mut(sub) {
      Some(c) => *c += 1,
      None => {
        self.evals.insert(sub.to_string(), 1);
      }
    }
  }
  #[inline]
  pub fn evals_n(&mut self, sub: &str, n: u64) {
    *self.evals.entry(sub.to_string()).or_insert(0) += n;
  }
  #[inline]
  pub fn class(&mut self, label: &str) {
    match self.classes.get_mut(label) {
      Some(c) => *c += 1,
      None => {
        self.classes.insert(label.to_string(), 1);
      }
    }
  }
  pub fn class_n(&mut self, label: &str, n: u64) {
    *self.classes.entry(label.to_string()).or_insert(0) += n;
  }
  pub fn skip(&mut self, label: &str) {
    *self.skipped.entry(label.to_string()).or_insert(0) += 1;
  }
  /// record a distinct non-trivial case (tag = sub-check, parts = canonical input)
  #[inline]
  pub fn nontrivial(&mut self, tag: &str, parts: &[i64]) {
    self.nontrivial.insert(hash_str(tag, parts));
  }
  pub fn sample(&mut self, sub: &str, nontrivial: bool, f: impl FnOnce() -> Value) {
    let m = if nontrivial { &mut self.nt_samples } else { &mut self.samples };
    let e = m.entry(sub.to_string()).or_default();
    if e.len() < MAX_SAMPLES {
      e.push(f());
    }
  }
  pub fn wants_sample(&self, sub: &str, nontrivial: bool) -> bool {
    let m = if nontrivial { &self.nt_samples } else { &self.samples };
    m.get(sub).map(|e| e.len() < MAX_SAMPLES).unwrap_or(true)
  }
  pub fn note(&mut self, s: String) {
    if self.notes.len() < 50 {
      self.notes.push(s);
    }
  }
  pub fn set_exhaustive(&mut self, sub: &str, v: bool) {
    self.exhaustive.insert(sub.to_string(), v);
  }

  /// Record a violation. Returns true when it is NOT covered by an open known finding.
  pub fn fail(&mut self, env: &Env, v: Viol) -> bool {
    let mut v = v;
    if v.case.pre.is_empty() && !self.cur_prelude.is_empty() {
      v.case.pre = self.cur_prelude.clone();
    }
    if !env.strict {
      if let Some(f) = env.findings.matches(&v) {
        *self.known.entry(f.id.clone()).or_insert(0) += 1;
        if !self.known_samples.contains_key(&f.id) {
          self.known_samples.insert(f.id.clone(), v.to_json(&env.prop));
        }
        return false;
      }
    }
    self.viol_count += 1;
    if let Ok(path) = std::env::var("VERIF_DUMP_VIOLS") {
      use std::io::Write;
      if let Ok(mut f) = std::fs::OpenOptions::new().create(true).append(true).open(path) {
        let line = format!("{}\n", serde_json::to_string(&json!({"sig": v.signature(), "key": v.key, "input": v.desc, "expected": v.expected, "got": v.got})).unwrap());
        let _ = f.write_all(line.as_bytes());
      }
    }
    // keep the smallest case per signature plus a few more
    let sig = v.signature();
    let same = self.viols.iter().filter(|x| x.signature() == sig).count();
    if same < 6 && self.viols.len() < MAX_STORED_VIOLS {
      self.viols.push(v);
    } else if let Some(pos) = self.viols.iter().position(|x| x.signature() == sig && case_less(&v.case, &x.case)) {
      // replace a stored one if this is smaller
      let worst = self.viols.iter().enumerate().filter(|(_, x)| x.signature() == sig).max_by(|a, b| case_cmp(&a.1.case, &b.1.case)).map(|(i, _)| i).unwrap_or(pos);
      self.viols[worst] = v;
    }
    true
  }

  pub fn has_unknown(&self) -> bool {
    self.viol_count > 0
  }

  pub fn merge(&mut self, o: Out) {
    for (k, v) in o.evals {
      *self.evals.entry(k).or_insert(0) += v;
    }
    for (k, v) in o.classes {
      *self.classes.entry(k).or_insert(0) += v;
    }
    for (k, v) in o.skipped {
      *self.skipped.entry(k).or_insert(0) += v;
    }
    self.nontrivial.extend(o.nontrivial);
    for (k, v) in o.samples {
      let e = self.samples.entry(k).or_default();
      for x in v {
        if e.len() < MAX_SAMPLES {
          e.push(x);
        }
      }
    }
    for (k, v) in o.nt_samples {
      let e = self.nt_samples.entry(k).or_default();
      for x in v {
        if e.len() < MAX_SAMPLES {
          e.push(x);
        }
      }
    }
    for (k, v) in o.known {
      *self.known.entry(k).or_insert(0) += v;
    }
    for (k, v) in o.known_samples {
      self.known_samples.entry(k).or_insert(v);
    }
    self.viol_count += o.viol_count;
    for v in o.viols {
      self.viols.push(v);
    }
    for n in o.notes {
      self.note(n);
    }
    for (k, v) in o.exhaustive {
      let e = self.exhaustive.entry(k).or_insert(true);
      *e = *e && v;
    }
  }

  pub fn to_json(&self, prop: &str) -> Value {
    json!({
      "evals": self.evals, "classes": self.classes, "skipped": self.skipped,
      "nontrivial": self.nontrivial.iter().collect::<Vec<_>>(),
      "samples": self.samples, "nt_samples": self.nt_samples,
      "known": self.known, "known_samples": self.known_samples,
      "viol_count": self.viol_count,
      "viols": self.viols.iter().map(|v| v.to_json(prop)).collect::<Vec<_>>(),
      "notes": self.notes, "exhaustive": self.exhaustive,
    })
  }

  pub fn from_json(v: &Value) -> Self {
    let mut o = Out::new();
    let cnt = |k: &str| -> BTreeMap<String, u64> {
      v.get(k).and_then(|x| x.as_object()).map(|m| m.iter().map(|(k, x)| (k.clone(), x.as_u64().unwrap_or(0))).collect()).unwrap_or_default()
    };
    o.evals = cnt("evals");
    o.classes = cnt("classes");
    o.skipped = cnt("skipped");
    o.known = cnt("known");
    if let Some(a) = v.get("nontrivial").and_then(|x| x.as_array()) {
      o.nontrivial = a.iter().filter_map(|x| x.as_u64()).collect();
    }
    let smp = |k: &str| -> BTreeMap<String, Vec<Value>> {
      v.get(k).and_then(|x| x.as_object()).map(|m| m.iter().map(|(k, x)| (k.clone(), x.as_array().cloned().unwrap_or_default())).collect()).unwrap_or_default()
    };
    o.samples = smp("samples");
    o.nt_samples = smp("nt_samples");
    if let Some(m) = v.get("known_samples").and_then(|x| x.as_object()) {
      o.known_samples = m.iter().map(|(k, x)| (k.clone(), x.clone())).collect();
    }
    o.viol_count = v.get("viol_count").and_then(|x| x.as_u64()).unwrap_or(0);
    if let Some(a) = v.get("viols").and_then(|x| x.as_array()) {
      o.viols = a.iter().map(Viol::from_json).collect();
    }
    if let Some(a) = v.get("notes").and_then(|x| x.as_array()) {
      o.notes = a.iter().filter_map(|x| x.as_str().map(|s| s.to_string())).collect();
    }
    if let Some(m) = v.get("exhaustive").and_then(|x| x.as_object()) {
      o.exhaustive = m.iter().map(|(k, x)| (k.clone(), x.as_bool().unwrap_or(false))).collect();
    }
    o
  }
}

fn case_cmp(a: &Case, b: &Case) -> std::cmp::Ordering {
  // fewer / smaller-magnitude integers first
  let ka: (usize, Vec<i64>) = (a.a.len(), a.a.iter().map(|x| x.abs()).collect());
  let kb: (usize, Vec<i64>) = (b.a.len(), b.a.iter().map(|x| x.abs()).collect());
  ka.cmp(&kb)
}
fn case_less(a: &Case, b: &Case) -> bool {
  case_cmp(a, b) == std::cmp::Ordering::Less
}

// ---------------------------------------------------------------- case drivers

/// Evaluate one case; a panic escaping the evaluator is itself a violation of kind "panic".
pub fn run_case(env: &Env, out: &mut Out, sub: &str, case: &Case, eval: &dyn Fn(&Env, &mut Out, &str, &Case)) {
  let r = catch_unwind(AssertUnwindSafe(|| eval(env, out, sub, case)));
  if r.is_err() {
    let msg = LAST_PANIC.with(|p| p.borrow().clone());
    out.fail(env, Viol { sub: sub.to_string(), kind: format!("panic:{}", panic_tag(&msg)), case: case.clone(), key: BTreeMap::new(), desc: format!("args {:?}", case.a), expected: "no panic on a valid input".into(), got: msg });
  }
}

/// A second, backwards pass over a deterministic sample of the cases a sweep has just run. Every answer must be a
/// function of its arguments alone, so the verdicts must not change when the same cases come in the opposite
/// order (this is what exposes a memo that is keyed or filled wrongly and only bites "later year first").
pub struct Reverse {
  every: usize,
  n: usize,
  kept: Vec<(String, Case)>,
}

impl Reverse {
  pub fn new(every: usize) -> Self {
    Reverse { every: every.max(1), n: 0, kept: vec![] }
  }
  #[inline]
  pub fn note(&mut self, sub: &str, case: &Case) {
    if self.n % self.every == 0 {
      self.kept.push((sub.to_string(), case.clone()));
    }
    self.n += 1;
  }
  /// Extra passes over the kept sample, each on fresh threads (so that thread-local memos of the library start empty):
  /// descending, in a seed-determined shuffled order, and concurrently on 8 threads (interleaved slices of the
  /// shuffled order, so that neighbouring cases run at the same time on different threads). An answer that depends on
  /// which query came first on the thread, or on what other threads are doing, differs from the oracle in one of them.
  pub fn run(self, env: &Env, out: &mut Out, eval: &(dyn Fn(&Env, &mut Out, &str, &Case) + Sync)) {
    let kept = &self.kept;
    if kept.is_empty() {
      return;
    }
    let pass = |order: &[usize], class: &'static str| -> Out {
      let mut o = Out::new();
      let first = order.first().map(|&i| (kept[i].0.clone(), kept[i].1.a.clone()));
      let mut prev: Option<(String, Vec<i64>)> = None;
      for &i in order {
        let (sub, case) = &kept[i];
        o.cur_prelude.clear();
        if case.f.is_empty() && case.s.is_empty() {
          if let Some(f) = &first {
            if prev.is_some() {
              o.cur_prelude.push(f.clone());
            }
          }
          if let Some(p) = &prev {
            if Some(p) != first.as_ref() {
              o.cur_prelude.push(p.clone());
            }
          }
        }
        run_case(env, &mut o, sub, case, eval);
        o.class(class);
        prev = Some((sub.clone(), case.a.clone()));
      }
      o.cur_prelude.clear();
      o
    };
    let on_thread = |order: Vec<usize>, class: &'static str, out: &mut Out| {
      let r = std::thread::scope(|sc| sc.spawn(|| pass(&order, class)).join());
      match r {
        Ok(o) => out.merge(o),
        Err(_) => out.note(format!("{} thread panicked outside a guarded call", class)),
      }
    };
    on_thread((0..kept.len()).rev().collect(), "reverse_pass_cases", out);
    let mut order: Vec<usize> = (0..kept.len()).collect();
    order.sort_by_key(|&i| crate::model::mix(i as u64 ^ env.seed.wrapping_mul(0x9E3779B97F4A7C15)));
    on_thread(order.iter().copied().take(kept.len() / 2 + 1).collect(), "shuffled_pass_cases", out);
    // concurrent pass: 8 threads, thread t takes positions t, t+8, ... of a differently shuffled order
    let mut order2: Vec<usize> = (0..kept.len()).collect();
    order2.sort_by_key(|&i| crate::model::mix(i as u64 ^ env.seed.wrapping_mul(0xD1B54A32D192ED03) ^ 0x5bd1));
    order2.truncate(kept.len() / 2 + 1);
    const NT: usize = 8;
    let stop = std::sync::atomic::AtomicBool::new(false);
    let results: Vec<Option<Out>> = std::thread::scope(|sc| {
      let pass = &pass;
      let order2 = &order2;
      // background noise: 4 threads keep asking the library narrow questions about other dates in tight loops, so that
      // any process-wide "last request" state is being overwritten all the time while the cases are evaluated
      if let Some(noise) = NOISE.get() {
        for t in 0..4u64 {
          let stop = &stop;
          let noise = *noise;
          let seed = env.seed;
          sc.spawn(move || {
            let mut n: u64 = crate::model::mix(seed ^ (t + 1));
            while !stop.load(std::sync::atomic::Ordering::Relaxed) {
              noise(n);
              n = n.wrapping_add(0x9E3779B97F4A7C15);
            }
          });
        }
      }
      let hs: Vec<_> = (0..NT)
        .map(|t| {
          sc.spawn(move || {
            let mine: Vec<usize> = order2.iter().copied().skip(t).step_by(NT).collect();
            pass(&mine, "concurrent_pass_cases")
          })
        })
        .collect();
      let r = hs.into_iter().map(|h| h.join().ok()).collect();
      stop.store(true, std::sync::atomic::Ordering::Relaxed);
      r
    });
    for r in results {
      match r {
        Some(o) => out.merge(o),
        None => out.note("concurrent pass thread panicked outside a guarded call".to_string()),
      }
    }
  }
}

/// Narrow library query used as background noise by the concurrent pass (registered by props::mod at start-up).
pub static NOISE: std::sync::OnceLock<fn(u64)> = std::sync::OnceLock::new();

/// Strided walks: proptest generates (start, stride, length); the cases `make(start + k*stride)` for k = 0..length are
/// evaluated in that order on one fresh thread. This is how callers iterate (every day, every week, every 30 days,
/// backwards), and it is what exposes a per-thread cursor / "last result" shortcut that is only right for some strides.
/// A violation carries the part of the walk before it as its prelude, so its replay file reproduces it.
pub fn stride_walks(env: &Env, out: &mut Out, sub: &str, walks: u32, stream: u64, lo: i64, hi: i64, max_stride: i64, make: &(dyn Fn(i64) -> Vec<i64> + Sync), eval: &(dyn Fn(&Env, &mut Out, &str, &Case) + Sync)) {
  if walks == 0 || hi - lo < 2 {
    return;
  }
  let strat = (lo..hi, proptest::prop_oneof![3 => 1i64..=3, 6 => 4i64..=45.min(max_stride), 2 => 1i64..=max_stride], proptest::bool::ANY, 6i64..=40).prop_map(|(s, st, back, len)| Case::ints(&[s, if back { -st } else { st }, len]));
  let walk_sub = format!("{}~walk", sub);
  let inner = sub.to_string();
  let walker = |e: &Env, o: &mut Out, _s: &str, c: &Case| {
    let (start, stride, len) = (c.a[0], c.a[1], c.a[2]);
    let r = std::thread::scope(|sc| {
      sc.spawn(|| {
        let mut w = Out::new();
        let mut done: Vec<(String, Vec<i64>)> = vec![];
        for k in 0..len {
          let x = start + k * stride;
          if x < lo || x >= hi {
            break;
          }
          let a = make(x);
          w.cur_prelude = done.clone();
          run_case(e, &mut w, &inner, &Case::ints(&a), eval);
          w.class("strided_walk_cases");
          done.push((inner.clone(), a));
        }
        w.cur_prelude.clear();
        w
      })
      .join()
    });
    match r {
      Ok(w) => o.merge(w),
      Err(_) => o.note("strided walk thread panicked outside a guarded call".to_string()),
    }
  };
  // the two ends of the domain, always: the first and the last 40 positions walked inwards
  run_case(env, out, &walk_sub, &Case::ints(&[lo, 1, 40]), &walker);
  run_case(env, out, &walk_sub, &Case::ints(&[hi - 1, -1, 40]), &walker);
  prop_run(env, out, &walk_sub, walks, stream, strat, &walker);
}

/// Drive a sub-check with proptest: `cases` generated cases, shrinking on the first violation that no
/// open known finding covers. Violations covered by a known finding are counted and excluded, so the
/// search continues behind them.
pub fn prop_run<S>(env: &Env, out: &mut Out, sub: &str, cases: u32, stream: u64, strat: S, eval: &dyn Fn(&Env, &mut Out, &str, &Case))
where
  S: Strategy<Value = Case>,
{
  if cases == 0 {
    return;
  }
  let seed = env.seed.wrapping_mul(0x9E3779B97F4A7C15).wrapping_add(stream).wrapping_add(hash_str(sub, &[]));
  let cfg = Config { cases, failure_persistence: None, rng_seed: RngSeed::Fixed(seed), rng_algorithm: RngAlgorithm::ChaCha, max_shrink_iters: 4096, max_global_rejects: 65536, ..Config::default() };
  let mut runner = TestRunner::new(cfg);
  let outcell = RefCell::new(std::mem::take(out));
  let failed = std::cell::Cell::new(false);
  let first_viols: RefCell<Vec<Viol>> = RefCell::new(vec![]);
  let result = runner.run(&strat, |case| {
    if failed.get() {
      // shrinking phase: evaluate on a scratch outcome
      let mut scratch = Out::new();
      run_case(env, &mut scratch, sub, &case, eval);
      return if scratch.has_unknown() { Err(TestCaseError::fail("violation")) } else { Ok(()) };
    }
    let mut o = outcell.borrow_mut();
    let before = o.viol_count;
    // evaluate on a scratch first so that a failing case is not double counted after shrinking
    let mut scratch = Out::new();
    run_case(env, &mut scratch, sub, &case, eval);
    if scratch.has_unknown() {
      failed.set(true);
      // keep counters of everything except the violation itself (re-added after shrinking)
      scratch.viol_count = 0;
      *first_viols.borrow_mut() = std::mem::take(&mut scratch.viols);
      o.merge(scratch);
      let _ = before;
      return Err(TestCaseError::fail("violation"));
    }
    o.merge(scratch);
    Ok(())
  });
  *out = outcell.into_inner();
  match result {
    Ok(()) => {}
    Err(TestError::Fail(_, minimal)) => {
      // re-evaluate the shrunk case into the real outcome
      run_case(env, out, sub, &minimal, eval);
      if !out.has_unknown() {
        // the violation observed on the generated case stands; only its minimisation did not reproduce
        out.note(format!("{}: the shrunk case {:?} did not fail again; reporting the violation as first observed (not minimised)", sub, minimal.a));
        let firsts = std::mem::take(&mut *first_viols.borrow_mut());
        if firsts.is_empty() {
          out.fail(env, Viol { sub: sub.to_string(), kind: "flaky".into(), case: minimal, key: BTreeMap::new(), desc: "shrunk case did not reproduce".into(), expected: "deterministic evaluation".into(), got: "differs between runs".into() });
        }
        for v in firsts {
          out.fail(env, v);
        }
      }
    }
    Err(TestError::Abort(r)) => {
      out.note(format!("{}: proptest aborted: {}", sub, r));
    }
  }
}

/// Generate one value of a strategy deterministically (used for sampling without a property).
pub fn sample_strategy<S: Strategy>(strat: &S, seed: u64) -> S::Value {
  let cfg = Config { failure_persistence: None, rng_seed: RngSeed::Fixed(seed), ..Config::default() };
  let mut runner = TestRunner::new(cfg);
  strat.new_tree(&mut runner).unwrap().current()
}

// ---------------------------------------------------------------- property interface

pub struct TaskSpec {
  pub name: String,
  pub shards: usize,
}

pub fn task(name: &str, shards: usize) -> TaskSpec {
  TaskSpec { name: name.to_string(), shards }
}

pub struct Meta {
  pub rule: String,
  pub assumptions: Vec<String>,
  pub level_text: String,
}

pub trait Prop: Sync {
  fn id(&self) -> &'static str;
  fn meta(&self, env: &Env) -> Meta;
  fn plan(&self, env: &Env) -> Vec<TaskSpec>;
  fn run(&self, env: &Env, task: &str, shard: usize, nshards: usize, out: &mut Out);
  /// evaluate one concrete case of sub-check `sub` (used by generators and by replay)
  fn eval(&self, env: &Env, out: &mut Out, sub: &str, case: &Case);
  /// auxiliary child-process entry points (e.g. "run this history in a fresh process")
  fn aux(&self, _env: &Env, _name: &str, _arg: &str) -> i32 {
    2
  }
  /// day-indexed sub-checks for the engine's cold-start task: (sub-check, lo, hi, case maker). Every listed sub-check is
  /// run in several FRESH PROCESSES whose very first request is an irregular date (see `cold_start`)
  fn cold_subs(&self) -> Vec<(&'static str, i64, i64, fn(i64) -> Vec<i64>)> {
    vec![]
  }
}

pub const COLD_TASK: &str = "~cold";

/// The irregular civil dates that make the first request of a cold-start process: the cut-over year and its edges, the
/// first leap years, century years, both ends of the range, the reform-era seams, leap days
pub fn cold_first_dates() -> Vec<(i64, i64, i64)> {
  vec![(1582, 10, 15), (1582, 3, 1), (1582, 10, 4), (1582, 12, 31), (4, 2, 29), (9999, 12, 31), (1, 1, 1), (2000, 2, 29), (1582, 1, 1), (1900, 3, 1), (100, 2, 29), (24, 2, 10), (9, 1, 15), (239, 12, 31), (1600, 1, 1), (2033, 12, 22), (1583, 1, 1), (1581, 12, 31), (8, 12, 31), (2024, 2, 10), (9998, 12, 31), (1, 12, 31), (1500, 2, 29), (618, 12, 31)]
}

/// Cold start: this worker is a fresh process; before anything else has been asked of the library, sub-check `sub` is
/// evaluated on ONE irregular date (chosen by the shard), then on a spread of ordinary dates over its whole domain, then on
/// the other irregular dates. A table or anchor the library builds lazily from whatever request comes first in the
/// process (or thread) must not make later answers depend on that first request.
pub fn cold_start(p: &dyn Prop, env: &Env, shard: usize, _nshards: usize, out: &mut Out) {
  let subs = p.cold_subs();
  if subs.is_empty() {
    return;
  }
  let c = crate::model::cal();
  let firsts: Vec<i64> = cold_first_dates().into_iter().filter_map(|(y, m, d)| c.index(y, m, d).map(|i| i as i64)).collect();
  let ev = |e: &Env, o: &mut Out, s: &str, cs: &Case| p.eval(e, o, s, cs);
  let first = firsts[shard % firsts.len()];
  let spread: i64 = env.tier.pick(1500, 30000) as i64;
  for (sub, lo, hi, make) in &subs {
    let clampi = |x: i64| x.clamp(*lo, *hi - 1);
    let mut done: Vec<(String, Vec<i64>)> = vec![];
    let mut one = |o: &mut Out, x: i64| {
      let a = make(clampi(x));
      o.cur_prelude = done.clone();
      run_case(env, o, sub, &Case::ints(&a), &ev);
      if done.len() < 3 {
        done.push((sub.to_string(), a));
      }
    };
    one(out, first);
    out.class("cold_start_first_requests");
    let n = hi - lo;
    let step = (n / spread).max(1);
    let off = (env.seed.wrapping_add(shard as u64 * 7919) % step as u64) as i64;
    let mut x = lo + off;
    while x < *hi {
      one(out, x);
      out.class("cold_start_spread_cases");
      x += step;
    }
    for f in &firsts {
      one(out, *f);
    }
    out.cur_prelude.clear();
  }
}

// ---------------------------------------------------------------- parent: spawn workers, merge, report

fn work_dir(prop: &str) -> PathBuf {
  let d = Path::new(&verif_dir()).join("harness/target/work").join(format!("{}-{}", prop, std::process::id()));
  std::fs::create_dir_all(&d).ok();
  d
}

pub fn run_worker(p: &dyn Prop, env: &Env, task: &str, shard: usize, nshards: usize, outfile: &str) -> i32 {
  let mut out = Out::new();
  // a panic outside a guarded case (e.g. the library refusing a valid value while a generator prepares its cases) must not
  // take the worker's findings with it: it is recorded, and what was gathered so far is still reported
  let r = catch_unwind(AssertUnwindSafe(|| if task == COLD_TASK { cold_start(p, env, shard, nshards, &mut out) } else { p.run(env, task, shard, nshards, &mut out) }));
  if r.is_err() {
    let msg = LAST_PANIC.with(|p| p.borrow().clone());
    out.fail(env, Viol { sub: format!("worker:{}", task), kind: format!("panic_while_generating:{}", panic_tag(&msg)), case: Case::ints(&[shard as i64, nshards as i64]), key: BTreeMap::new(), desc: format!("task {} shard {}/{}: a library call made while preparing cases (valid arguments) panicked", task, shard, nshards), expected: "no panic on valid input".into(), got: msg });
  }
  let v = out.to_json(p.id());
  std::fs::write(outfile, serde_json::to_vec(&v).unwrap()).expect("cannot write worker output");
  0
}

pub fn run_regress(p: &dyn Prop, env: &Env, out: &mut Out) {
  let dir = Path::new(&verif_dir()).join("regress");
  let mut files: Vec<PathBuf> = match std::fs::read_dir(&dir) {
    Ok(rd) => rd.filter_map(|e| e.ok()).map(|e| e.path()).filter(|p2| p2.file_name().and_then(|n| n.to_str()).map(|n| n.starts_with(&format!("{}-", p.id())) && n.ends_with(".json")).unwrap_or(false)).collect(),
    Err(_) => vec![],
  };
  files.sort();
  for f in files {
    let txt = std::fs::read_to_string(&f).unwrap_or_default();
    let v: Value = match serde_json::from_str(&txt) {
      Ok(v) => v,
      Err(_) => {
        out.note(format!("regress file {:?} unreadable", f));
        continue;
      }
    };
    let sub = v.get("sub").and_then(|x| x.as_str()).unwrap_or("").to_string();
    let case = Case::from_json(v.get("case").unwrap_or(&Value::Null));
    out.class("regress_replayed");
    run_case(env, out, &sub, &case, &|e, o, s, c| p.eval(e, o, s, c));
  }
}

pub fn run_parent(p: &dyn Prop, env: &Env) -> i32 {
  let t0 = Instant::now();
  let exe = std::env::current_exe().expect("current_exe");
  let wd = work_dir(p.id());
  let plan = p.plan(env);
  let mut jobs: Vec<(String, usize, usize, PathBuf)> = vec![];
  for t in &plan {
    for s in 0..t.shards {
      jobs.push((t.name.clone(), s, t.shards, wd.join(format!("{}-{}.json", t.name.replace('/', "_"), s))));
    }
  }
  if !p.cold_subs().is_empty() {
    let k = env.tier.pick(8, 24) as usize;
    for s in 0..k {
      jobs.push((COLD_TASK.to_string(), s, k, wd.join(format!("cold-{}.json", s))));
    }
  }
  let maxpar: usize = std::env::var("VERIF_JOBS").ok().and_then(|s| s.parse().ok()).unwrap_or_else(|| std::thread::available_parallelism().map(|n| n.get()).unwrap_or(8)).max(1);
  let watchdog = Duration::from_secs(std::env::var("VERIF_WORKER_TIMEOUT_S").ok().and_then(|s| s.parse().ok()).unwrap_or(env.tier.pick(300, 3 * 3600)));
  let mut merged = Out::new();
  run_regress(p, env, &mut merged);

  let mut running: Vec<(std::process::Child, usize, Instant)> = vec![];
  let mut next = 0usize;
  let mut inconclusive: Vec<String> = vec![];
  let mut done = 0usize;
  while done < jobs.len() {
    while running.len() < maxpar && next < jobs.len() {
      let (t, s, n, f) = &jobs[next];
      let child = std::process::Command::new(&exe)
        .arg(p.id())
        .arg("--tier")
        .arg(env.tier.name())
        .arg("--seed")
        .arg(env.seed.to_string())
        .arg("--worker")
        .arg(t)
        .arg(s.to_string())
        .arg(n.to_string())
        .arg(f)
        .stdout(std::process::Stdio::null())
        .spawn()
        .expect("spawn worker");
      running.push((child, next, Instant::now()));
      next += 1;
    }
    let mut i = 0;
    let mut progressed = false;
    while i < running.len() {
      let finished = match running[i].0.try_wait() {
        Ok(Some(st)) => Some(st.code()),
        Ok(None) => {
          if running[i].2.elapsed() > watchdog {
            let _ = running[i].0.kill();
            let _ = running[i].0.wait();
            let j = &jobs[running[i].1];
            inconclusive.push(format!("worker {}#{} exceeded the watchdog of {}s and was killed", j.0, j.1, watchdog.as_secs()));
            Some(Some(-9))
          } else {
            None
          }
        }
        Err(e) => {
          inconclusive.push(format!("wait error {}", e));
          Some(None)
        }
      };
      if let Some(code) = finished {
        let (_, jidx, _) = running.remove(i);
        let j = &jobs[jidx];
        done += 1;
        progressed = true;
        if code == Some(0) {
          match std::fs::read(&j.3).ok().and_then(|b| serde_json::from_slice::<Value>(&b).ok()) {
            Some(v) => merged.merge(Out::from_json(&v)),
            None => inconclusive.push(format!("worker {}#{} produced no readable output", j.0, j.1)),
          }
        } else if code != Some(-9) {
          inconclusive.push(format!("worker {}#{} exited with {:?}", j.0, j.1, code));
        }
        let _ = std::fs::remove_file(&j.3);
      } else {
        i += 1;
      }
    }
    if !progressed {
      std::thread::sleep(Duration::from_millis(15));
    }
  }
  let _ = std::fs::remove_dir_all(&wd);
  report(p, env, merged, inconclusive, t0.elapsed().as_secs_f64())
}

fn pick_samples(m: &Out) -> Vec<Value> {
  let mut v = vec![];
  // at least one non-trivial sample per sub-check first, then trivial ones
  for (sub, l) in &m.nt_samples {
    for x in l.iter().take(2) {
      v.push(json!({"sub": sub, "nontrivial": true, "case": x}));
    }
  }
  for (sub, l) in &m.samples {
    for x in l.iter().take(1) {
      v.push(json!({"sub": sub, "nontrivial": false, "case": x}));
    }
  }
  for (id, x) in &m.known_samples {
    v.push(json!({"known_finding": id, "case": x}));
  }
  v.truncate(60);
  v
}

pub fn write_replay(prop: &str, v: &Viol) -> PathBuf {
  let dir = Path::new(&verif_dir()).join("replays");
  std::fs::create_dir_all(&dir).ok();
  let h = hash_str(&v.signature(), &v.case.a) ^ v.case.f.iter().fold(0u64, |a, x| a.rotate_left(7) ^ x.to_bits()) ^ v.case.s.iter().fold(0u64, |a, x| a.rotate_left(9) ^ hash_str(x, &[]));
  let kind: String = v.kind.chars().map(|c| if c.is_ascii_alphanumeric() { c } else { '_' }).take(24).collect();
  let path = dir.join(format!("{}-{}-{}-{:08x}.json", prop, v.sub.replace('/', "_"), kind, h as u32));
  std::fs::write(&path, serde_json::to_string_pretty(&v.to_json(prop)).unwrap()).ok();
  path
}

fn report(p: &dyn Prop, env: &Env, m: Out, inconclusive: Vec<String>, wall: f64) -> i32 {
  let meta = p.meta(env);
  // a worker may declare its own result inconclusive through a note
  let mut inconclusive = inconclusive;
  for n in &m.notes {
    if let Some(rest) = n.strip_prefix("INCONCLUSIVE: ") {
      inconclusive.push(rest.to_string());
    }
  }
  let evaluations: u64 = m.evals.values().sum();
  let exhaustive = !m.exhaustive.is_empty() && m.exhaustive.values().all(|b| *b);
  // known findings
  let mut known_obs = Map::new();
  for f in &env.findings.list {
    if !f.open {
      continue;
    }
    let n = m.known.get(&f.id).cloned().unwrap_or(0);
    known_obs.insert(f.id.clone(), json!(n));
    if n > 0 {
      println!("KNOWN-FINDING: property={} id={} {} (observed {} times in this run)", p.id(), f.id, f.what, n);
    } else {
      println!("NOTE: known finding {} was not observed in this run ({})", f.id, f.what);
    }
  }
  // violations: one line per distinct signature (smallest case), replay file for each
  let mut by_sig: BTreeMap<String, Vec<&Viol>> = BTreeMap::new();
  for v in &m.viols {
    by_sig.entry(v.signature()).or_default().push(v);
  }
  let mut viol_json = vec![];
  for (sig, mut l) in by_sig {
    l.sort_by(|a, b| case_cmp(&a.case, &b.case));
    let v = l[0];
    let path = write_replay(p.id(), v);
    println!("VIOLATION property={} replay={}", p.id(), path.display());
    println!("  signature={} input={} expected={} got={}", sig, v.desc, v.expected, v.got);
    viol_json.push(json!({"signature": sig, "minimal": v.to_json(p.id()), "replay": path.display().to_string(), "stored_cases_with_signature": l.len()}));
  }
  for n in &m.notes {
    println!("NOTE: {}", n);
  }
  for s in &inconclusive {
    println!("INCONCLUSIVE: {}", s);
  }
  let samples = pick_samples(&m);
  let ev = json!({
    "property_id": p.id(),
    "tier": env.tier.name(),
    "seed": env.seed,
    "level": "exploration",
    "coverage": {
      "evaluations": evaluations,
      "distinct_nontrivial": m.nontrivial.len(),
      "rule": meta.rule,
      "samples": samples,
      "exhaustive": exhaustive,
      "exhaustive_by_subcheck": m.exhaustive,
      "evaluations_by_subcheck": m.evals,
      "classes": m.classes,
      "ambiguous_or_out_of_domain_skipped": m.skipped,
      "known_findings_observed": known_obs,
      "violation_details": viol_json,
      "inconclusive": inconclusive,
      "notes": m.notes,
    },
    "assumptions": meta.assumptions,
    "wall_s": (wall * 1000.0).round() / 1000.0,
    "violations": m.viol_count,
  });
  let edir = Path::new(&verif_dir()).join("evidence");
  std::fs::create_dir_all(&edir).ok();
  std::fs::write(edir.join(format!("{}.json", p.id())), serde_json::to_string_pretty(&ev).unwrap()).expect("write evidence");
  println!("{} {} seed={} evaluations={} distinct_nontrivial={} known_hits={} violations={} wall={:.1}s", p.id(), env.tier.name(), env.seed, evaluations, m.nontrivial.len(), m.known.values().sum::<u64>(), m.viol_count, wall);
  if m.viol_count > 0 {
    1
  } else if !inconclusive.is_empty() {
    2
  } else {
    0
  }
}

pub fn run_replay(p: &dyn Prop, env: &Env, file: &str) -> i32 {
  let txt = std::fs::read_to_string(file).expect("cannot read replay file");
  let v: Value = serde_json::from_str(&txt).expect("replay file is not JSON");
  let sub = v.get("sub").and_then(|x| x.as_str()).unwrap_or("").to_string();
  let case = Case::from_json(v.get("case").unwrap_or(&Value::Null));
  let mut out = Out::new();
  if let Some(task) = sub.strip_prefix("worker:") {
    // a panic outside a case: replay = run that worker shard again in this process
    let (sh, n) = (case.a.first().cloned().unwrap_or(0) as usize, case.a.get(1).cloned().unwrap_or(1).max(1) as usize);
    let r = catch_unwind(AssertUnwindSafe(|| p.run(env, task, sh, n, &mut out)));
    if r.is_err() {
      let msg = LAST_PANIC.with(|p| p.borrow().clone());
      println!("VIOLATION property={} replay={}", p.id(), file);
      println!("  signature={}/panic_while_generating input=task {} shard {}/{} expected=no panic on valid input got={}", sub, task, sh, n, msg);
      return 1;
    }
  } else if case.pre.is_empty() {
    run_case(env, &mut out, &sub, &case, &|e, o, s, c| p.eval(e, o, s, c));
  } else {
    // order-sensitive failure: evaluate what preceded it on a fresh thread first (verdicts discarded), then the case
    let r = std::thread::scope(|sc| {
      sc.spawn(|| {
        let mut scratch = Out::new();
        for (psub, a) in &case.pre {
          run_case(env, &mut scratch, psub, &Case::ints(a), &|e, o, s, c| p.eval(e, o, s, c));
        }
        let mut o = Out::new();
        let mut c = case.clone();
        c.pre.clear();
        run_case(env, &mut o, &sub, &c, &|e, o, s, c| p.eval(e, o, s, c));
        o
      })
      .join()
    });
    if let Ok(o) = r {
      out.merge(o);
    }
  }
  if out.viol_count > 0 {
    for x in &out.viols {
      println!("VIOLATION property={} replay={}", p.id(), file);
      println!("  signature={} input={} expected={} got={}", x.signature(), x.desc, x.expected, x.got);
    }
    1
  } else {
    println!("replay {}: sub={} case={:?} -> no violation ({} evaluations)", file, sub, case.a, out.evals.values().sum::<u64>());
    0
  }
}

/// contiguous sub-range [lo,hi) of 0..n for a shard
pub fn shard_range(n: usize, shard: usize, nshards: usize) -> (usize, usize) {
  let lo = n * shard / nshards;
  let hi = n * (shard + 1) / nshards;
  (lo, hi)
}
