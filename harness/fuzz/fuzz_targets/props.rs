#![no_main]
//! Coverage-guided driver: every input is one case of one sub-check (see tyme_verif::fuzz). The oracle is
//! the same evaluator the enumerators and proptest strategies use; an uncovered violation aborts the run so
//! that libFuzzer saves the input, which `vcheck <Cxx> --fuzz-artifact <file>` turns into a replay file.
use libfuzzer_sys::fuzz_target;
use std::sync::Once;

static INIT: Once = Once::new();

fuzz_target!(|data: &[u8]| {
  INIT.call_once(|| {
    tyme_verif::engine::install_panic_hook();
  });
  if let Some(msg) = tyme_verif::fuzz::run_one(data) {
    eprintln!("{}", msg);
    std::process::abort();
  }
});
