#!/usr/bin/env python3
"""Confirm a seeded change and run the checks against it.

usage: tools/seed_eval.py <src_dir_with_patch.diff+demo.rs+meta.json> <seed_id> [--checks C01,C02,...|all] [--tier quick]

1. In a scratch worktree of /repo (outside /repo and /verif, removed afterwards): the patch applies, the crate
   builds, the existing test suite passes with it, the demonstration fails with it and passes without it.
2. Apply the patch to /repo, run the named checks (default: the property it targets, then all), undo it.
3. Store everything under /verif/seeded/<seed_id>/ (patch.diff, demo.rs, meta.json with what was run and seen).
"""
import json, os, shutil, subprocess, sys, time
# SEED_REPO / SEED_VERIF: run phase 2 against scratch copies (a worktree of /repo and a copy of /verif whose harness
# depends on it) instead of /repo and /verif themselves, e.g. while a long `vp run` is using /repo
REPO = os.environ.get("SEED_REPO", "/repo"); VERIF = os.environ.get("SEED_VERIF", "/verif")

def sh(cmd, cwd=None, timeout=3600):
    p = subprocess.run(cmd, shell=True, cwd=cwd, capture_output=True, text=True, timeout=timeout,
                       env=dict(os.environ, CARGO_NET_OFFLINE="true"))
    return p.returncode, p.stdout + p.stderr

def main():
    src = os.path.abspath(sys.argv[1]); sid = sys.argv[2]
    checks = "target"; tier = "quick"; confirm_only = False; reuse = False
    a = sys.argv[3:]
    while a:
        if a[0] == "--checks": checks = a[1]; a = a[2:]
        elif a[0] == "--confirm-only": confirm_only = True; a = a[1:]   # phase 1 only (does not touch /repo's working tree)
        elif a[0] == "--reuse-confirm": reuse = True; a = a[1:]         # skip phase 1 if an earlier run stored a full confirmation
        elif a[0] == "--tier": tier = a[1]; a = a[2:]
        else: a = a[1:]
    patch = os.path.join(src, "patch.diff"); demo = os.path.join(src, "demo.rs")
    meta_in = {}
    try: meta_in = json.load(open(os.path.join(src, "meta.json")))
    except Exception: pass
    prop = meta_in.get("property") or sid.split("-")[0]
    res = {"seed_id": sid, "property": prop, "summary": meta_in.get("summary"), "needs_to_manifest": meta_in.get("needs_to_manifest"),
           "author_commands": meta_in.get("commands"), "confirmed": {}, "checks": {}}
    # ---- 1. confirm in a scratch worktree
    wt = f"/tmp/seedver-{sid}"
    prev = None
    if reuse:
        try:
            prev = json.load(open(f"/verif/seeded/{sid}/meta.json"))
            if not prev.get("confirmed", {}).get("all"): prev = None
        except Exception: prev = None
    if prev:
        res["confirmed"] = prev["confirmed"]; res["checks"] = prev.get("checks", {})
    else:
        sh(f"git -C /repo worktree remove --force {wt}"); shutil.rmtree(wt, ignore_errors=True)
        rc, out = sh(f"git -C /repo worktree add --detach {wt} HEAD")
    try:
      if not prev:
            rc, out = sh(f"git apply --check {patch} && git apply {patch}", cwd=wt)
            res["confirmed"]["patch_applies"] = rc == 0
            if rc != 0:
                res["confirmed"]["error"] = out[-500:]
            else:
                changed = sh("git diff --stat -- src | tail -1", cwd=wt)[1].strip()
                res["confirmed"]["diffstat"] = changed
                rc, out = sh("cargo test --workspace --no-fail-fast --offline 2>&1 | grep -E '^test result|error(\\[|:)' ", cwd=wt)
                lines = [l for l in out.splitlines() if l.startswith("test result")]
                ok = len(lines) >= 2 and all(" 0 failed" in l for l in lines) and "error" not in out
                res["confirmed"]["existing_tests_pass_with_change"] = ok
                res["confirmed"]["test_summary"] = lines
                os.makedirs(os.path.join(wt, "tests"), exist_ok=True)
                shutil.copy(demo, os.path.join(wt, "tests", "demo.rs"))
                rc, out = sh("cargo test --offline --test demo 2>&1 | tail -15", cwd=wt)
                res["confirmed"]["demo_fails_with_change"] = ("test result: FAILED" in out)
                sh("git checkout -- src", cwd=wt)
                rc, out = sh("cargo test --offline --test demo 2>&1 | tail -8", cwd=wt)
                res["confirmed"]["demo_passes_without_change"] = ("test result: ok" in out and "0 failed" in out)
    finally:
        sh(f"git -C /repo worktree remove --force {wt}"); shutil.rmtree(wt, ignore_errors=True)
    good = all(res["confirmed"].get(k) for k in ("patch_applies", "existing_tests_pass_with_change", "demo_fails_with_change", "demo_passes_without_change"))
    res["confirmed"]["all"] = good
    # ---- 2. run the checks against it
    if good and not confirm_only:
        allp = [json.loads(l)["id"] for l in open("/verif/properties.jsonl")]
        if checks == "target": todo = [prop]
        elif checks == "all": todo = [prop] + [p for p in allp if p != prop]
        else: todo = checks.split(",")
        st = sh(f"git -C {REPO} status --porcelain -- src")[1].strip()
        if st:
            print(f"refusing: {REPO} has local modifications", st); sys.exit(2)
        rc, out = sh(f"git -C {REPO} apply {patch}")
        try:
            for c in todo:
                t0 = time.time()
                rc, out = sh(f"VERIF_TIER={tier} ./check {c} {tier}", cwd=VERIF, timeout=7200)
                sigs = [l.strip()[:300] for l in out.splitlines() if l.strip().startswith("signature=")]
                res["checks"][c] = {"exit": rc, "detected": rc == 1, "wall_s": round(time.time() - t0, 1), "first_signatures": sigs[:4]}
                print(f"  {sid}: check {c} exit={rc} {'DETECTED' if rc == 1 else ('inconclusive' if rc == 2 else 'missed')} {sigs[:1]}")
        finally:
            sh(f"git -C {REPO} checkout -- .")
    # ---- 3. store
    dst = f"/verif/seeded/{sid}"
    os.makedirs(dst, exist_ok=True)
    shutil.copy(patch, os.path.join(dst, "patch.diff")); shutil.copy(demo, os.path.join(dst, "demo.rs"))
    res["what_was_run"] = ["scratch worktree: git apply patch.diff; cargo test --workspace --no-fail-fast --offline; cargo test --offline --test demo (with and without the patch)",
                           f"git -C /repo apply patch.diff; ./check <Cxx> {tier}; git -C /repo checkout -- ."]
    json.dump(res, open(os.path.join(dst, "meta.json"), "w"), indent=1, ensure_ascii=False)
    print(json.dumps({"seed": sid, "confirmed": res["confirmed"].get("all"), "detected_by": [c for c, v in res["checks"].items() if v["detected"]]}))

if __name__ == "__main__":
    main()
