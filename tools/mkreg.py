import json,sys
# usage: mkreg.py name prop sub ints...
name,prop,sub=sys.argv[1:4]; a=[int(x) for x in sys.argv[4:]]
json.dump({"property":prop,"sub":sub,"case":{"a":a},"note":"regression case of a fixed defect; replayed first by every run"},open(f'"+__import__("os").environ.get("VERIF_ROOT","/verif")+"/regress/{name}.json','w'),indent=1)
