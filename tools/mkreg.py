#!/usr/bin/env python3
"""Write a regress file: tools/mkreg.py <name> <Cxx> <sub> <int args...>"""
import json, os, sys
name, prop, sub = sys.argv[1:4]
a = [int(x) for x in sys.argv[4:]]
root = os.environ.get("VERIF_ROOT", "/verif")
json.dump({"property": prop, "sub": sub, "case": {"a": a}, "note": "regression case of a fixed defect; replayed first by every run"},
          open(f"{root}/regress/{name}.json", "w"), indent=1)
