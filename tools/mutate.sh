#!/usr/bin/env bash
# usage: tools/mutate.sh <patch.diff> <Cxx> [Cxx...]   — apply a patch to /repo, run quick checks, revert.
set -u
P="$(readlink -f "$1")"; shift
cd /verif
git -C /repo apply "$P" || { echo "patch does not apply"; exit 3; }
trap 'git -C /repo checkout -- . ' EXIT
for c in "$@"; do
  ./check "$c" "${TIER:-quick}" 2>&1 | grep -E "VIOLATION|INCONCLUSIVE|signature=|evaluations=" | cut -c1-400
  echo "exit=${PIPESTATUS[0]}"
done
