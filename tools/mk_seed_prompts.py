#!/usr/bin/env python3
"""Write the briefs for a round of independently seeded changes (one per property) and create the scratch
worktrees. Usage: mk_seed_prompts.py <round-dir under /tmp> (e.g. /tmp/seed3). The sub-agents get only the
property text and their own worktree; nothing from /verif except the one-line summaries of earlier seeded
changes for that property (so that they do not repeat them)."""
import json, sys, os, subprocess, glob
root = sys.argv[1]
SHAPES_R3 = ' (A) the kind of slip a maintainer makes while porting a fix or feature from the sibling Java/TypeScript library or while tidying code: a wrong variable of the same type, a swapped pair of arguments, `<` for `<=`, a sign or rounding mode, a loop bound, an early return, integer vs float arithmetic - located in a secondary accessor or in one branch of a function, so that the wrong answer is PLAUSIBLE (another legal value) rather than a crash;\n (B) wrong only for a combination of two or more arguments or conditions that each occur often but rarely together (e.g. a particular week start together with a particular month shape; a gender together with a boundary instant; negative step together with a year carry);\n (C) wrong only at the extremes of the supported domain (the first/last supported year or day, the largest steps, index 0 or size-1 of a cycle, negative indices, the last entry of a table) or only for a value reached by a long chain of stepping;\n (D) process-global or per-thread state other than a plain memo: a configurable provider/static that is left changed, a lock taken in a different order or held across a call, a lazily initialised table built from the first request, behaviour that differs between the first and later calls, or between threads running at the same time;\n (E) an internal helper shared by several public routes changed so that only ONE of the routes named under "observable through" goes wrong while the most commonly used route stays right.\n'
SHAPES_R5 = " (K) wrong only at the edge of the supported domain of this property: the first or last supported year / day / instant, year 0 or 1, index 0 or size-1 of a list, n = 0, an empty or single-element result, the largest magnitudes the API accepts - while everything a few steps inside the domain stays right;\n (L) a special-case branch (1582 cut-over, leap month, leap second-of-day roll, 23:00 roll, reform-era years, `if year < 1600`, first/last record of a table) that the crate's own tests never execute: find one with a quick experiment (e.g. put a panic!() in it and run the suite), then change what that branch does in a plausible way;\n (M) the refusal side of the contract: an invalid argument (month 13, day 31 of a 30-day month, hour 24, second 60, a leap month the year does not have, an unknown name, an index outside a non-wrapping range, a date in the 1582 gap) that used to be refused is now silently accepted and mapped to some neighbouring valid value - on ONE constructor or route only (the sibling constructors keep refusing), or a valid extreme argument is now refused;\n (N) a conversion between two representations of the same instant or day that drops or mangles one field on the way (seconds or minutes lost, leap flag lost, hour taken from the wrong object, day taken before instead of after a roll-over) so that a round trip through that one conversion is no longer the identity while each side on its own is consistent;\n (O) a loop replaced by a closed formula, a linear scan by a binary search, or repeated work by a lazily built table, with an off-by-one that only bites at the first or last element, for the largest step counts, or for a table slot that is filled by a later request.\n"
SHAPES_R4 = ' (F) a secondary public surface of the same values that the property still covers: equality / comparison operators, Display or name getters used as identities, `from_name`/`from_index`/`from_ymd` vs `new`, conversions between representations (`Into`, getters that rebuild a parent object, `get_solar_day` <-> `get_lunar_day` <-> `get_sixty_cycle_day` round trips), list accessors vs single-item accessors - changed so that the main accessor stays right and the secondary one disagrees with it;\n (G) two errors that cancel on the common route and only show on a less common one (e.g. an offset added in a helper and subtracted again by its main caller, but not by a second caller);\n (H) numeric representation slips: usize/isize casts of possibly negative values, f64 -> integer truncation vs floor vs round near .0/.5, integer division of negatives, `%` vs `rem_euclid`, overflow-free but wrong for large magnitudes, comparisons of floats that differ in the last bits - located so that only rare inputs (negative indices, instants within a second of a boundary, years near the ends of the range) are affected;\n (I) a one-cell edit of a data table or packed string (one entry of a leap-month list, one holiday record, one coefficient far down a series, one character of a packed table, one element of a names array used only by one accessor) that the property text nevertheless pins down (do not pick a cell whose content the statement leaves open);\n (J) a change in *when* something is computed (moved into a constructor, made lazy, hoisted out of a loop, cached in the value itself) that makes a value built one way differ from the same value built another way (constructed vs stepped vs cloned vs taken from a list).\n'
os.makedirs(root + '/prompts', exist_ok=True)
props = {json.loads(l)['id']: json.loads(l) for l in open('/verif/properties.jsonl')}
for pid, p in props.items():
    wt = f'{root}/{pid}'
    if not os.path.isdir(wt):
        subprocess.run(['git', '-C', '/repo', 'worktree', 'add', '--detach', wt, 'HEAD'], check=True, capture_output=True)
    prev = []
    for d in sorted(glob.glob(f'/verif/seeded/{pid}-*/meta.json')):
        try:
            m = json.load(open(d)); prev.append('- ' + str(m.get('summary'))[:600])
        except Exception:
            pass
    shapes = {"r4": SHAPES_R4, "r5": SHAPES_R5}.get(sys.argv[2] if len(sys.argv) > 2 else "", SHAPES_R3)
    text = f"""You are working on the Rust library 6tail/tyme4rs (a Chinese calendar library: Gregorian/lunar conversion, solar terms, sexagenary cycles, festivals, almanac tables). Your private scratch copy is the git worktree at {wt} (a checkout of the current HEAD). Work ONLY inside {wt}. Do not read or modify /repo or /verif or any other directory under {root}.

Here is a semantic property that this library is supposed to satisfy:

ID: {pid}
TITLE: {p['title']}
STATEMENT: {p['statement']}
QUANTIFIED OVER: {p['quantifier']['text']}
WHY THE EXISTING TESTS CANNOT SETTLE IT: {p['why_tests_cant']}
CODE IT IS ANCHORED IN: files {p['anchors']['files']}; mechanisms: {json.dumps(p['anchors']['mechanism'], ensure_ascii=False)}; observable through: {p['anchors'].get('observe_at')}

YOUR TASK: act as a source of realistic, HARD-TO-NOTICE regressions. Produce TWO different, independent changes to the library source that each BREAK this property, while the crate still compiles and the existing test suite still passes unchanged (`cd {wt} && CARGO_NET_OFFLINE=true cargo test --workspace --offline` -> 272 unit tests and 67 doc tests must all pass).

Previous engineers already produced these changes for this property; do NOT repeat them or close variants of them:
{chr(10).join(prev)}

Your changes must be different in kind from all of those. First list for yourself every clause of the STATEMENT and every entry of "observable through", mark which ones the earlier changes touched, and aim at clauses / accessors / routes that were NOT touched yet. Use a different one of these shapes for each of your two changes:
{shapes}Plain constant tweaks that change the answer for a large share of ordinary inputs are NOT wanted. The property must really be violated as it is stated (do not merely change behaviour the statement leaves open, such as the choice between two equally valid answers, or behaviour outside the quantified domain). Do not edit or delete existing tests. Do not add dependencies. Everything must work offline.

For each change N in {{1, 2}} deliver, under {wt}/seed_out/N/:
  - patch.diff : the change as a unified diff of files under src/ only, produced with `git -C {wt} diff -- src > seed_out/N/patch.diff` (so it applies with `git apply` at the repository root),
  - demo.rs : a small self-contained Rust integration test file (to be placed at tests/demo.rs of the crate; use `use tyme4rs::tyme::...`) with one or more #[test] functions that FAIL with your change applied and PASS on the unchanged code,
  - meta.json : {{"property": "{pid}", "shape": "letter", "summary": "...what was changed...", "needs_to_manifest": "...what specific input/sequence is needed...", "commands": ["...what you ran..."], "verified": {{"tests_pass_with_change": true/false, "demo_fails_with_change": true/false, "demo_passes_without_change": true/false}}}}.

Procedure per change: start from a clean tree (`git -C {wt} checkout -- src`), make the edit, run the full test suite (must pass), copy your demo to tests/demo.rs and run `cargo test --offline --test demo` (must fail), save the patch, then `git checkout -- src` and run the demo again (must pass), then remove tests/demo.rs. Leave the worktree clean (no modifications under src/, no tests/demo.rs) when you finish; only the seed_out/ directory should remain. Read the anchored source files first to understand the mechanism. The machine is shared with other jobs, so builds may be slow; be patient. Report briefly what the two changes are and the verification results."""
    open(f'{root}/prompts/{pid}.txt', 'w').write(text)
print('ok', len(props))
