#!/usr/bin/env bash
# usage: tools/run_all.sh [quick|thorough] [seed]  — run every claimed check once, print one line per property
cd "$(dirname "$0")/.."
TIER="${1:-quick}"; SEED="${2:-20260926}"
rc=0
for p in $(python3 -c "import json;print(' '.join(c['property_id'] for c in json.load(open('MANIFEST.json'))['checks']))"); do
  s=$(date +%s.%N)
  out=$(VERIF_SEED=$SEED ./check $p $TIER 2>&1); code=$?
  e=$(date +%s.%N)
  printf "%s exit=%d %.1fs %s\n" "$p" "$code" "$(echo "$e - $s" | bc)" "$(echo "$out" | tail -1 | cut -c1-150)"
  if [ $code -ne 0 ]; then rc=1; echo "$out" | grep -E "VIOLATION|INCONCLUSIVE|signature" | head -5; fi
done
exit $rc
