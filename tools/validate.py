#!/usr/bin/env python3
"""Validate MANIFEST.json and every evidence file against the schemas (run with python3-vt)."""
import json, glob, sys, jsonschema
ok = True
def v(path, schema):
    global ok
    try:
        jsonschema.validate(json.load(open(path)), json.load(open(schema)))
    except Exception as e:
        ok = False
        print("INVALID", path, str(e)[:300])
v('/verif/MANIFEST.json', '/root/.vp/MANIFEST.schema.json')
for f in sorted(glob.glob('/verif/evidence/*.json')):
    v(f, '/root/.vp/EVIDENCE.schema.json')
print("all valid" if ok else "FAILED")
sys.exit(0 if ok else 1)
