#!/usr/bin/env python3
"""Regenerate /verif/MANIFEST.json from tools/manifest_table.json (kept by hand)."""
import json, os, subprocess
here = os.path.dirname(os.path.abspath(__file__))
root = os.path.dirname(here)
tab = json.load(open(os.path.join(here, "manifest_table.json")))
props = [json.loads(l) for l in open(os.path.join(root, "properties.jsonl"))]
ids = [p["id"] for p in props]
checks = []
for pid in ids:
    t = tab["checks"].get(pid)
    if not t:
        continue
    checks.append({
        "property_id": pid,
        "quick_cmd": f"./check {pid} quick",
        "thorough_cmd": f"./check {pid} thorough",
        "evidence_file": f"/verif/evidence/{pid}.json",
        "replay_cmd_template": f"./check {pid} --replay {{path}}",
        "engine": "vcheck",
        "level_claimed": {"category": "exploration", "text": t["level_text"], "design_ref": t.get("design_ref", f"DESIGN.md section 4 {pid}")},
        "level_note": t["level_note"],
        "technique": t["technique"],
    })
na = [{"property_id": pid, "reason": tab["not_applicable"].get(pid, "check not built yet in this round; see DESIGN.md section 4 for the planned generator and oracle")} for pid in ids if pid not in tab["checks"]]
try:
    commits = subprocess.check_output(["git", "-C", "/repo", "log", "--format=%h %s", "3b842a4..HEAD"], text=True).strip().splitlines()
except Exception:
    commits = []
hook_commits = [c.split()[0] for c in commits if c.split(" ", 1)[1].startswith("verif hooks")]
m = {
    "version": 1,
    "setup_cmd": "cd /verif/harness && CARGO_NET_OFFLINE=true cargo build --release --offline",
    "hooks": {
        "guard": "cargo feature verif-hooks (tyme4rs/Cargo.toml [features]); all hook code is #[cfg(feature = \"verif-hooks\")]",
        "enable": "the harness crate /verif/harness depends on tyme4rs by path (/repo) with features = [\"verif-hooks\"], so every ./check rebuilds tyme4rs from /repo's working tree with the hooks on",
        "baseline_off_cmd": "cd /repo && cargo test --workspace --no-fail-fast --offline",
        "source_commits": hook_commits,
        "add_only": True,
    },
    "engines": [{"name": "vcheck", "path": "/verif/harness", "serves_properties": [c["property_id"] for c in checks],
                 "kind_free_text": "Rust binary: exhaustive enumerators + proptest strategies (fixed seed, shrinking) + independent oracles; worker processes; known-findings matcher; replay files"},
                {"name": "props (cargo-fuzz / libFuzzer)", "path": "/verif/harness/fuzz", "serves_properties": sorted(set(tab.get("fuzz_props", []))),
                 "kind_free_text": "coverage-guided byte-level driver over the same evaluators (one input = one case of one sub-check); extra stage of the thorough tier, skipped with a NOTE if the nightly tool chain cannot build it"}],
    "checks": checks,
    "not_applicable": na,
    "notes": tab.get("notes", ""),
}
# (kept even when empty: "every property is claimed" is then stated, not implied)
json.dump(m, open(os.path.join(root, "MANIFEST.json"), "w"), indent=1, ensure_ascii=False)
print("claimed", [c["property_id"] for c in checks], "not_applicable", [x["property_id"] for x in na])
