#!/usr/bin/env python3
"""date index in the harness's model calendar: tools/dateidx.py Y M D"""
import sys
def mlen(y,m):
    if m==2: return 29 if (y%4==0 if y<1583 else ((y%4==0 and y%100!=0) or y%400==0)) else 28
    return 31 if m in (1,3,5,7,8,10,12) else 30
def idx(Y,M,D):
    n=0
    for y in range(1,Y):
        n+= 355 if y==1582 else (366 if mlen(y,2)==29 else 365)
    for m in range(1,M): n+= 21 if (Y==1582 and m==10) else mlen(Y,m)
    n+=D-1
    if Y==1582 and M==10 and D>=15: n-=10
    return n
if __name__=="__main__": print(idx(*map(int,sys.argv[1:4])))
