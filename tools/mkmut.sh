#!/usr/bin/env bash
# usage: tools/mkmut.sh <name> <file-relative-to-/repo> <sed-expression>   -> writes mutants/<name>.diff
set -eu
N="$1"; F="$2"; E="$3"
T=$(mktemp -d /tmp/mkmut.XXXX)
mkdir -p "$T/a/$(dirname "$F")" "$T/b/$(dirname "$F")"
cp "/repo/$F" "$T/a/$F"; sed -E "$E" "/repo/$F" > "$T/b/$F"
( cd "$T" && diff -u "a/$F" "b/$F" > "/verif/mutants/$N.diff" ) || true
rm -rf "$T"
if [ ! -s "/verif/mutants/$N.diff" ]; then echo "EMPTY mutant $N"; rm -f "/verif/mutants/$N.diff"; exit 1; fi
grep -c '^[-+][^-+]' "/verif/mutants/$N.diff"
