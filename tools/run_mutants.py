#!/usr/bin/env python3
"""Apply each of /verif/mutants/*.diff to /repo in turn, run the quick check of the property it targets
(name prefix cNN-), revert, and write mutants/RESULTS.md. Also verifies that the unit tests still pass with the mutant
(a mutant the existing tests already catch is not interesting) unless --no-tests."""
import glob, json, os, subprocess, sys, time
def sh(cmd, cwd=None):
    p = subprocess.run(cmd, shell=True, cwd=cwd, capture_output=True, text=True, env=dict(os.environ, CARGO_NET_OFFLINE="true"))
    return p.returncode, p.stdout + p.stderr
rows = []
only = [a for a in sys.argv[1:] if not a.startswith("--")]
run_tests = "--no-tests" not in sys.argv
# --reuse-tests: take the "existing tests" column of mutants already listed in RESULTS.md (it depends on the mutant only)
known_tests = {}
if "--reuse-tests" in sys.argv and os.path.exists("/verif/mutants/RESULTS.md"):
    for l in open("/verif/mutants/RESULTS.md"):
        c = [x.strip() for x in l.split("|")]
        if len(c) > 4 and c[3] in ("pass", "FAIL"): known_tests[c[1]] = c[3]
if sh("git -C /repo status --porcelain -- src")[1].strip():
    print("refusing: /repo has local modifications"); sys.exit(2)
for f in sorted(glob.glob("/verif/mutants/*.diff")):
    name = os.path.basename(f)[:-5]
    if only and not any(name.startswith(o) for o in only): continue
    prop = "C" + name[1:3]
    rc, out = sh(f"git -C /repo apply {f}")
    if rc != 0:
        rows.append((name, prop, "patch does not apply", "", "")); continue
    try:
        tests = ""
        if name in known_tests:
            tests = known_tests[name]
        elif run_tests:
            rc, out = sh("cargo test --workspace --no-fail-fast --offline 2>&1 | grep -E '^test result'", cwd="/repo")
            tests = "pass" if out.count(" 0 failed") >= 2 else "FAIL"
        t0 = time.time()
        rc, out = sh(f"./check {prop} quick", cwd="/verif")
        sig = [l.strip() for l in out.splitlines() if l.strip().startswith("signature=")]
        rows.append((name, prop, {0: "MISSED", 1: "detected", 2: "inconclusive"}.get(rc, str(rc)), tests, (sig[0][:160] if sig else "")))
        print(name, prop, rows[-1][2], tests, f"{time.time()-t0:.1f}s")
    finally:
        sh("git -C /repo checkout -- .")
with open("/verif/mutants/RESULTS.md", "w") as o:
    o.write("# Hand-written sensitivity mutants (tools/run_mutants.py)\n\nEach mutant is a compile-clean edit of /repo that keeps the 272 unit tests + 67 doc tests green and breaks the property named by its prefix; the quick check of that property must exit 1.\n\n| mutant | property | existing tests | quick check | first violation signature |\n|---|---|---|---|---|\n")
    for r in rows:
        o.write(f"| {r[0]} | {r[1]} | {r[3]} | {r[2]} | `{r[4]}` |\n")
print("written mutants/RESULTS.md", len(rows))
