#!/usr/bin/env python3
"""Write /verif/seeded/RESULTS.md from the meta.json of every kept seeded change."""
import glob, json, os
rows = []
for f in sorted(glob.glob('/verif/seeded/*/meta.json')):
    m = json.load(open(f))
    det = [c for c, v in m.get('checks', {}).items() if v.get('detected')]
    missed = [c for c, v in m.get('checks', {}).items() if not v.get('detected')]
    sig = ''
    for c in det:
        s = m['checks'][c].get('first_signatures') or []
        if s:
            sig = s[0].replace('|', '/')[:150]
            break
    rows.append((m['seed_id'], m['property'], (m.get('summary') or '').replace('\n', ' ').replace('|', '/')[:230], (m.get('needs_to_manifest') or '').replace('\n', ' ').replace('|', '/')[:200], 'yes' if m['confirmed'].get('all') else 'NO', ', '.join(det) or '-', ', '.join(missed) or '-', sig, m.get('note', '')))
with open('/verif/seeded/RESULTS.md', 'w') as o:
    o.write("# Independently seeded changes (written by fresh sub-agents from the property text only)\n\n")
    o.write("Each change was confirmed by tools/seed_eval.py in a scratch worktree (patch applies, crate builds, the 272 unit + 67 doc tests pass with it, its demonstration fails with it and passes without it) and then applied to /repo, the listed quick checks run, and the patch reverted.\n\n")
    o.write("| seed | property | change | needs to manifest | confirmed | caught by | run but silent | first violation | note |\n|---|---|---|---|---|---|---|---|---|\n")
    for r in rows:
        o.write("| " + " | ".join(r) + " |\n")
    n = len(rows); c = sum(1 for r in rows if r[5] != '-')
    o.write(f"\n{c} of {n} kept changes are caught by at least one quick check.\n")
print(len(rows), "rows")
